/* drv_parse: C10 observation driver.  stdin lines:  <hex bytes> TAB <chunk sizes, comma separated>
 * The byte string is fed to the real pull parser in exactly those chunks
 * (each chunk copied to its own exact-size heap block so that the sanitizer
 * sees any overread), and every pulled instruction is dumped.  No expectations. */
#include "taskdump.h"
#include <unistd.h>
#include "evical.h"

static FILE *o;
static unsigned hexv(int c) { return c <= '9' ? c - '0' : (c | 32) - 'a' + 10; }

static void dump_ins(echs_instruc_t ins, int *first)
{
	if (ins.v == INSVERB_UNK) return;
	if (!*first) fputc(',', o);
	*first = 0;
	fprintf(o, "{\"v\":%d", (int)ins.v);
	if (ins.v == INSVERB_SCHE) {
		if (ins.t) { fputs(",\"t\":", o); dump_task_json(o, ins.t, 20); free_echs_task(ins.t); }
		else fputs(",\"t\":null", o);
		/* the oid slot of the instruction, unused for this verb: whatever it holds belongs to the instruction as handed out */
		if (ins.o) { const char *u = obint_name(ins.o); fputs(",\"o\":", o); if (u) nd_str(o, u, strlen(u)); else fputs("\"?\"", o); }
	} else {
		const char *u = ins.o ? obint_name(ins.o) : NULL;
		fputs(",\"o\":", o); if (u) nd_str(o, u, strlen(u)); else fputs("null", o);
	}
	fputc('}', o);
}

int main(int argc, char *argv[])
{
	unsigned budget = argc > 1 ? atoi(argv[1]) : 10;
	o = stdout; static char obuf[1 << 20]; setvbuf(o, obuf, _IOFBF, sizeof(obuf));
	nd_guard_init();
	char *line = NULL; size_t cap = 0; ssize_t n; long ln = 0;
	while ((n = getline(&line, &cap, stdin)) > 0) {
		ln++;
		if (line[n - 1] == '\n') line[--n] = 0;
		char *parts = strchr(line, '\t'); if (!parts) continue; *parts++ = 0;
		size_t len = strlen(line) / 2; unsigned char *data = malloc(len + 1);
		for (size_t k = 0; k < len; k++) data[k] = (unsigned char)(hexv(line[2 * k]) * 16 + hexv(line[2 * k + 1]));
		fprintf(o, "{\"e\":\"Parse\",\"ln\":%ld,\"ins\":[", ln);
		int first = 1; volatile int started = 1;
		nd_crashed = 0;
		if (!sigsetjmp(nd_jb, 1)) {
			ical_parser_t pp = NULL; size_t off = 0; const char *q = parts; int aborted = 0; char *prev = NULL;
			alarm(budget);
			while (off < len && !aborted) {
				size_t sz = strtoul(q, (char**)&q, 10); if (*q == ',') q++;
				if (sz == 0 || sz > len - off) sz = len - off;
				/* exact-size block plus ONE slack byte: at end of input the parser looks at the byte behind the
				 * last chunk (callers hand it a larger read buffer); the slack byte is not white space */
				char *chunk = malloc(sz + 1); memcpy(chunk, data + off, sz); chunk[sz] = 'Z'; off += sz;
				if (echs_evical_push(&pp, chunk, sz) < 0) { aborted = 1; free(prev); prev = chunk; break; }
				echs_instruc_t ins;
				do { ins = echs_evical_pull(&pp); dump_ins(ins, &first); } while (ins.v != INSVERB_UNK);
				/* the callers keep the read buffer alive until the parser is finished with it */
				free(prev); prev = chunk;
				/* a finished parser (END:VCALENDAR) is not the end of the stream: every caller (echse, echsq, echsd, echsx)
				 * goes on reading and pushes what comes next, which starts a new parser */
			}
			if (pp != NULL) { echs_instruc_t ins = echs_evical_last_pull(&pp); dump_ins(ins, &first); }
			free(prev);
			alarm(0);
		}
		alarm(0);
		fputs("]", o);
		if (nd_crashed) fprintf(o, ",\"%s\":%d", nd_crashed == SIGALRM ? "timeout" : "crash", nd_crashed);
		fputs("}\n", o);
		fflush(o);
		free(data);
		(void)started;
	}
	return 0;
}
