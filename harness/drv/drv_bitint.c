/* drv_bitint: C19 observation driver.  Inserts sequences into the six
 * containers of bitint.h and logs membership + iteration.  No expectations. */
#include "nd.h"
#include "bitint.h"

static FILE *o;
#define MAXIT 2000

enum { T_BUI31, T_BUI63, T_BI31, T_BI63, T_BI383, T_BI447, NT };
static const char *tn[NT] = {"bui31", "bui63", "bi31", "bi63", "bi383", "bi447"};
static const int lo[NT] = {0, 0, -31, -63, -383, -447};
static const int hi[NT] = {30, 62, 31, 63, 383, 447};


static char repbuf[16384];
static void rep_bits(char *p, const uint32_t *w, size_t nw, int skip0)
{
	int first = 1;
	for (size_t j = 0; j < nw; j++) for (unsigned b = 0; b < 32; b++) {
		if (skip0 && j == 0 && b == 0) continue;
		if (w[j] >> b & 1U) { p += sprintf(p, "%s%u", first ? "" : ",", (unsigned)(j * 32 + b)); first = 0; }
	}
	*p = 0;
}
static void rep_u(uint64_t bi)
{
	char b[1024]; uint32_t w[2];
	if (!bi) { strcpy(repbuf, "{\"mode\":\"empty\",\"val\":0,\"bits\":[]}"); return; }
	if (bi & 1) { sprintf(repbuf, "{\"mode\":\"single\",\"val\":%llu,\"bits\":[]}", (unsigned long long)(bi >> 1)); return; }
	bi >>= 1; w[0] = (uint32_t)bi; w[1] = (uint32_t)(bi >> 32); rep_bits(b, w, 2, 0);
	sprintf(repbuf, "{\"mode\":\"bits\",\"val\":0,\"bits\":[%s]}", b);
}
static void rep_s(uint64_t pos, int64_t neg)
{
	char b1[1024], b2[1024]; uint32_t w[2];
	if (!pos && !neg) { strcpy(repbuf, "{\"mode\":\"empty\",\"val\":0,\"pos\":[],\"neg\":[]}"); return; }
	if (pos & 1) { sprintf(repbuf, "{\"mode\":\"single\",\"val\":%lld,\"pos\":[],\"neg\":[]}", (long long)neg); return; }
	w[0] = (uint32_t)pos; w[1] = (uint32_t)(pos >> 32); rep_bits(b1, w, 2, 0);
	w[0] = (uint32_t)(uint64_t)neg; w[1] = (uint32_t)((uint64_t)neg >> 32); rep_bits(b2, w, 2, 0);
	sprintf(repbuf, "{\"mode\":\"bits\",\"val\":0,\"pos\":[%s],\"neg\":[%s]}", b1, b2);
}
static int pos_single(uint64_t p) { return p & 1; }
static void rep_n(const uint32_t *pos, const int32_t *neg, size_t nw)
{
	static char b1[8192], b2[8192];
	if (!(pos[0] & 1)) {
		char *p = b1; size_t c = pos[0] >> 1; *p = 0;
		for (size_t k = 0; k < c && k < nw; k++) p += sprintf(p, "%s%d", k ? "," : "", neg[k]);
		sprintf(repbuf, "{\"mode\":\"native\",\"arr\":[%s],\"pos\":[],\"neg\":[]}", b1); return;
	}
	rep_bits(b1, pos, nw, 1); rep_bits(b2, (const uint32_t*)neg, nw, 0);
	sprintf(repbuf, "{\"mode\":\"bits\",\"arr\":[],\"pos\":[%s],\"neg\":[%s]}", b1, b2);
}

static void run(int t, const int *ins, size_t n)
{
	int out[MAXIT + 1]; size_t no = 0; int runaway = 0;
	int has[1024]; size_t nh = 0; int hashas = 0, hasbits = -1;
	bitint_iter_t it = 0; int v;
	nd_crashed = 0;
	if (!sigsetjmp(nd_jb, 1)) {
	alarm(5);
	switch (t) {
	case T_BUI31: { bituint31_t b = 0; for (size_t k = 0; k < n; k++) b = ass_bui31(b, ins[k]);
		for (it = 0; (v = bui31_next(&it, b), it);) { if (no >= MAXIT) { runaway = 1; break; } out[no++] = v; }
		hashas = 1; for (int x = lo[t]; x <= hi[t]; x++) if (bui31_has_bit_p(b, x)) has[nh++] = x;
		hasbits = bui31_has_bits_p(b); rep_u(b); break; }
	case T_BUI63: { bituint63_t b = 0; for (size_t k = 0; k < n; k++) b = ass_bui63(b, ins[k]);
		for (it = 0; (v = bui63_next(&it, b), it);) { if (no >= MAXIT) { runaway = 1; break; } out[no++] = v; }
		hasbits = bui63_has_bits_p(b); rep_u(b); break; }
	case T_BI31: { bitint31_t b = {0, 0}; for (size_t k = 0; k < n; k++) b = ass_bi31(b, ins[k]);
		for (it = 0; (v = bi31_next(&it, b), it);) { if (no >= MAXIT) { runaway = 1; break; } out[no++] = v; }
		hashas = 1; for (int x = lo[t]; x <= hi[t]; x++) if (bi31_has_bit_p(b, x)) has[nh++] = x;
		hasbits = bi31_has_bits_p(b); rep_s(b.pos, (pos_single(b.pos) ? (int64_t)b.neg : (int64_t)(uint32_t)b.neg)); break; }
	case T_BI63: { bitint63_t b = {0, 0}; for (size_t k = 0; k < n; k++) b = ass_bi63(b, ins[k]);
		for (it = 0; (v = bi63_next(&it, b), it);) { if (no >= MAXIT) { runaway = 1; break; } out[no++] = v; }
		hasbits = bi63_has_bits_p(b); rep_s(b.pos, b.neg); break; }
	case T_BI383: { bitint383_t b; memset(&b, 0, sizeof(b)); for (size_t k = 0; k < n; k++) ass_bi383(&b, ins[k]);
		for (it = 0; (v = bi383_next(&it, &b), it);) { if (no >= MAXIT) { runaway = 1; break; } out[no++] = v; }
		hasbits = bi383_has_bits_p(&b); rep_n(b.pos, b.neg, 12); break; }
	case T_BI447: { bitint447_t b; memset(&b, 0, sizeof(b)); for (size_t k = 0; k < n; k++) ass_bi447(&b, ins[k]);
		for (it = 0; (v = bi447_next(&it, &b), it);) { if (no >= MAXIT) { runaway = 1; break; } out[no++] = v; }
		hasbits = bi447_has_bits_p(&b); rep_n(b.pos, b.neg, 14); break; }
	}
	alarm(0);
	}
	alarm(0);
	fprintf(o, "{\"e\":\"Set\",\"t\":\"%s\",\"ins\":[", tn[t]);
	for (size_t k = 0; k < n; k++) fprintf(o, "%s%d", k ? "," : "", ins[k]);
	fputs("]", o);
	if (nd_crashed) { fprintf(o, ",\"crash\":%d}\n", nd_crashed); return; }
	fputs(",\"iter\":[", o);
	for (size_t k = 0; k < no; k++) fprintf(o, "%s%d", k ? "," : "", out[k]);
	fprintf(o, "],\"runaway\":%s,\"nonempty\":%s", runaway ? "true" : "false", hasbits ? "true" : "false");
	if (hashas) { fputs(",\"has\":[", o); for (size_t k = 0; k < nh; k++) fprintf(o, "%s%d", k ? "," : "", has[k]); fputs("]", o); }
	fprintf(o, ",\"rep\":%s}\n", repbuf);
}

static int bset[64]; static size_t nbset;
static void mkbset(int t)
{
	/* boundary values of a container's range (input selection only) */
	int c[] = {0, 1, 2, 3, 5, 7, 30, 31, 32, 33, 62, 63, 64, 65, 95, 96, 127, 128, 255, 256, 366, 382, 383, 384, 415, 416, 446, 447};
	nbset = 0;
	for (size_t k = 0; k < sizeof(c) / sizeof(*c); k++) {
		if (c[k] <= hi[t]) bset[nbset++] = c[k];
		if (c[k] && -c[k] >= lo[t]) bset[nbset++] = -c[k];
	}
}

int main(int argc, char *argv[])
{
	int thorough = argc > 1 && !strcmp(argv[1], "thorough");
	nd_rng_s = argc > 2 ? strtoull(argv[2], 0, 10) : 1;
	o = stdout; static char obuf[1 << 20]; setvbuf(o, obuf, _IOFBF, sizeof(obuf));
	nd_guard_init();
	int s[64];
	for (int t = 0; t < NT; t++) {
		int small = t <= T_BI31;
		run(t, s, 0);
		/* all singletons and all ordered pairs (with repeats) */
		for (int a = lo[t]; a <= hi[t]; a++) { s[0] = a; run(t, s, 1); }
		if (small || t == T_BI63 || thorough) {
			for (int a = lo[t]; a <= hi[t]; a++) for (int b = lo[t]; b <= hi[t]; b++) { s[0] = a; s[1] = b; run(t, s, 2); }
		}
		/* ordered triples: complete for the two small unsigned/signed types in thorough, else over the boundary set */
		if (thorough && small) {
			for (int a = lo[t]; a <= hi[t]; a++) for (int b = lo[t]; b <= hi[t]; b++) for (int c = lo[t]; c <= hi[t]; c++) {
				s[0] = a; s[1] = b; s[2] = c; run(t, s, 3); }
		}
		mkbset(t);
		for (size_t a = 0; a < nbset; a++) for (size_t b = 0; b < nbset; b++) {
			s[0] = bset[a]; s[1] = bset[b]; if (!(small || t == T_BI63 || thorough)) run(t, s, 2);
			for (size_t c = 0; c < nbset; c++) { if (!thorough && (a + b + c) % 3) continue; s[2] = bset[c]; run(t, s, 3); }
		}
		/* seeded random sequences up to 40 insertions, with repeats, incl. clustered and negative-only ones */
		size_t nr = thorough ? 60000 : 4000;
		for (size_t k = 0; k < nr; k++) {
			size_t n = 1 + nd_rnd(nd_rnd(4) ? 8 : 40);
			unsigned mode = nd_rnd(6);
			int span = hi[t] - lo[t] + 1;
			for (size_t j = 0; j < n; j++) {
				int x;
				switch (mode) { case 0: x = lo[t] + (int)nd_rnd(span); break;
					case 1: x = lo[t] < 0 ? -(int)nd_rnd(-lo[t] + 1) : (int)nd_rnd(span); break;	/* non-positive only */
					case 2: x = (int)nd_rnd(hi[t] + 1); break;
					case 3: x = bset[nd_rnd(nbset)]; break;
					case 4: x = lo[t] + (int)nd_rnd(span); if (j && nd_rnd(3) == 0) x = s[nd_rnd(j)]; break;
					default: x = (lo[t] < 0 ? -1 : 0) + (int)nd_rnd(3) - (lo[t] < 0 ? 0 : 0); if (x < lo[t]) x = lo[t]; }
				s[j] = x;
			}
			run(t, s, n);
		}
	}
	fflush(o);
	return 0;
}
