/* drv_scale: C15 observation driver: every Gregorian day of 1901..2099 is
 * converted to each Hijri scale and back; ndim and wday are recorded.
 * Usage: drv_scale <scale 1..10> <tier> <seed>.  No expectations. */
#include "nd.h"
#include "scale.h"
#include "tzob.h"

static unsigned mdays(unsigned y, unsigned m) { static unsigned md[] = {0,31,28,31,30,31,30,31,31,30,31,30,31}; return md[m] + (m == 2 && y % 4 == 0 && (y % 100 || y % 400 == 0)); }
static void emit_day(FILE *o, unsigned s, unsigned y, unsigned m, unsigned d)
{
	echs_instant_t g = mkinst(y, m, d, 255, 0, 0, 0), h = {.u = 0}, b = {.u = 0};
	unsigned nd = 0, wd = 0;
	nd_crashed = 0;
	if (!sigsetjmp(nd_jb, 1)) {
		h = echs_instant_rescale(g, (echs_scale_t)s);
		if (!echs_nul_instant_p(h)) {
			echs_instant_t hd = echs_instant_detach_scale(h);
			b = echs_instant_detach_scale(echs_instant_rescale(h, SCALE_GREGORIAN));
			nd = echs_scale_ndim((echs_scale_t)s, hd.y, hd.m);
			wd = echs_scale_wday((echs_scale_t)s, hd.y, hd.m, hd.d);
			h = hd;
		}
	}
	fprintf(o, "{\"e\":\"Day\",\"sc\":%u,\"g\":[%u,%u,%u]", s, y, m, d);
	if (nd_crashed) { fputs(",\"crash\":true}\n", o); return; }
	/* "full" marks lines whose predecessor line is the previous calendar day */
	fprintf(o, ",\"h\":[%u,%u,%u],\"back\":[%u,%u,%u],\"ndim\":%u,\"wd\":%u,\"hscale\":%u}\n", h.y, h.m, h.d, b.y, b.m, b.d, nd, wd,
		echs_nul_instant_p(h) ? 0 : s);
}
static void emit_hday(FILE *o, unsigned s, unsigned y, unsigned m, unsigned d)
{
	echs_instant_t h = echs_instant_attach_scale(mkinst(y, m, d, 255, 0, 0, 0), (echs_scale_t)s), g = {.u = 0}, b = {.u = 0};
	unsigned hnd = 0;
	nd_crashed = 0;
	if (!sigsetjmp(nd_jb, 1)) {
		hnd = echs_scale_ndim((echs_scale_t)s, y, m);	/* the length the code gives that month (0: unknown) */
		g = echs_instant_rescale(h, SCALE_GREGORIAN);
		if (!echs_nul_instant_p(g)) b = echs_instant_detach_scale(echs_instant_rescale(echs_instant_detach_scale(g), (echs_scale_t)s));
		g = echs_instant_detach_scale(g);
	}
	fprintf(o, "{\"e\":\"HDay\",\"sc\":%u,\"h\":[%u,%u,%u]", s, y, m, d);
	if (nd_crashed) { fputs(",\"crash\":true}\n", o); return; }
	fprintf(o, ",\"g\":[%u,%u,%u],\"back\":[%u,%u,%u],\"ndim\":%u}\n", g.y, g.m, g.d, b.y, b.m, b.d, hnd);
}
int main(int argc, char *argv[])
{
	unsigned s = argc > 1 ? atoi(argv[1]) : 1;
	int thorough = argc > 2 && !strcmp(argv[2], "thorough");
	if (argc > 4 && !strcmp(argv[1], "mixed")) {
		/* drv_scale mixed <tier> <seed> <prefix>: the same days, but every day is converted into several scales in turn (both table
		 * calendars among them) before the next day is taken up - what a file with rules in different scales does; the lines go to
		 * one file per scale (<prefix>.<scale>.ndjson), each like the trace of a single-scale run */
		static const unsigned mix[] = {9, 10, 1, 10, 9};
		FILE *of[11] = {0};
		nd_rng_s = strtoull(argv[3], 0, 10); nd_guard_init();
		for (size_t k = 0; k < 5; k++) if (!of[mix[k]]) { char fn[4096]; snprintf(fn, sizeof(fn), "%s.%u.ndjson", argv[4], mix[k]); of[mix[k]] = fopen(fn, "w"); }
		unsigned ph2 = nd_rnd(5);
		for (unsigned y = 1901; y <= 2099; y++) {
			int full = thorough || (y % 5) == ph2 || (y >= 1936 && y <= 1938) || (y >= 2021 && y <= 2023) || (y >= 2076 && y <= 2078);
			for (unsigned m = 1; m <= 12; m++) for (unsigned d = 1; d <= mdays(y, m); d++) {
				if (!full && !(d <= 2 || d >= mdays(y, m) - 1)) continue;
				/* the second visit of a scale on the same day is made but not logged (one line per day and scale) */
				unsigned seen = 0;
				for (size_t k = 0; k < 5; k++) {
					if (seen & (1U << mix[k])) { echs_instant_t g = mkinst(y, m, d, 255, 0, 0, 0); (void)echs_instant_rescale(g, (echs_scale_t)mix[k]); continue; }
					seen |= 1U << mix[k]; emit_day(of[mix[k]], mix[k], y, m, d);
				}
			}
		}
		for (unsigned k = 0; k < 11; k++) if (of[k]) fclose(of[k]);
		return 0;
	}
	nd_rng_s = argc > 3 ? strtoull(argv[3], 0, 10) : 1;
	FILE *o = stdout; static char obuf[1 << 20]; setvbuf(o, obuf, _IOFBF, sizeof(obuf));
	nd_guard_init();
	unsigned ph = nd_rnd(5);
	for (unsigned y = 1901; y <= 2099; y++) {
		/* quick: every 5th year completely (phase from the seed) plus the days around every Gregorian month boundary */
		/* ... and the years in which the table calendars begin and end (1937, 2022, 2077) with their neighbours */
		int full = thorough || (y % 5) == ph || (y >= 1936 && y <= 1938) || (y >= 2021 && y <= 2023) || (y >= 2076 && y <= 2078);
		for (unsigned m = 1; m <= 12; m++) for (unsigned d = 1; d <= mdays(y, m); d++) {
			if (!full && !(d <= 2 || d >= mdays(y, m) - 1)) { continue; }
			emit_day(o, s, y, m, d);
		}
	}
	/* the other direction: Hijri dates from year 1 to 1600, in and far outside the coverage of the table calendars */
	for (unsigned y = 1; y <= 1600; y += (thorough ? 1 : 1 + nd_rnd(3))) for (unsigned m = 1 + (thorough ? 0 : nd_rnd(3)); m <= 12; m += (thorough ? 1 : 3)) {
		/* 30th days too: a month of 29 days has none (skipped by the judge through the month length) */
		emit_hday(o, s, y, m, 1 + nd_rnd(30));
	}
	/* ... and every month of the Hijri years in which the table calendars begin and end (1356, 1444, 1500) with their neighbours:
	 * the first and the last month of a table, and the months just outside */
	static const unsigned edge[] = {1355, 1356, 1357, 1443, 1444, 1445, 1499, 1500, 1501, 1502};
	for (size_t k = 0; k < sizeof(edge) / sizeof(*edge); k++) for (unsigned m = 1; m <= 12; m++) {
		static const unsigned ds[] = {1, 2, 15, 28, 29, 30};
		for (size_t j = 0; j < 6; j++) emit_hday(o, s, edge[k], m, ds[j]);
	}
	fflush(o);
	return 0;
}
