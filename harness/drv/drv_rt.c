/* drv_rt: observation driver for C05 (read as written / survives serialisation).
 * Reads a work list on stdin, one case per line:
 *    id \t k \t m \t ics-text-with-\n-escapes [\t ics text of another task of the same owner]
 * 1. parses the text with the real pull parser, dumps the task's attributes and
 *    its first k+m occurrences (with durations)                      -> "a"
 * 2. parses the same text again, consumes k occurrences, writes the task out
 *    with echs_icalify_init/echs_task_icalify/echs_icalify_fini into a file
 *    (what echsd's checkpoint and echsq's submission do)             -> "text"
 * 3. parses that text, dumps attributes and the first m occurrences  -> "b"
 * No expectations are computed here. */
#include "nd.h"
#include <unistd.h>
#include <fcntl.h>
#include <sys/stat.h>
#include "evical.h"
#include "task.h"
#include "taskdump.h"

static FILE *o;
static unsigned budget = 10;
static char *unesc(char *s)
{
	char *w = s;
	for (char *r = s; *r; r++) {
		if (r[0] == '\\' && r[1] == 'n') { *w++ = '\n'; r++; }
		else if (r[0] == '\\' && r[1] == 'r') { *w++ = '\r'; r++; }
		else if (r[0] == '\\' && r[1] == '\\') { *w++ = '\\'; r++; }
		else *w++ = *r;
	}
	*w = 0;
	return s;
}
/* returns the last task of the text, or with WANT the last one with that uid */
static echs_task_t parse_uid(const char *ics, size_t len, int *ntask, echs_toid_t want)
{
	ical_parser_t pp = NULL; echs_task_t t = NULL; *ntask = 0;
#define TAKE(x) do { ++*ntask; if (want && (x)->oid != want) { free_echs_task(x); } else { if (t) free_echs_task(t); t = (x); } } while (0)
	if (echs_evical_push(&pp, ics, len) >= 0) {
		echs_instruc_t ins;
		while ((ins = echs_evical_pull(&pp)).v == INSVERB_SCHE) { if (ins.t) TAKE(ins.t); }
		ins = echs_evical_last_pull(&pp);
		if (ins.v == INSVERB_SCHE && ins.t) TAKE(ins.t);
	}
	return t;
}
static echs_task_t parse(const char *ics, size_t len, int *ntask) { return parse_uid(ics, len, ntask, 0); }

static void one(char *line, const char *tmpfn)
{
	char *f[5] = {0}; int nf = 0;
	for (char *p = line; nf < 5; nf++) { f[nf] = p; char *t = strchr(p, '\t'); if (!t) { nf++; break; } *t = 0; p = t + 1; }
	if (nf < 4) return;
	long id = atol(f[0]); size_t k = strtoul(f[1], 0, 10), m = strtoul(f[2], 0, 10);
	char *ics = unesc(f[3]); size_t len = strlen(ics);
	volatile int stage = 0;
	fprintf(o, "{\"id\":%ld,\"k\":%zu,\"m\":%zu", id, k, m);
	nd_crashed = 0;
	if (!sigsetjmp(nd_jb, 1)) {
		int n1, n2, n3;
		alarm(budget);
		echs_task_t t1 = parse(ics, len, &n1);
		if (t1 == NULL) { alarm(0); fputs(",\"noevent\":true}\n", o); return; }
		stage = 1;
		fprintf(o, ",\"ntask_a\":%d,\"a\":", n1); dump_task_json(o, t1, k + m);
		free_echs_task(t1);
		stage = 2;
		echs_task_t t2 = parse(ics, len, &n2);
		size_t popped = 0;
		echs_toid_t want = t2->oid;
		if (t2->strm) for (; popped < k; popped++) { if (echs_nul_event_p(echs_evstrm_pop(t2->strm))) break; }
		int fd = open(tmpfn, O_RDWR | O_CREAT | O_TRUNC, 0600);
		/* like echsd's checkpoint: the header is made from the first task of the owner's queue, which is
		 * either this task or, when given, another one that is written before it */
		echs_task_t t0 = NULL; int n0;
		if (nf > 4 && f[4][0]) { char *ics0 = unesc(f[4]); t0 = parse(ics0, strlen(ics0), &n0); }
		int nproto = t0 != NULL && t0->strm != NULL && !echs_nul_event_p(echs_evstrm_next(t0->strm));
		echs_icalify_init(fd, (echs_instruc_t){INSVERB_SCHE, 0U, .t = t0 ? t0 : t2});
		if (t0) echs_task_icalify(fd, t0);
		echs_task_icalify(fd, t2);
		int lost = echs_icalify_fini(fd);
		if (t0) free_echs_task(t0);
		free_echs_task(t2);
		off_t z = lseek(fd, 0, SEEK_END);
		char *txt = malloc(z + 1);
		ssize_t nr = pread(fd, txt, z, 0); txt[nr > 0 ? nr : 0] = 0;
		close(fd);
		stage = 3;
		fprintf(o, ",\"popped\":%zu,\"lost\":%d,\"nproto\":%d,\"text\":", popped, lost, nproto); nd_str(o, txt, nr > 0 ? nr : 0);
		echs_task_t t3 = parse_uid(txt, nr > 0 ? nr : 0, &n3, want);
		fprintf(o, ",\"ntask_b\":%d", n3);
		if (t3 == NULL) { fputs(",\"b\":false", o); }
		else { fputs(",\"b\":", o); dump_task_json(o, t3, m); free_echs_task(t3); }
		free(txt);
		alarm(0);
		fputs("}\n", o);
		return;
	}
	alarm(0);
	fprintf(o, "%s,\"stage\":%d,\"%s\":%d}\n", stage == 1 ? "null" : "", stage, nd_crashed == SIGALRM ? "timeout" : "crash", nd_crashed);
}

int main(int argc, char *argv[])
{
	if (argc > 1) budget = atoi(argv[1]);
	const char *tmpfn = argc > 2 ? argv[2] : "/verif/work/drv_rt.tmp";
	o = stdout;
	nd_guard_init();
	char *line = NULL; size_t cap = 0; ssize_t n;
	while ((n = getline(&line, &cap, stdin)) > 0) {
		if (line[n - 1] == '\n') line[n - 1] = 0;
		one(line, tmpfn);
		fflush(o);
	}
	unlink(tmpfn);
	return 0;
}
