/* drv_mux: C03 observation driver.  Scripts on stdin, one run per line:
 *    uid:t,t,t|uid:t,t|... <TAB> ops
 * Every constituent is built by parsing a real VEVENT whose occurrences are an
 * RDATE list at 2030-01-01T00:00:00Z + t seconds (t >= 100000: day t / 100000 of January, second t % 100000, 0 = an all-day occurrence); they are combined with
 * echs_evstrm_vmux() and consumed with the op string (N = next/peek, P = pop).
 * Logs the results; computes no expectation. */
#include "nd.h"
#include "evical.h"
#include "task.h"

static FILE *o;
static echs_evstrm_t mkstrm(const char *uid, const char *times, echs_oid_t *oid)
{
	char ics[4096]; char *p = ics;
	/* a constituent whose time codes are all of the form day * 100000 (day >= 1) is an all-day event (DTSTART;VALUE=DATE):
	 * its occurrences go before every timed occurrence of the same day */
	int allday = *times != 0;
	for (const char *q = times; *q;) { int t = atoi(q); if (t < 100000 || t % 100000) allday = 0; while (*q && *q != ',') q++; if (*q) q++; }
	p += sprintf(p, "BEGIN:VCALENDAR\nBEGIN:VEVENT\nUID:%s\nSUMMARY:x\n%s\n", uid, allday ? "DTSTART;VALUE=DATE:20300101" : "DTSTART:20300101T000000Z");
	/* 66 or more times one minute apart: the same occurrences as a rule (FREQ=MINUTELY;COUNT=n), a constituent that refills its
	 * cache of 64 while it is being merged */
	{
		int n = 0, ap = 1, prev = 0, t0 = 0;
		for (const char *q = times; *q;) { int t = atoi(q); if (!n) t0 = t; else if (t - prev != 60) ap = 0; prev = t; n++; while (*q && *q != ',') q++; if (*q) q++; }
		if (ap && n >= 66 && t0 < 100000 && prev < 86400 && !(uid[0] >= 'A' && uid[0] <= 'Z')) {
			p = ics; p += sprintf(p, "BEGIN:VCALENDAR\nBEGIN:VEVENT\nUID:%s\nSUMMARY:x\nDTSTART:20300101T%02d%02d%02dZ\nRRULE:FREQ=MINUTELY;COUNT=%d\n", uid, t0 / 3600, t0 / 60 % 60, t0 % 60, n);
			times = "";
		}
	}
	if (*times && !allday && uid[0] >= 'A' && uid[0] <= 'Z') {
		/* an upper case UID: the same occurrences as an event of two RRULEs plus RDATEs (itself a merge inside the event):
		 * DTSTART is the first time, both rules yield just that, the other times are RDATEs */
		int t0 = atoi(times), d0 = t0 / 100000; t0 %= 100000;
		p = ics; p += sprintf(p, "BEGIN:VCALENDAR\nBEGIN:VEVENT\nUID:%s\nSUMMARY:x\nDTSTART:203001%02dT%02d%02d%02dZ\nRRULE:FREQ=DAILY;COUNT=1\nRRULE:FREQ=WEEKLY;COUNT=1\n", uid, 1 + d0, t0 / 3600, t0 / 60 % 60, t0 % 60);
		const char *q = times; while (*q && *q != ',') q++; if (*q) q++;
		times = q;
	}
	if (*times && !allday && uid[0] == 'z') {
		/* a UID that begins with z: the same instants, every other one written as wall-clock time of Asia/Tokyo (nine hours ahead all
		 * year) on an RDATE line of its own - lists in two notations, what is ascending as text is not ascending in time */
		char l2[4096]; char *p2 = l2; int k = 0, n1 = 0, n2 = 0;
		p += sprintf(p, "RDATE:");
		p2 += sprintf(p2, "RDATE;TZID=Asia/Tokyo:");
		for (const char *q = times; *q; k++) {
			int t = atoi(q), day = t / 100000; t %= 100000;
			if (k % 2 == 0) p += sprintf(p, "%s203001%02dT%02d%02d%02dZ", n1++ ? "," : "", 1 + day, t / 3600, t / 60 % 60, t % 60);
			else { int tl = t + 9 * 3600, dl = day + tl / 86400; tl %= 86400; p2 += sprintf(p2, "%s203001%02dT%02d%02d%02d", n2++ ? "," : "", 1 + dl, tl / 3600, tl / 60 % 60, tl % 60); }
			while (*q && *q != ',') q++; if (*q) q++;
		}
		if (!n1) p -= 6;	/* no value for the first line */
		else p += sprintf(p, "\n");
		if (n2) p += sprintf(p, "%s\n", l2);
		times = "";
	}
	if (*times) {
		p += sprintf(p, allday ? "RDATE;VALUE=DATE:" : "RDATE:");
		const char *q = times; int first = 1;
		while (*q) {
			int t = atoi(q), day = t / 100000; t %= 100000;
			if (allday) p += sprintf(p, "%s203001%02d", first ? "" : ",", 1 + day);
			else p += sprintf(p, "%s203001%02dT%02d%02d%02dZ", first ? "" : ",", 1 + day, t / 3600, t / 60 % 60, t % 60);
			first = 0; while (*q && *q != ',') q++; if (*q) q++;
		}
		p += sprintf(p, "\n");
	}
	p += sprintf(p, "END:VEVENT\nEND:VCALENDAR\n");
	ical_parser_t pp = NULL; echs_task_t t = NULL; echs_instruc_t ins;
	if (echs_evical_push(&pp, ics, p - ics) < 0) return NULL;
	while ((ins = echs_evical_pull(&pp)).v == INSVERB_SCHE) if (ins.t) t = ins.t;
	ins = echs_evical_last_pull(&pp);
	if (ins.v == INSVERB_SCHE && ins.t) t = ins.t;
	if (!t) return NULL;
	*oid = t->oid;
	/* the task is leaked on purpose: its stream now belongs to the mux */
	return t->strm;
}
/* rule mode: one event of several RRULEs is itself a merge (of the streams of its rules).  Line:
 *    R <TAB> dtstart-property-line <TAB> rule|rule|... <TAB> ops
 * The constituents are what each rule delivers in an event of its own (same DTSTART line, recorded here by following that event's
 * stream to its end), the merge under test is the stream of the event holding all the rules.  Times are reported in the code of
 * the other mode (January 2030: (day - 1) * 100000 + second of the day, all-day 0; -1 outside January 2030). */
static echs_evstrm_t evstrm_of(const char *ics, size_t z)
{
	ical_parser_t pp = NULL; echs_task_t t = NULL; echs_instruc_t ins;
	if (echs_evical_push(&pp, ics, z) < 0) return NULL;
	while ((ins = echs_evical_pull(&pp)).v == INSVERB_SCHE) if (ins.t) t = ins.t;
	ins = echs_evical_last_pull(&pp);
	if (ins.v == INSVERB_SCHE && ins.t) t = ins.t;
	return t ? t->strm : NULL;
}
static int tcode(echs_instant_t x)
{
	return (x.y == 2030 && x.m == 1) ? (int)(x.d - 1) * 100000 + (echs_instant_all_day_p(x) ? 0 : (int)(x.H * 3600 + x.M * 60 + x.S)) : -1;
}
static void rule_mode(char *line)
{
	char *dtl = line + 2, *rules = strchr(dtl, '\t'), *ops;
	if (!rules) return; *rules++ = 0;
	if (!(ops = strchr(rules, '\t'))) return; *ops++ = 0;
	static char all[8192], ics[8192]; size_t za = 0; int bad = 0;
	za += sprintf(all + za, "BEGIN:VCALENDAR\nBEGIN:VEVENT\nUID:r\nSUMMARY:x\n%s\n", dtl);
	fputs("{\"e\":\"MuxRun\",\"rulemode\":true,\"cons\":[", o);
	nd_crashed = 0;
	if (!sigsetjmp(nd_jb, 1)) {
		char *save = NULL; int k = 0;
		alarm(5);
		for (char *r = strtok_r(rules, "|", &save); r; r = strtok_r(NULL, "|", &save), k++) {
			za += sprintf(all + za, "RRULE:%s\n", r);
			size_t z = sprintf(ics, "BEGIN:VCALENDAR\nBEGIN:VEVENT\nUID:r\nSUMMARY:x\n%s\nRRULE:%s\nEND:VEVENT\nEND:VCALENDAR\n", dtl, r);
			echs_evstrm_t s1 = evstrm_of(ics, z);
			if (k) fputc(',', o);
			fputc('[', o);
			if (!s1) bad = 1;
			else for (int i = 0; i < 2000; i++) {
				echs_event_t e = echs_evstrm_pop(s1);
				if (echs_nul_event_p(e)) break;
				fprintf(o, "%s[%d,\"r\"]", i ? "," : "", tcode(e.from));
			}
			fputc(']', o);
		}
		alarm(0);
	}
	alarm(0);
	fprintf(o, "],\"ops\":[");
	for (char *q = ops; *q; q++) fprintf(o, "%s\"%c\"", q == ops ? "" : ",", *q);
	fputs("],\"res\":[", o);
	if (!nd_crashed && !sigsetjmp(nd_jb, 1)) {
		alarm(5);
		za += sprintf(all + za, "END:VEVENT\nEND:VCALENDAR\n");
		echs_evstrm_t mux = evstrm_of(all, za);
		if (!mux) bad = 1;
		for (char *q = ops; *q; q++) {
			echs_event_t e = {.from = {.u = 0}};
			if (mux) e = *q == 'P' ? echs_evstrm_pop(mux) : echs_evstrm_next(mux);
			if (q != ops) fputc(',', o);
			if (echs_nul_event_p(e)) fputs("[]", o);
			else fprintf(o, "[%d,\"r\"]", tcode(e.from));
		}
		alarm(0);
	}
	alarm(0);
	fputs("]", o);
	if (nd_crashed) fprintf(o, ",\"crash\":%d", nd_crashed);
	if (bad) fputs(",\"badparse\":true", o);
	fputs("}\n", o);
}
int main(void)
{
	o = stdout; static char obuf[1 << 20]; setvbuf(o, obuf, _IOFBF, sizeof(obuf));
	nd_guard_init();
	char *line = NULL; size_t cap = 0; ssize_t n;
	while ((n = getline(&line, &cap, stdin)) > 0) {
		if (line[n - 1] == '\n') line[--n] = 0;
		if (line[0] == 'R' && line[1] == '\t') { rule_mode(line); continue; }
		char *ops = strchr(line, '\t'); if (!ops) continue; *ops++ = 0;
		char names[16][32]; echs_oid_t oids[16]; size_t ns = 0;
		echs_evstrm_t *ss = malloc(16 * sizeof(*ss));
		fputs("{\"e\":\"MuxRun\",\"cons\":[", o);
		char *save = NULL; int bad = 0;
		for (char *tok = strtok_r(line, "|", &save); tok && ns < 16; tok = strtok_r(NULL, "|", &save)) {
			char *c = strchr(tok, ':'); *c++ = 0;
			strncpy(names[ns], tok, 31); names[ns][31] = 0;
			if (ns) fputc(',', o);
			fputc('[', o);
			{ const char *q = c; int first = 1; while (*q) { fprintf(o, "%s[%d,\"%s\"]", first ? "" : ",", atoi(q), tok); first = 0; while (*q && *q != ',') q++; if (*q) q++; } }
			fputc(']', o);
			ss[ns] = *c ? mkstrm(tok, c, &oids[ns]) : NULL;	/* no occurrences: no stream */
			if (ss[ns] == NULL && *c) bad = 1;
			ns++;
		}
		/* an op C replaces the merged stream by a clone of itself (an independent stream at the same position) and is not part of the
		 * recorded op string: cloning changes nothing about what comes out */
		fprintf(o, "],\"ops\":[");
		{ int fst = 1; for (char *q = ops; *q; q++) if (*q != 'C') { fprintf(o, "%s\"%c\"", fst ? "" : ",", *q); fst = 0; } }
		fputs("],\"res\":[", o);
		nd_crashed = 0;
		if (!sigsetjmp(nd_jb, 1)) {
			alarm(5);
			/* constituents without any occurrence yield no stream at all: leave them out, as the file reader does */
			echs_evstrm_t *arr = malloc(16 * sizeof(*arr)); size_t na = 0;
			for (size_t k = 0; k < ns; k++) if (ss[k]) arr[na++] = ss[k];
			/* every other run hands the array over as it is, empty places and all (the merge takes a copy and skips them) */
			static unsigned holes;
			echs_evstrm_t mux = !na ? NULL : (holes++ % 2) ? echs_evstrm_vmux(ss, ns) : echs_evstrm_vmux(arr, na);
			if (!na) free(arr);
			int fst = 1;
			for (char *q = ops; *q; q++) {
				echs_event_t e = {.from = {.u = 0}};
				if (*q == 'C') { if (mux) { echs_evstrm_t c2 = clone_echs_evstrm(mux); free_echs_evstrm(mux); mux = c2; } continue; }
				if (mux) e = *q == 'P' ? echs_evstrm_pop(mux) : echs_evstrm_next(mux);
				if (!fst) fputc(',', o);
				fst = 0;
				if (echs_nul_event_p(e)) fputs("[]", o);
				else {
					const char *nm = "?"; for (size_t k = 0; k < ns; k++) if (ss[k] && oids[k] == e.oid) { nm = names[k]; break; }
					int t = (e.from.y == 2030 && e.from.m == 1) ? (int)(e.from.d - 1) * 100000 + (echs_instant_all_day_p(e.from) ? 0 : (int)(e.from.H * 3600 + e.from.M * 60 + e.from.S)) : -1;
					fprintf(o, "[%d,\"%s\"]", t, nm);
				}
			}
			alarm(0);
			if (mux) free_echs_evstrm(mux);
		}
		alarm(0);
		fputs("]", o);
		if (nd_crashed) fprintf(o, ",\"crash\":%d", nd_crashed);
		if (bad) fputs(",\"badparse\":true", o);
		fputs("}\n", o);
		free(ss);
	}
	fflush(o);
	return 0;
}
