/* drv_intern: observation driver for the UID intern table (growth item, Intern.tla).
 * Reads strings on stdin, one per line (empty line = print the read-back section),
 * interns each with the real intern() and logs hash id and the name read back at once;
 * at the end every string is looked up again (after all growth and reallocation).
 * No expectations are computed here. */
#include "nd.h"
#include "intern.h"

int main(void)
{
	char *line = NULL; size_t cap = 0; ssize_t n;
	size_t cnt = 0, zids = 0; obint_t *ids = NULL;
	while ((n = getline(&line, &cap, stdin)) > 0) {
		if (line[n - 1] == '\n') line[--n] = 0;
		obint_t id = intern(line, n);
		const char *nm = obint_name(id);
		if (cnt >= zids) { zids = zids ? 2 * zids : 1024; ids = realloc(ids, zids * sizeof(*ids)); }
		ids[cnt++] = id;
		printf("{\"op\":\"I\",\"k\":%zu,\"s\":", cnt); nd_str(stdout, line, n);
		printf(",\"id\":\"h%08lx\",\"name\":", (unsigned long)id); nd_str(stdout, nm ? nm : "", nm ? strlen(nm) : 0); puts("}");
	}
	for (size_t i = 0; i < cnt; i++) {
		const char *nm = obint_name(ids[i]);
		printf("{\"op\":\"N\",\"k\":%zu,\"id\":\"h%08lx\",\"name\":", i + 1, (unsigned long)ids[i]); nd_str(stdout, nm ? nm : "", nm ? strlen(nm) : 0); puts("}");
	}
	return 0;
}
