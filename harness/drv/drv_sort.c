/* drv_sort: C20 observation driver.  Sorts arrays of instants / events with
 * the real echs_instant_sort / echs_event_sort and logs input and output.
 * Arrays are logged as indices into a per-record key table; no expectations. */
#include "nd.h"
#include "event.h"

static FILE *o;
static echs_instant_t keys[8192]; static size_t nkeys;

static echs_instant_t rnd_inst(void)
{
	unsigned y = 2019 + nd_rnd(3), m = 1 + nd_rnd(12), d = 1 + nd_rnd(28);
	switch (nd_rnd(5)) {
	case 0: return mkinst(y, m, d, 255, 0, 0, 0);
	case 1: return mkinst(y, m, d, nd_rnd(24), nd_rnd(60), nd_rnd(60), 1023);
	case 2: return mkinst(y, m, d, 0, 0, 0, 0);
	default: return mkinst(y, m, d, nd_rnd(24), nd_rnd(60), nd_rnd(60), nd_rnd(1000));
	}
}
static void mkkeys(size_t n, unsigned cluster)
{
	/* cluster: keys share few days so that all-day/timed/whole-second ties and near-ties occur */
	nkeys = n;
	for (size_t k = 0; k < n; k++) {
		echs_instant_t i = rnd_inst();
		if (cluster) { i.y = 2020; i.m = 2; i.d = 28 + nd_rnd(2); if (nd_rnd(2)) { i.M = 0; i.S = 0; if (i.ms != 1023) i.ms = 0; if (i.H != 255) i.H = nd_rnd(2); } }
		/* the key table holds distinct values: indices identify keys */
		int dup = 0; for (size_t j = 0; j < k; j++) if (keys[j].u == i.u) { dup = 1; break; }
		if (dup) { if (cluster && nd_rnd(4) == 0) cluster = 0; k--; continue; }
		keys[k] = i;
	}
}
static int key_of(echs_instant_t i)
{
	for (size_t k = 0; k < nkeys; k++) if (keys[k].u == i.u) return (int)k + 1;
	return 0;
}
static void emit_keys(void)
{
	fputs("\"keys\":[", o);
	for (size_t k = 0; k < nkeys; k++) { if (k) fputc(',', o); nd_inst(o, keys[k]); }
	fputs("]", o);
}
static int quiet;	/* lengths mode: keys, input and output are not printed, only whether the call came back */
static void do_sort(const unsigned *idx, size_t n, int ev)
{
	static echs_instant_t ia[8192]; static echs_event_t ea[8192];
	if (quiet) { fprintf(o, "{\"e\":\"Sort\",\"kind\":\"%s\",\"keys\":[],\"in\":[],\"n\":%zu", ev ? "event" : "instant", n); fflush(o); }
	else {
	fprintf(o, "{\"e\":\"Sort\",\"kind\":\"%s\",", ev ? "event" : "instant"); emit_keys();
	fputs(",\"in\":[", o);
	for (size_t k = 0; k < n; k++) fprintf(o, "%s%u", k ? "," : "", idx[k] + 1);
	fputs("]", o);
	}
	if (ev) {
		/* the other fields of an event are filled with values that have nothing to do with the position in the input (a
		 * permutation for the oid, arbitrary durations and states): an ordering that looks at anything but the start shows */
		static unsigned perm[8192], inv[8192]; static unsigned long long lcg = 88172645463325252ULL;
		memset(ea, 0, n * sizeof(*ea));
		for (size_t k = 0; k < n; k++) perm[k] = (unsigned)k;
		for (size_t k = n; k > 1; k--) { lcg = lcg * 6364136223846793005ULL + 1442695040888963407ULL; size_t j = (size_t)((lcg >> 33) % k); unsigned t = perm[k - 1]; perm[k - 1] = perm[j]; perm[j] = t; }
		for (size_t k = 0; k < n; k++) inv[perm[k]] = (unsigned)k;
		for (size_t k = 0; k < n; k++) {
			ea[k].from = keys[idx[k]]; ea[k].oid = (echs_oid_t)(perm[k] + 1);
			ea[k].dur.d = (int64_t)((perm[k] * 2654435761u) % 100000u); ea[k].sts = (perm[k] * 40503u) & 0xffu;
		}
		ND_GUARD(echs_event_sort(ea, n));
		if (!nd_crashed) for (size_t k = 0; k < n; k++) {
			/* back to the position the element had in the input (an oid that was never handed in is reported as position 0) */
			uintptr_t oi = (uintptr_t)ea[k].oid; ea[k].oid = (echs_oid_t)((oi >= 1 && oi <= n) ? inv[oi - 1] + 1 : 0);
		}
	} else {
		for (size_t k = 0; k < n; k++) ia[k] = keys[idx[k]];
		ND_GUARD(echs_instant_sort(ia, n));
	}
	if (nd_crashed) { fputs(",\"crash\":true}\n", o); return; }
	fputs(",\"out\":[", o);
	if (!quiet) for (size_t k = 0; k < n; k++) {
		if (ev) fprintf(o, "%s[%d,%llu]", k ? "," : "", key_of(ea[k].from), (unsigned long long)(uintptr_t)ea[k].oid);
		else fprintf(o, "%s%d", k ? "," : "", key_of(ia[k]));
	}
	fputs("]}\n", o);
}
static void pattern(unsigned *idx, size_t n, unsigned pat, size_t nk)
{
	/* idx into keys[0..nk); keys are unsorted random, so build monotone patterns via a rank permutation of the key table */
	static unsigned rank[8192];
	for (size_t k = 0; k < nk; k++) rank[k] = k;
	/* order key indices by the raw 64-bit value (input shaping only, not an oracle: all-day/all-sec keys land "wrong" on purpose) */
	for (size_t a = 1; a < nk; a++) { unsigned t = rank[a]; size_t b = a; while (b && keys[rank[b - 1]].u > keys[t].u) { rank[b] = rank[b - 1]; b--; } rank[b] = t; }
	for (size_t k = 0; k < n; k++) {
		size_t r;
		switch (pat) {
		case 0: r = nd_rnd(nk); break;				/* random */
		case 1: r = k * nk / (n ? n : 1); break;		/* ascending (by raw value) */
		case 2: r = (n - 1 - k) * nk / (n ? n : 1); break;	/* descending */
		case 3: r = (k < n / 2 ? k : n - 1 - k) * 2 * nk / (n ? n : 1); if (r >= nk) r = nk - 1; break; /* organ pipe */
		case 4: r = (k * nk / (n ? n : 1)); if (nd_rnd(10) == 0) r = nd_rnd(nk); break;	/* nearly sorted */
		default: r = k % nk; break;				/* sawtooth */
		}
		idx[k] = rank[r];
	}
}

int main(int argc, char *argv[])
{
	int thorough = argc > 1 && !strcmp(argv[1], "thorough");
	nd_rng_s = argc > 2 ? strtoull(argv[2], 0, 10) : 1;
	o = stdout; static char obuf[1 << 20]; setvbuf(o, obuf, _IOFBF, sizeof(obuf));
	nd_guard_init();
	static unsigned idx[8192];
	if (argc > 4 && !strcmp(argv[1], "lengths")) {
		/* drv_sort lengths <seed> <lo> <hi>: every length lo..hi, events and instants, a random and a nearly sorted input each:
		 * meant for the sanitizer build (buffers of the merge change with the length); one line per call, nothing but the length */
		quiet = 1;
		for (size_t n = strtoul(argv[3], 0, 10); n <= strtoul(argv[4], 0, 10) && n < 8192; n++) for (unsigned pat = 0; pat < 5; pat += 4) {
			size_t nk = pat ? (n ? n : 1) : 1 + nd_rnd(n ? n : 1);
			mkkeys(nk > 4096 ? 4096 : nk, 0);
			pattern(idx, n, pat, nk > 4096 ? 4096 : nk);
			do_sort(idx, n, 1); do_sort(idx, n, 0);
		}
		fflush(o);
		return 0;
	}
	size_t maxlen = thorough ? 300 : 70;
	/* every length 0..maxlen x key alphabets 1,2,3,sqrt n,n x patterns */
	for (size_t n = 0; n <= maxlen; n++) {
		size_t alph[5] = {1, 2, 3, 1, n ? n : 1};
		for (size_t s = 1; s * s <= n; s++) alph[3] = s;
		for (unsigned a = 0; a < 5; a++) {
			size_t nk = alph[a];
			for (unsigned pat = 0; pat < 6; pat++) {
				if (!thorough && (n + a + pat) % 3) continue;
				mkkeys(nk, (n + pat) % 2);
				pattern(idx, n, pat, nk);
				do_sort(idx, n, 1);
				if (thorough || pat % 2 == 0) do_sort(idx, n, 0);
			}
		}
	}
	/* lengths around WikiSort's block thresholds and powers of two, up to 4096 */
	size_t big[] = {255, 256, 257, 511, 512, 513, 767, 1000, 1023, 1024, 1025, 1536, 2047, 2048, 2049, 3000, 4095, 4096};
	for (size_t b = 0; b < sizeof(big) / sizeof(*big); b++) {
		size_t n = big[b];
		if (!thorough && b % 3 != nd_rng_s % 3 && n != 4096 && n != 513) continue;
		size_t alph[4] = {2, 7, 64, n};
		for (unsigned a = 0; a < 4; a++) for (unsigned pat = 0; pat < 6; pat++) {
			if (!thorough && (a + pat + b) % 4) continue;
			mkkeys(alph[a], pat % 2);
			pattern(idx, n, pat, alph[a]);
			do_sort(idx, n, 1);
			if (thorough && pat < 2) do_sort(idx, n, 0);
		}
	}
	/* seeded random arrays */
	size_t nr = thorough ? 6000 : 600;
	for (size_t k = 0; k < nr; k++) {
		size_t n = nd_rnd(nd_rnd(8) ? 130 : 1200);
		size_t nk = 1 + nd_rnd(n ? (nd_rnd(2) ? n : 1 + n / 8) : 1);
		mkkeys(nk, nd_rnd(2));
		pattern(idx, n, nd_rnd(6), nk);
		do_sort(idx, n, nd_rnd(4) != 0);
	}
	/* long arrays: seeded random lengths up to 5000 (block sizes and buffer sizes of the merge change with the length) */
	size_t nl = thorough ? 700 : 60;
	for (size_t k = 0; k < nl; k++) {
		size_t n = 1200 + nd_rnd(3800);
		size_t nk = nd_rnd(3) ? 1 + nd_rnd(n) : 2 + nd_rnd(60);
		mkkeys(nk, nd_rnd(2));
		pattern(idx, n, nd_rnd(2) ? 0 : nd_rnd(6), nk);
		do_sort(idx, n, 1);
	}
	/* thorough: every length up to 4200 once, judged in full */
	if (thorough) for (size_t n = 301; n <= 4200; n++) {
		size_t nk = nd_rnd(2) ? 2 + nd_rnd(60) : 1 + nd_rnd(n);
		mkkeys(nk > 2048 ? 2048 : nk, 0);
		pattern(idx, n, nd_rnd(2) ? 0 : 4, nk > 2048 ? 2048 : nk);
		do_sort(idx, n, 1);
	}
	fflush(o);
	return 0;
}
