/* ndjson emit helpers shared by the drivers.  They print arguments and
 * results; they never compute an expectation. */
#ifndef VERIF_ND_H
#define VERIF_ND_H
#include <stdio.h>
#include <stdint.h>
#include <stdlib.h>
#include <string.h>
#include <setjmp.h>
#include <signal.h>
#include "instant.h"

static inline void nd_inst(FILE *f, echs_instant_t i)
{
	fprintf(f, "[%u,%u,%u,%u,%u,%u,%u]", i.y, i.m, i.d, i.H, i.M, i.S, i.ms);
}
static inline echs_instant_t mkinst(unsigned y, unsigned m, unsigned d, unsigned H, unsigned M, unsigned S, unsigned ms)
{
	echs_instant_t i = {.u = 0};
	i.y = y, i.m = m, i.d = d, i.H = H, i.M = M, i.S = S, i.ms = ms;
	return i;
}
/* 64-bit ms -> [days, ms-of-day] by floor */
static inline void nd_dur(FILE *f, int64_t ms)
{
	int64_t d = ms / 86400000LL, r = ms % 86400000LL;
	if (r < 0) { r += 86400000LL; d--; }
	fprintf(f, "[%lld,%lld]", (long long)d, (long long)r);
}
/* 64-bit secs -> [days, secs-of-day] by floor */
static inline void nd_secs(FILE *f, int64_t s)
{
	int64_t d = s / 86400LL, r = s % 86400LL;
	if (r < 0) { r += 86400LL; d--; }
	fprintf(f, "[%lld,%lld]", (long long)d, (long long)r);
}
static inline void nd_str(FILE *f, const char *s, size_t n)
{
	fputc('"', f);
	for (size_t k = 0; k < n; k++) {
		unsigned char c = s[k];
		if (c == '"' || c == '\\') { fputc('\\', f); fputc(c, f); }
		else if (c < 0x20 || c >= 0x7f) fprintf(f, "\\u%04x", c);
		else fputc(c, f);
	}
	fputc('"', f);
}
/* splitmix64 */
static uint64_t nd_rng_s;
static inline uint64_t nd_rand(void)
{
	uint64_t z = (nd_rng_s += 0x9e3779b97f4a7c15ULL);
	z = (z ^ (z >> 30)) * 0xbf58476d1ce4e5b9ULL;
	z = (z ^ (z >> 27)) * 0x94d049bb133111ebULL;
	return z ^ (z >> 31);
}
static inline unsigned nd_rnd(unsigned n) { return (unsigned)(nd_rand() % n); }

/* crash guard: CALL is run; on SIGSEGV/SIGFPE/SIGBUS/SIGALRM control comes back with nd_crashed set */
static sigjmp_buf nd_jb;
static volatile int nd_crashed;
static void nd_sigh(int s) { nd_crashed = s; siglongjmp(nd_jb, 1); }
static inline void nd_guard_init(void)
{
	struct sigaction sa; memset(&sa, 0, sizeof(sa));
	sa.sa_handler = nd_sigh; sa.sa_flags = SA_NODEFER;
	sigaction(SIGSEGV, &sa, 0); sigaction(SIGFPE, &sa, 0); sigaction(SIGBUS, &sa, 0); sigaction(SIGALRM, &sa, 0);
}
#define ND_GUARD(stmt) do { nd_crashed = 0; if (!sigsetjmp(nd_jb, 1)) { stmt; } } while (0)
#endif
