/* drv_strm: observation driver for event streams (C01, C02, C16, C17, C09).
 * Reads a work list on stdin, one event per line:
 *    id \t maxpop \t hzYYYYMMDD \t mode \t ics-text-with-\n-escapes
 * parses the iCalendar text with the real pull parser, then consumes the
 * task's stream one occurrence at a time and logs what came out.
 * mode: p = pop only, n = peek (next) before every pop and log both.
 * No expectations are computed here. */
#include "nd.h"
#include <unistd.h>
#include <sys/resource.h>
#include "evical.h"
#include "task.h"

static FILE *o;
static char *unesc(char *s)
{
	char *w = s;
	for (char *r = s; *r; r++) {
		if (r[0] == '\\' && r[1] == 'n') { *w++ = '\n'; r++; }
		else if (r[0] == '\\' && r[1] == 'r') { *w++ = '\r'; r++; }
		else if (r[0] == '\\' && r[1] == '\\') { *w++ = '\\'; r++; }
		else *w++ = *r;
	}
	*w = 0;
	return s;
}
static unsigned budget = 10;

static void one(char *line)
{
	char *f[5]; int nf = 0;
	for (char *p = line; nf < 5; nf++) { f[nf] = p; char *t = strchr(p, '\t'); if (!t) { nf++; break; } *t = 0; p = t + 1; }
	if (nf < 5) return;
	long id = atol(f[0]); size_t maxpop = strtoul(f[1], 0, 10);
	unsigned hzn = atoi(f[2]); echs_instant_t hz = mkinst(hzn / 10000, hzn / 100 % 100, hzn % 100, 23, 59, 59, 999);
	int peek = f[3][0] == 'n';
	char *ics = unesc(f[4]); size_t len = strlen(ics);
	volatile size_t npop = 0; volatile int started = 0;
	const char *stop = "n";
	fprintf(o, "{\"id\":%ld", id);
	nd_crashed = 0;
	if (!sigsetjmp(nd_jb, 1)) {
		ical_parser_t pp = NULL; echs_task_t t = NULL;
		alarm(budget);
		if (echs_evical_push(&pp, ics, len) >= 0) {
			echs_instruc_t ins;
			while ((ins = echs_evical_pull(&pp)).v == INSVERB_SCHE) { if (ins.t) { if (t) free_echs_task(t); t = ins.t; } }
			ins = echs_evical_last_pull(&pp);
			if (ins.v == INSVERB_SCHE && ins.t) { if (t) free_echs_task(t); t = ins.t; }
		}
		if (t == NULL || t->strm == NULL) { alarm(0); fputs(",\"noevent\":true}\n", o); if (t) free_echs_task(t); return; }
		fputs(",\"occ\":[", o); started = 1;
		int mism = 0;
		while (npop < maxpop) {
			echs_event_t nx = {.from = {.u = 0}}, e;
			if (peek) nx = echs_evstrm_next(t->strm);
			e = echs_evstrm_pop(t->strm);
			if (peek && (nx.from.u != e.from.u)) mism++;
			if (echs_nul_event_p(e)) { stop = "eos"; break; }
			if (echs_instant_lt_p(hz, e.from)) { stop = "hz"; break; }
			if (npop) fputc(',', o);
			nd_inst(o, e.from);
			npop++;
			alarm(budget);	/* the budget is per call */
		}
		alarm(0);
		fprintf(o, "],\"stop\":\"%s\",\"peekmism\":%d", stop, mism);
		/* duration of the event as parsed (for C02/C05) */
		free_echs_task(t);
		fputs("}\n", o);
		return;
	}
	alarm(0);
	if (started) fputs("]", o);
	fprintf(o, ",\"npop\":%zu,\"%s\":%d}\n", (size_t)npop, nd_crashed == SIGALRM ? "timeout" : "crash", nd_crashed);
}

int main(int argc, char *argv[])
{
	if (argc > 1) budget = atoi(argv[1]);
	o = stdout;
	nd_guard_init();
	char *line = NULL; size_t cap = 0; ssize_t n;
	while ((n = getline(&line, &cap, stdin)) > 0) {
		if (line[n - 1] == '\n') line[n - 1] = 0;
		one(line);
		fflush(o);
	}
	return 0;
}
