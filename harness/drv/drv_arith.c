/* drv_arith: C08 observation driver.  Calls the instant arithmetic of
 * /repo/src and logs arguments and results as ndjson.  No expectations. */
#include "nd.h"
#include <time.h>

extern time_t echs_instant_to_epoch(echs_instant_t);
extern echs_instant_t epoch_to_echs_instant(time_t);

static unsigned md[13] = {0,31,28,31,30,31,30,31,31,30,31,30,31};
static int leap(unsigned y) { return (y % 4 == 0 && y % 100 != 0) || y % 400 == 0; }
typedef struct { unsigned short y; unsigned char m, d; } ymd_t;
static ymd_t *days; static size_t ndays;
static void mkdays(unsigned y0, unsigned y1)
{
	days = malloc(sizeof(*days) * 366 * (y1 - y0 + 1));
	for (unsigned y = y0; y <= y1; y++) for (unsigned m = 1; m <= 12; m++) {
		unsigned n = md[m] + (m == 2 && leap(y));
		for (unsigned d = 1; d <= n; d++) days[ndays++] = (ymd_t){y, m, d};
	}
}
static long idx_of(unsigned y, unsigned m, unsigned d)
{
	for (size_t i = 0; i < ndays; i++) if (days[i].y == y && days[i].m == m && days[i].d == d) return i;
	return -1;
}
static const unsigned forms[][4] = { {0,0,0,0}, {12,34,56,789}, {23,59,59,999}, {255,0,0,0}, {7,8,9,1023} };
static echs_instant_t form(ymd_t x, unsigned f)
{
	return mkinst(x.y, x.m, x.d, forms[f][0], forms[f][1], forms[f][2], forms[f][3]);
}
static FILE *o;

static void do_diff(echs_instant_t e, echs_instant_t b)
{
	echs_idiff_t r = {0};
	ND_GUARD(r = echs_instant_diff(e, b));
	fputs("{\"e\":\"Diff\",\"a\":", o); nd_inst(o, e); fputs(",\"b\":", o); nd_inst(o, b);
	if (nd_crashed) fputs(",\"crash\":true}\n", o);
	else { fputs(",\"r\":", o); nd_dur(o, r.d); fputs("}\n", o); }
}
static void do_add(echs_instant_t b, int64_t ms)
{
	echs_instant_t r = {.u = 0};
	echs_idiff_t d = {ms};
	ND_GUARD(r = echs_instant_add(b, d));
	fputs("{\"e\":\"Add\",\"a\":", o); nd_inst(o, b); fputs(",\"d\":", o); nd_dur(o, ms);
	if (nd_crashed) fputs(",\"crash\":true}\n", o);
	else { fputs(",\"r\":", o); nd_inst(o, r); fputs("}\n", o); }
}
static void do_fix(echs_instant_t e)
{
	echs_instant_t r = {.u = 0};
	ND_GUARD(r = echs_instant_fixup(e));
	fputs("{\"e\":\"Fix\",\"a\":", o); nd_inst(o, e);
	if (nd_crashed) fputs(",\"crash\":true}\n", o);
	else { fputs(",\"r\":", o); nd_inst(o, r); fputs("}\n", o); }
}
static void do_toep(echs_instant_t e)
{
	time_t r = 0;
	ND_GUARD(r = echs_instant_to_epoch(e));
	fputs("{\"e\":\"ToEp\",\"a\":", o); nd_inst(o, e);
	if (nd_crashed) fputs(",\"crash\":true}\n", o);
	else { fputs(",\"r\":", o); nd_secs(o, r); fputs("}\n", o); }
}
static void do_fromep(int64_t t)
{
	echs_instant_t r = {.u = 0};
	ND_GUARD(r = epoch_to_echs_instant((time_t)t));
	fputs("{\"e\":\"FromEp\",\"t\":", o); nd_secs(o, t);
	if (nd_crashed) fputs(",\"crash\":true}\n", o);
	else { fputs(",\"r\":", o); nd_inst(o, r); fputs("}\n", o); }
}
static void do_cmp(echs_instant_t a, echs_instant_t b)
{
	fputs("{\"e\":\"Cmp\",\"a\":", o); nd_inst(o, a); fputs(",\"b\":", o); nd_inst(o, b);
	fprintf(o, ",\"lt\":%s,\"le\":%s,\"eq\":%s}\n", echs_instant_lt_p(a, b) ? "true" : "false",
		echs_instant_le_p(a, b) ? "true" : "false", echs_instant_eq_p(a, b) ? "true" : "false");
}
/* days since 1970 of days[i], by index arithmetic only (input generation) */
static long ep0;

int main(int argc, char *argv[])
{
	const char *what = argc > 1 ? argv[1] : "all";
	int thorough = argc > 2 && !strcmp(argv[2], "thorough");
	nd_rng_s = argc > 3 ? strtoull(argv[3], 0, 10) : 1;
	o = stdout;
	static char obuf[1 << 20]; setvbuf(o, obuf, _IOFBF, sizeof(obuf));
	nd_guard_init();
	mkdays(1901, 2099);
	ep0 = idx_of(1970, 1, 1);
	unsigned step = thorough ? 1 : 7, ph = thorough ? 0 : nd_rnd(7);

	if (!strcmp(what, "daypairs") || !strcmp(what, "all")) {
		long fixed[8] = { 0, (long)ndays - 1, idx_of(1970,1,1), idx_of(2001,1,1), idx_of(2000,2,29),
			idx_of(2024,2,29), idx_of(1999,12,31), idx_of(2038,1,19) };
		int rel[6] = { -1, 1, -49, 50, -366, 731 };
		for (size_t i = 0; i < ndays; i++) {
			int mb = days[i].d == 1 || (i + 1 < ndays && days[i + 1].d == 1) || (days[i].m == 2 && days[i].d == 28);
			if (!thorough && (i % step) != ph && !mb) continue;
			for (unsigned a = 0; a < 14; a++) {
				if (!thorough && (a + i) % 3 != 0) continue;
				long j = a < 8 ? fixed[a] : (long)i + rel[a - 8];
				if (j < 0 || j >= (long)ndays) continue;
				unsigned f = (unsigned)((i + a) % 4);
				echs_instant_t D = form(days[i], f), A = form(days[j], f);
				do_diff(D, A);
				do_diff(A, D);
				/* duration as input: index distance in days */
				int64_t dur = ((int64_t)i - j) * 86400000LL;
				do_add(A, dur);
				do_add(D, -dur);
			}
		}
	}
	if (!strcmp(what, "random") || !strcmp(what, "all")) {
		size_t n = thorough ? 500000 : 40000;
		for (size_t k = 0; k < n; k++) {
			size_t i = nd_rnd(ndays), j;
			switch (nd_rnd(4)) { case 0: j = nd_rnd(ndays); break; case 1: j = (i + nd_rnd(3)) % ndays; break;
				case 2: j = (i + nd_rnd(120)) % ndays; break; default: j = i; }
			unsigned kind = nd_rnd(8);
			echs_instant_t A, B;
			if (kind == 0) { A = form(days[i], 3); B = form(days[j], 3); }
			else if (kind == 1) { A = mkinst(days[i].y, days[i].m, days[i].d, nd_rnd(24), nd_rnd(60), nd_rnd(60), 1023);
				B = mkinst(days[j].y, days[j].m, days[j].d, nd_rnd(24), nd_rnd(60), nd_rnd(60), 1023); }
			else { A = mkinst(days[i].y, days[i].m, days[i].d, nd_rnd(24), nd_rnd(60), nd_rnd(60), nd_rnd(1000));
				B = mkinst(days[j].y, days[j].m, days[j].d, nd_rnd(24), nd_rnd(60), nd_rnd(60), nd_rnd(1000));
				if (nd_rnd(4) == 0) { A.H = 23; A.M = 59; A.S = 59; } if (nd_rnd(4) == 0) { B.H = 0; B.M = 0; B.S = 0; B.ms = 0; } }
			do_diff(A, B);
			/* independent duration input */
			int64_t dur;
			switch (nd_rnd(5)) { case 0: dur = (int64_t)nd_rnd(86400000); break; case 1: dur = (int64_t)nd_rnd(200) * 86400000LL + nd_rnd(86400000);
				break; case 2: dur = ((int64_t)j - (int64_t)i) * 86400000LL + (int64_t)nd_rnd(86400000) - 43200000; break;
				case 3: dur = (int64_t)nd_rnd(1000) * 1000; break; default: dur = (int64_t)(nd_rand() % 4000000000ULL) + 2147000000LL; }
			if (nd_rnd(2)) dur = -dur;
			if (kind == 0) dur = (dur / 86400000LL) * 86400000LL;
			if (kind == 1) dur = (dur / 1000) * 1000;
			do_add(A, dur);
		}
	}
	if (!strcmp(what, "fixup") || !strcmp(what, "all")) {
		/* every month of 14 year types + neighbours; overflowed fields */
		unsigned ys[] = {1901, 1904, 1999, 2000, 2001, 2003, 2004, 2023, 2024, 2096, 2098};
		for (unsigned yi = 0; yi < sizeof(ys) / sizeof(*ys); yi++) for (unsigned m = 1; m <= 24; m++) {
			/* day numbers far beyond the month: the carry runs over several months, over the end of the year and the February behind it */
			if (m <= 12) for (unsigned d = 41; d <= 255; d += (thorough ? 1 : 7 + (m + yi) % 5)) {
				do_fix(mkinst(ys[yi], m, d, (d % 2) ? 255 : 12, 0, 0, 0));
			}
			for (unsigned d = 1; d <= 40; d += (d < 27 ? 13 : 1)) {
				do_fix(mkinst(ys[yi], m, d, 255, 0, 0, 0));
				do_fix(mkinst(ys[yi], m, d, 12, 0, 0, 0));
				if (thorough || ((m + d + yi) % 3 == 0)) {
					for (unsigned H = 23; H <= 49; H += 13) do_fix(mkinst(ys[yi], m, d, H, 59, 59, 999));
					do_fix(mkinst(ys[yi], m, d, 23, 60 + nd_rnd(60), nd_rnd(60), nd_rnd(1000)));
					do_fix(mkinst(ys[yi], m, d, 23, 59, 60 + nd_rnd(4), nd_rnd(1000)));
					do_fix(mkinst(ys[yi], m, d, 24 + nd_rnd(26), 60 + nd_rnd(60), nd_rnd(60), 1023));
				}
			}
		}
	}
	if (!strcmp(what, "epoch") || !strcmp(what, "all")) {
		for (size_t i = 0; i < ndays; i++) {
			int mb = days[i].d == 1 || (i + 1 < ndays && days[i + 1].d == 1);
			if (!thorough && (i % step) != ph && !mb) continue;
			unsigned H = nd_rnd(24), M = nd_rnd(60), S = nd_rnd(60);
			do_toep(mkinst(days[i].y, days[i].m, days[i].d, 0, 0, 0, 0));
			do_toep(mkinst(days[i].y, days[i].m, days[i].d, H, M, S, 1023));
			do_toep(mkinst(days[i].y, days[i].m, days[i].d, 23, 59, 59, 999));
			int64_t t = ((int64_t)i - ep0) * 86400LL;
			do_fromep(t); do_fromep(t + H * 3600 + M * 60 + S); do_fromep(t + 86399);
		}
	}
	if (!strcmp(what, "cmp") || !strcmp(what, "all")) {
		size_t n = thorough ? 400 : 110;
		echs_instant_t *v = malloc(n * sizeof(*v));
		for (size_t k = 0; k < n; k++) {
			size_t i = (k % 8 < 6) ? idx_of(2020, 2, 28) + (k % 4) : nd_rnd(ndays);
			switch (nd_rnd(6)) { case 0: v[k] = form(days[i], 3); break; case 1: v[k] = form(days[i], 0); break;
				case 2: v[k] = mkinst(days[i].y, days[i].m, days[i].d, nd_rnd(2) ? 23 : 0, nd_rnd(2) ? 59 : 0, nd_rnd(2) ? 59 : 0, 1023); break;
				case 3: v[k] = mkinst(days[i].y, days[i].m, days[i].d, nd_rnd(2) ? 23 : 0, nd_rnd(2) ? 59 : 0, nd_rnd(2) ? 59 : 0, nd_rnd(2) ? 999 : 0); break;
				default: v[k] = mkinst(days[i].y, days[i].m, days[i].d, nd_rnd(24), nd_rnd(60), nd_rnd(60), nd_rnd(1000)); }
		}
		for (size_t a = 0; a < n; a++) for (size_t b = 0; b < n; b++) do_cmp(v[a], v[b]);
	}
	fflush(o);
	return 0;
}
