/* drv_text: C18 observation driver.  Prints and parses instants and
 * durations with src/dt-strpf.c and logs texts (as ASCII code lists) and
 * results.  No expectations. */
#include "nd.h"
#include "dt-strpf.h"

static FILE *o;
static void nd_codes(const char *s, size_t n)
{
	fputs("\"s\":", o); nd_str(o, s, n); fputs(",\"c\":[", o);
	for (size_t k = 0; k < n; k++) fprintf(o, "%s%u", k ? "," : "", (unsigned char)s[k]);
	fputs("]", o);
}
static void print_parse(echs_instant_t i, int ical)
{
	char buf[64]; size_t n = 0; echs_instant_t r = {.u = 0};
	ND_GUARD(n = ical ? dt_strf_ical(buf, sizeof(buf), i) : dt_strf(buf, sizeof(buf), i));
	/* the text is parsed with its exact length out of a larger buffer: what follows it there (a blank, a T, a digit, ...) is not part of it */
	{ static const char fol[] = {0, ' ', 'T', 'Z', ',', '0', '\n', ':', '\t', '-'}; static unsigned fk; if (n + 2 < sizeof(buf)) { buf[n] = fol[fk++ % sizeof(fol)]; buf[n + 1] = 0; } }
	if (!nd_crashed) ND_GUARD(r = dt_strp(buf, NULL, n));
	fprintf(o, "{\"e\":\"PrintParse\",\"form\":\"%s\",\"i\":", ical ? "ical" : "iso"); nd_inst(o, i);
	if (nd_crashed) { fputs(",\"crash\":true}\n", o); return; }
	fputc(',', o); nd_codes(buf, n); fputs(",\"r\":", o); nd_inst(o, r); fputs("}\n", o);
}
static void parse_dt(const char *s)
{
	echs_instant_t r = {.u = 0}; size_t n = strlen(s);
	ND_GUARD(r = dt_strp(s, NULL, n));
	fputs("{\"e\":\"ParseDt\",", o); nd_codes(s, n);
	if (nd_crashed) { fputs(",\"crash\":true}\n", o); return; }
	fputs(",\"r\":", o); nd_inst(o, r); fputs("}\n", o);
}
static void dur_print(int64_t ms)
{
	char buf[64]; size_t n = 0; echs_idiff_t r = {0};
	ND_GUARD(n = idiff_strf(buf, sizeof(buf), (echs_idiff_t){ms}));
	if (!nd_crashed) ND_GUARD(r = idiff_strp(buf, NULL, n));
	fputs("{\"e\":\"DurPrint\",\"d\":", o); nd_dur(o, ms);
	if (nd_crashed) { fputs(",\"crash\":true}\n", o); return; }
	fputc(',', o); nd_codes(buf, n); fputs(",\"r\":", o); nd_dur(o, r.d); fputs("}\n", o);
}
static void dur_parse(const char *s)
{
	echs_idiff_t r = {0}; size_t n = strlen(s);
	ND_GUARD(r = idiff_strp(s, NULL, n));
	fputs("{\"e\":\"DurParse\",", o); nd_codes(s, n);
	if (nd_crashed) { fputs(",\"crash\":true}\n", o); return; }
	fputs(",\"r\":", o); nd_dur(o, r.d); fputs("}\n", o);
}
static void spellings_dt(unsigned y, unsigned m, unsigned d, unsigned H, unsigned M, unsigned S, unsigned ms)
{
	char b[64];
	sprintf(b, "%04u%02u%02u", y, m, d); parse_dt(b);
	sprintf(b, "%04u-%02u-%02u", y, m, d); parse_dt(b);
	sprintf(b, "%04u%02u%02uT%02u%02u%02u", y, m, d, H, M, S); parse_dt(b);
	sprintf(b, "%04u%02u%02uT%02u%02u%02uZ", y, m, d, H, M, S); parse_dt(b);
	sprintf(b, "%04u-%02u-%02uT%02u:%02u:%02u", y, m, d, H, M, S); parse_dt(b);
	sprintf(b, "%04u-%02u-%02uT%02u:%02u:%02uZ", y, m, d, H, M, S); parse_dt(b);
	sprintf(b, "%04u-%02u-%02u %02u:%02u:%02u", y, m, d, H, M, S); parse_dt(b);
	sprintf(b, "%04u-%02u-%02uT%02u:%02u:%02u.%03u", y, m, d, H, M, S, ms); parse_dt(b);
	sprintf(b, "%04u-%02u-%02uT%02u:%02u", y, m, d, H, M); parse_dt(b);
}
static void spellings_dur(int64_t secs)
{
	/* equivalent spellings of one whole-second duration */
	char b[128]; long long s = secs;
	long long d = s / 86400, h = s % 86400 / 3600, mi = s % 3600 / 60, se = s % 60;
	if (s <= 999999999LL) { sprintf(b, "PT%lldS", s); dur_parse(b); sprintf(b, "+PT%lldS", s); dur_parse(b); }
	if (s / 60 <= 999999999LL) { sprintf(b, "PT%lldM%lldS", s / 60, se); dur_parse(b); }
	sprintf(b, "PT%lldH%lldM%lldS", s / 3600, mi, se); dur_parse(b);
	sprintf(b, "P%lldDT%lldH%lldM%lldS", d, h, mi, se); dur_parse(b);
	sprintf(b, "+P%lldDT%lldH%lldM%lldS", d, h, mi, se); dur_parse(b);
	if (s) { sprintf(b, "-P%lldDT%lldH%lldM%lldS", d, h, mi, se); dur_parse(b); }
	if (se == 0) { sprintf(b, "P%lldDT%lldH%lldM", d, h, mi); dur_parse(b); sprintf(b, "PT%lldM", s / 60); dur_parse(b); }
	if (se == 0 && mi == 0) { sprintf(b, "P%lldDT%lldH", d, h); dur_parse(b); sprintf(b, "PT%lldH", s / 3600); dur_parse(b); }
	if (s % 86400 == 0) { sprintf(b, "P%lldD", d); dur_parse(b); sprintf(b, "+P%lldD", d); dur_parse(b); if (d) { sprintf(b, "-P%lldD", d); dur_parse(b); } }
	if (s % 604800 == 0) { sprintf(b, "P%lldW", d / 7); dur_parse(b); sprintf(b, "+P%lldW", d / 7); dur_parse(b); }
	/* weeks combined with days and/or a time part (the code reads [nW][nD][T..] as the sum) */
	if (d >= 7 && s % 86400 == 0 && d % 7) { sprintf(b, "P%lldW%lldD", d / 7, d % 7); dur_parse(b); sprintf(b, "+P%lldW%lldD", d / 7, d % 7); dur_parse(b); }
	if (d >= 7) { sprintf(b, "P%lldW%lldDT%lldH%lldM%lldS", d / 7, d % 7, h, mi, se); dur_parse(b); }
	if (d >= 7 && d % 7 == 0 && s % 86400) { sprintf(b, "P%lldWT%lldH%lldM%lldS", d / 7, h, mi, se); dur_parse(b); }
	if (h == 0 && d) { sprintf(b, "P%lldDT%lldM%lldS", d, mi, se); dur_parse(b); }
	if (mi == 0) { sprintf(b, "P%lldDT%lldH%lldS", d, h, se); dur_parse(b); }
}
static unsigned mdays(unsigned y, unsigned m) { static unsigned md[] = {0,31,28,31,30,31,30,31,31,30,31,30,31}; return md[m] + (m == 2 && y % 4 == 0 && (y % 100 || y % 400 == 0)); }

int main(int argc, char *argv[])
{
	int thorough = argc > 1 && !strcmp(argv[1], "thorough");
	nd_rng_s = argc > 2 ? strtoull(argv[2], 0, 10) : 1;
	o = stdout; static char obuf[1 << 20]; setvbuf(o, obuf, _IOFBF, sizeof(obuf));
	nd_guard_init();
	unsigned ys[] = {1901, 1970, 1999, 2000, 2024, 2038, 2099}, Hs[] = {0, 1, 9, 10, 19, 20, 23}, Ms[] = {0, 9, 10, 59}, Ss[] = {0, 9, 59}, mss[] = {1023, 0, 1, 99, 100, 999};
	size_t cnt = 0;
	for (unsigned yi = 0; yi < 7; yi++) for (unsigned m = 1; m <= 12; m++) for (unsigned d = 1; d <= mdays(ys[yi], m); d += (d == 1 ? 8 : d < 27 ? 9 : 1)) {
		print_parse(mkinst(ys[yi], m, d, 255, 0, 0, 0), 0); print_parse(mkinst(ys[yi], m, d, 255, 0, 0, 0), 1);
		for (unsigned a = 0; a < 7; a++) for (unsigned b = 0; b < 4; b++) for (unsigned c = 0; c < 3; c++) for (unsigned e = 0; e < 6; e++) {
			if (!thorough && (cnt++ % 23)) continue;
			echs_instant_t i = mkinst(ys[yi], m, d, Hs[a], Ms[b], Ss[c], mss[e]);
			print_parse(i, 0); print_parse(i, 1);
			if (e < 2) spellings_dt(ys[yi], m, d, Hs[a], Ms[b], Ss[c], mss[(e + 3) % 6 ? (e + 3) % 6 : 1]);
		}
	}
	size_t nr = thorough ? 150000 : 8000;
	for (size_t k = 0; k < nr; k++) {
		unsigned y = 1901 + nd_rnd(199), m = 1 + nd_rnd(12), d = 1 + nd_rnd(mdays(y, m));
		echs_instant_t i = mkinst(y, m, d, nd_rnd(24), nd_rnd(60), nd_rnd(60), nd_rnd(4) ? nd_rnd(1000) : 1023);
		print_parse(i, 0); print_parse(i, 1);
		if (k % 4 == 0) spellings_dt(y, m, d, i.H, i.M, i.S, nd_rnd(1000));
	}
	/* durations: boundary grid (every unit boundary +-1 s, 2^31 and 2^32 ms +-1 s) and seeded random up to ~10 years */
	long long ub[] = {0, 1, 59, 60, 61, 3599, 3600, 3601, 86399, 86400, 86401, 604799, 604800, 604801, 2147483, 2147484, 4294967, 4294968,
		2591999, 2592000, 31535999, 31536000, 31622400, 315360000, 99 * 86400LL, 100 * 86400LL, 999 * 3600LL, 1000 * 3600LL, 35791394LL * 60, 596 * 3600LL, 597 * 3600LL};
	for (size_t k = 0; k < sizeof(ub) / sizeof(*ub); k++) for (int dl = -1; dl <= 1; dl++) {
		long long s = ub[k] + dl; if (s < 0) continue;
		dur_print(s * 1000); dur_print(s * 1000 + 500); spellings_dur(s);
	}
	nr = thorough ? 60000 : 4000;
	for (size_t k = 0; k < nr; k++) {
		long long s;
		switch (nd_rnd(5)) { case 0: s = nd_rnd(86400); break; case 1: s = nd_rnd(50) * 86400LL; break; case 2: s = (long long)(nd_rand() % 315360000ULL); break;
			case 3: s = nd_rnd(3000) * 3600LL + nd_rnd(60) * 60; break; default: s = nd_rnd(520) * 604800LL; }
		dur_print(s * 1000);
		if (k % 3 == 0) spellings_dur(s);
	}
	fflush(o);
	return 0;
}
