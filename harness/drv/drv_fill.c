/* drv_fill: observation driver for the rule fillers of evrrul.c (C09).
 * Reads a work list on stdin, one call per line:
 *    id \t YYYYMMDD[THHMMSS] \t nti \t RRULE-value-text
 * reads the rule with echs_read_rrul(), puts the proto instant into the first
 * nti slots of a heap buffer of exactly 2*GRP_CCH_OFF instants (so that the
 * sanitizer's red zones sit right behind the cache the fillers are entitled
 * to), calls the filler of the rule's FREQ once and logs what it returned,
 * and whether slots it was not asked for were touched.
 * No expectations are computed here. */
#include "nd.h"
#include <unistd.h>
#include "evical.h"
#include "evrrul.h"

static FILE *o;
static unsigned budget = 5;

static void one(char *line)
{
	char *f[4]; int nf = 0;
	for (char *p = line; nf < 4; nf++) { f[nf] = p; char *t = strchr(p, '\t'); if (!t) { nf++; break; } *t = 0; p = t + 1; }
	if (nf < 4) return;
	long id = atol(f[0]);
	unsigned y, m, d, H = ECHS_ALL_DAY, M = 0, S = 0;
	int timed = sscanf(f[1], "%4u%2u%2uT%2u%2u%2u", &y, &m, &d, &H, &M, &S) > 3;
	size_t nti = strtoul(f[2], 0, 10);
	echs_instant_t proto = mkinst(y, m, d, timed ? H : ECHS_ALL_DAY, M, S, timed ? ECHS_ALL_SEC : 0);
	volatile int stage = 0;
	fprintf(o, "{\"id\":%ld,\"nti\":%zu", id, nti);
	nd_crashed = 0;
	if (!sigsetjmp(nd_jb, 1)) {
		alarm(budget);
		struct rrulsp_s rr = echs_read_rrul(f[3], strlen(f[3]));
		if (rr.freq == FREQ_NONE) { alarm(0); fputs(",\"norule\":true}\n", o); return; }
		const size_t nb = GRP_CCH_OFF + GRP_CCH_OFF;
		echs_instant_t *buf = malloc(nb * sizeof(*buf));
		const echs_instant_t mark = mkinst(4095, 15, 31, 31, 63, 63, 1023);
		for (size_t i = 0; i < nb; i++) buf[i] = i < nti ? proto : mark;
		size_t n = 0;
		stage = 1;
		switch (rr.freq) {
		case FREQ_YEARLY: n = rrul_fill_yly(buf, nti, &rr); break;
		case FREQ_MONTHLY: n = rrul_fill_mly(buf, nti, &rr); break;
		case FREQ_WEEKLY: n = rrul_fill_wly(buf, nti, &rr); break;
		case FREQ_DAILY: n = rrul_fill_dly(buf, nti, &rr); break;
		case FREQ_HOURLY: n = rrul_fill_Hly(buf, nti, &rr); break;
		case FREQ_MINUTELY: n = rrul_fill_Mly(buf, nti, &rr); break;
		case FREQ_SECONDLY: n = rrul_fill_Sly(buf, nti, &rr); break;
		default: break;
		}
		alarm(0);
		/* slots the filler was not entitled to: [nti, GRP_CCH_OFF) and [GRP_CCH_OFF + nti, 2*GRP_CCH_OFF) */
		unsigned touched = 0;
		for (size_t i = nti; i < GRP_CCH_OFF; i++) touched += buf[i].u != mark.u;
		for (size_t i = GRP_CCH_OFF + nti; i < nb; i++) touched += buf[i].u != mark.u;
		fprintf(o, ",\"freq\":%d,\"n\":%zu,\"touched\":%u,\"occ\":[", (int)rr.freq, n, touched);
		for (size_t i = 0; i < n && i < GRP_CCH_OFF; i++) { if (i) fputc(',', o); nd_inst(o, buf[i]); }
		fputs("]}\n", o);
		free(buf);
		return;
	}
	alarm(0);
	fprintf(o, ",\"stage\":%d,\"%s\":%d}\n", stage, nd_crashed == SIGALRM ? "timeout" : "crash", nd_crashed);
}

int main(int argc, char *argv[])
{
	if (argc > 1) budget = atoi(argv[1]);
	o = stdout;
	nd_guard_init();
	char *line = NULL; size_t cap = 0; ssize_t n;
	while ((n = getline(&line, &cap, stdin)) > 0) {
		if (line[n - 1] == '\n') line[n - 1] = 0;
		one(line);
		fflush(o);
	}
	return 0;
}
