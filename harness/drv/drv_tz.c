/* drv_tz: C07 observation driver.  stdin: lines
 *     Z <zone name>            select zone
 *     U <epoch secs>           UTC instant -> local (echs_instant_loc), offset (echs_tzob_offs)
 *     L <epoch secs>           local wall clock (as if it were UTC secs) -> UTC (echs_instant_utc)
 * Instants are built from epoch seconds by the driver's own civil conversion
 * (input construction); results are logged as the code returned them. */
#include "nd.h"
#include "tzob.h"

static void civil(long long t, unsigned *y, unsigned *m, unsigned *d, unsigned *H, unsigned *M, unsigned *S)
{
	long long days = t / 86400, r = t % 86400; if (r < 0) { r += 86400; days--; }
	long long z = days + 719468, era = (z >= 0 ? z : z - 146096) / 146097; unsigned doe = (unsigned)(z - era * 146097);
	unsigned yoe = (doe - doe / 1460 + doe / 36524 - doe / 146096) / 365; long long yy = yoe + era * 400;
	unsigned doy = doe - (365 * yoe + yoe / 4 - yoe / 100), mp = (5 * doy + 2) / 153;
	*d = doy - (153 * mp + 2) / 5 + 1; *m = mp < 10 ? mp + 3 : mp - 9; *y = (unsigned)(yy + (*m <= 2));
	*H = (unsigned)(r / 3600); *M = (unsigned)(r % 3600 / 60); *S = (unsigned)(r % 60);
}
int main(void)
{
	FILE *o = stdout; static char obuf[1 << 20]; setvbuf(o, obuf, _IOFBF, sizeof(obuf));
	nd_guard_init();
	char line[512]; echs_tzob_t z = 0; long zline = 0, ln = 0; char zname[256] = "";
	while (fgets(line, sizeof(line), stdin)) {
		size_t n = strlen(line); if (n && line[n - 1] == '\n') line[--n] = 0;
		if (line[0] == 'Z') {
			strncpy(zname, line + 2, sizeof(zname) - 1);
			alarm(3); z = echs_tzob(zname, strlen(zname)); alarm(0);
			continue;	/* the zone record itself is written by the caller, from the TZif reader */
		}
		long long t = atoll(line + 2); unsigned y, m, d, H, M, S;
		civil(t, &y, &m, &d, &H, &M, &S);
		echs_instant_t i = mkinst(y, m, d, H, M, S, 1023), r = {.u = 0}; int off = 0;
		nd_crashed = 0;
		if (!sigsetjmp(nd_jb, 1)) {
			alarm(3);
			if (line[0] == 'U') { r = echs_instant_loc(i, z); off = echs_tzob_offs(z, i, 0); }
			else r = echs_instant_utc(i, z);
		}
		alarm(0);
		fprintf(o, "{\"e\":\"%s\",\"zn\":\"%s\",\"a\":[%u,%u,%u,%u,%u,%u]", line[0] == 'U' ? "ToLoc" : "ToUTC", zname, y, m, d, H, M, S);
		if (nd_crashed) { fprintf(o, ",\"crash\":%d}\n", nd_crashed); fflush(o); continue; }
		fprintf(o, ",\"r\":[%u,%u,%u,%u,%u,%u],\"off\":%d,\"known\":%s}\n", r.y, r.m, r.d, r.H, r.M, r.S, off, z ? "true" : "false");
	}
	fflush(o);
	return 0;
}
