/* drv_echsd: the daemon harness (C04, C06, C11, C12, C14, C08's wake-up stamp).
 * src/echsd.c is #included unmodified; <ev.h> is the stand-in in harness/evstub.
 * The loop below owns a virtual clock, the set of started watchers and a bag of
 * pending callbacks; a script on stdin says when the clock moves, which pending
 * callback is delivered next, which child exits, and which requests arrive.
 * posix_spawn/getpwuid/getpwnam and the checkpoint system calls are interposed
 * with -Wl,--wrap.  Everything observed is logged as ndjson; nothing is judged. */
#include <spawn.h>
#include <pwd.h>
#include <fcntl.h>
#include <stdarg.h>
#define main echsd_main
#include "echsd.c"
#undef main
#include "nd.h"
#include <sys/socket.h>

/* ------------------------------------------------------------------ loop */
struct ev_loop { double now; };
static struct ev_loop the_loop;
#define MAXW 4096
static ev_periodic *pers[MAXW]; static size_t npers;
static ev_child *chlds[MAXW]; static size_t nchlds;
static ev_timer *the_timer;
enum { PK_PER, PK_CHLD };
static struct { int kind; void *w; } pend[MAXW]; static size_t npend;
static FILE *o;

struct ev_loop *ev_default_loop(unsigned f) { (void)f; return &the_loop; }
void ev_loop_destroy(struct ev_loop *l) { (void)l; }
/* libev (4.33, timerfd): after ev_loop_fork() the next loop iteration re-creates the kernel state and reschedules all periodics
 * "in case we missed something": every periodic's reschedule_cb is called with the current time, no callback follows */
static int postfork;
void ev_loop_fork(struct ev_loop *l) { (void)l; postfork = 1; }
void ev_break(struct ev_loop *l, int h) { (void)l; (void)h; }
int ev_run(struct ev_loop *l, int f) { (void)l; (void)f; return 0; }
void ev_timer_start(struct ev_loop *l, ev_timer *w) { (void)l; w->active = 1; the_timer = w; }
void ev_timer_stop(struct ev_loop *l, ev_timer *w) { (void)l; w->active = 0; if (the_timer == w) the_timer = NULL; }
void ev_timer_again(struct ev_loop *l, ev_timer *w) { if (w->repeat > 0.) ev_timer_start(l, w); else ev_timer_stop(l, w); }
void ev_signal_stop(struct ev_loop *l, ev_signal *w) { (void)l; w->active = 0; }
ev_tstamp ev_stub_now(struct ev_loop *l) { return l->now; }
void ev_io_start(struct ev_loop *l, ev_io *w) { (void)l; w->active = 1; }
void ev_io_stop(struct ev_loop *l, ev_io *w) { (void)l; w->active = 0; }
void ev_signal_start(struct ev_loop *l, ev_signal *w) { (void)l; w->active = 1; }
static void clear_pending(void *w)
{
	size_t k = 0;
	for (size_t i = 0; i < npend; i++) if (pend[i].w != w) pend[k++] = pend[i];
	npend = k;
}
void ev_periodic_start(struct ev_loop *l, ev_periodic *w)
{
	if (w->active) return;
	/* libev: ev_at (w) = w->reschedule_cb (w, ev_rt_now) */
	if (w->reschedule_cb) w->at = w->reschedule_cb(w, l->now);
	else w->at = w->offset;
	w->active = 1; pers[npers++] = w;
}
void ev_periodic_stop(struct ev_loop *l, ev_periodic *w)
{
	(void)l;
	clear_pending(w); w->pending = 0;
	if (!w->active) return;
	size_t k = 0; for (size_t i = 0; i < npers; i++) if (pers[i] != w) pers[k++] = pers[i];
	npers = k; w->active = 0;
}
void ev_periodic_again(struct ev_loop *l, ev_periodic *w) { ev_periodic_stop(l, w); ev_periodic_start(l, w); }
void ev_child_start(struct ev_loop *l, ev_child *w) { (void)l; if (w->active) return; w->active = 1; chlds[nchlds++] = w; }
void ev_child_stop(struct ev_loop *l, ev_child *w)
{
	(void)l; clear_pending(w); w->pending = 0;
	if (!w->active) return;
	size_t k = 0; for (size_t i = 0; i < nchlds; i++) if (chlds[i] != w) chlds[k++] = chlds[i];
	nchlds = k; w->active = 0;
}
/* libev periodics_reify: every periodic with at < now is rescheduled (or, when it no longer
 * repeats, stopped) and its callback queued */
static void hx_reify(void)
{
	if (postfork) {
		postfork = 0;
		for (size_t i = 0; i < npers; i++) if (!pers[i]->pending && pers[i]->reschedule_cb) pers[i]->at = pers[i]->reschedule_cb(pers[i], the_loop.now);
	}
	for (;;) {
		ev_periodic *best = NULL;
		for (size_t i = 0; i < npers; i++) if (pers[i]->at < the_loop.now && !pers[i]->pending && (!best || pers[i]->at < best->at)) best = pers[i];
		if (!best) break;
		if (best->reschedule_cb) best->at = best->reschedule_cb(best, the_loop.now);
		else if (best->interval > 0.) best->at += best->interval;
		else ev_periodic_stop(&the_loop, best);	/* nonrepeating: stop timer */
		best->pending = 1; pend[npend].kind = PK_PER; pend[npend++].w = best;
	}
}

/* ------------------------------------------------------------------ interposers */
static int spawn_log_n; static struct { pid_t pid; int norun; int rfd; int failed; char argv[256]; } spawn_log[64];
static int spawn_fail_in;	/* FS n: the n-th spawn from now fails (EAGAIN, as when the process table is full) */
static int last_pipe[2] = {-1, -1};
static pid_t next_pid = 100;
int __real_pipe(int fds[2]);
int __wrap_pipe(int fds[2]) { int r = __real_pipe(fds); if (!r) { last_pipe[0] = fds[0]; last_pipe[1] = fds[1]; } return r; }
int __wrap_posix_spawn(pid_t *pid, const char *path, const posix_spawn_file_actions_t *fa, const posix_spawnattr_t *at, char *const argv[], char *const envp[])
{
	(void)path; (void)fa; (void)at; (void)envp;
	int k = spawn_log_n++;
	spawn_log[k].failed = 0;
	if (spawn_fail_in > 0 && --spawn_fail_in == 0) {
		/* posix_spawn reports failure by a POSITIVE error number and leaves *pid alone (here: as good as uninitialised) */
		spawn_log[k].failed = 1; spawn_log[k].pid = 0; spawn_log[k].norun = 0; spawn_log[k].rfd = -1; strcpy(spawn_log[k].argv, "(spawn failed) ");
		for (size_t i = 0; argv[i]; i++) if (!strcmp(argv[i], "-nd") || !strcmp(argv[i], "-n") || !strcmp(argv[i], "--no-run")) spawn_log[k].norun = 1;
		*pid = 23456789;
		return EAGAIN;
	}
	spawn_log[k].pid = *pid = next_pid++;
	spawn_log[k].norun = 0; spawn_log[k].argv[0] = 0;
	for (size_t i = 0; argv[i]; i++) {
		if (!strcmp(argv[i], "-nd") || !strcmp(argv[i], "-n") || !strcmp(argv[i], "--no-run")) spawn_log[k].norun = 1;
		strncat(spawn_log[k].argv, argv[i], sizeof(spawn_log[k].argv) - strlen(spawn_log[k].argv) - 2); strcat(spawn_log[k].argv, " ");
	}
	spawn_log[k].rfd = last_pipe[0] >= 0 ? dup(last_pipe[0]) : -1;
	return 0;
}
/* realloc always moves the block and the old one is overwritten before it is freed: whoever keeps pointers into a block across its
 * growth (intrusive list or trie nodes in a growing array, say) reads junk at once instead of depending on the allocator's mood */
#include <malloc.h>
void *__real_realloc(void *p, size_t n);
void *__wrap_realloc(void *p, size_t n)
{
	if (p == NULL || n == 0) return __real_realloc(p, n);
	size_t old = malloc_usable_size(p);
	void *q = malloc(n); if (q == NULL) return NULL;
	memcpy(q, p, old < n ? old : n);
	memset(p, 0xA5, old);
	free(p);
	return q;
}
/* waitpid: the daemon leaves the collecting of its children to libev's child watchers.  A child that has exited and whose exit
 * has not been dispatched yet is lost to its watcher when somebody else collects it: it leaves the pending set for good
 * (pending = 2: gone, the watcher never fires) and the call is logged. */
pid_t __wrap_waitpid(pid_t pid, int *st, int opts)
{
	(void)opts;
	for (size_t i = 0; i < npend; i++) {
		if (pend[i].kind != PK_CHLD) continue;
		ev_child *c = pend[i].w;
		if (pid != -1 && pid != c->pid) continue;
		for (size_t j = i; j + 1 < npend; j++) pend[j] = pend[j + 1];
		npend--; c->pending = 2;
		if (st) *st = c->rstatus;
		fprintf(o, "{\"e\":\"Collected\",\"pid\":%d}\n", c->pid);
		return c->pid;
	}
	errno = ECHILD;
	return -1;
}
static struct passwd pwtab[] = {
	{ "root", "x", 0, 0, "root", "/root", "/bin/sh" }, { "alice", "x", 1000, 1000, "alice", "/home/alice", "/bin/sh" },
	{ "bob", "x", 1001, 1001, "bob", "/home/bob", "/bin/bash" }, { "carol", "x", 1002, 1002, "carol", "/home/carol", "/bin/sh" },
};
static unsigned npw = 4;
static struct passwd extra_pw[64];
struct passwd *__wrap_getpwuid(uid_t u)
{
	for (unsigned i = 0; i < npw; i++) if (pwtab[i].pw_uid == u) return &pwtab[i];
	if (u >= 2000 && u < 2064) { struct passwd *p = &extra_pw[u - 2000]; static char nm[64][16]; sprintf(nm[u - 2000], "u%u", u); p->pw_name = nm[u - 2000]; p->pw_uid = u; p->pw_gid = u; p->pw_dir = "/tmp"; p->pw_shell = "/bin/sh"; return p; }
	return NULL;
}
struct passwd *__wrap_getpwnam(const char *n)
{
	for (unsigned i = 0; i < npw; i++) if (!strcmp(pwtab[i].pw_name, n)) return &pwtab[i];
	return NULL;
}
/* checkpoint system calls: counted while armed; the k-th one crashes the process or fails once */
static long sys_k, sys_fault_at = -1; static int sys_mode; static int sys_trace;
static int die_before_next_ckpt;	/* mode d: the call fails once, and the process dies before it gets to checkpoint again */
static int ckfd[64]; static int nckfd;
static int is_ck(int fd) { for (int i = 0; i < nckfd; i++) if (ckfd[i] == fd) return 1; return 0; }
static int sys_step(const char *call, const char *arg)
{
	sys_k++;
	if (sys_trace) { fprintf(o, "{\"e\":\"Sys\",\"k\":%ld,\"call\":\"%s\",\"arg\":\"%s\"}\n", sys_k, call, arg ? arg : ""); }
	if (sys_k == sys_fault_at) {
		if (sys_mode == 'c') { fprintf(o, "{\"e\":\"Crash\",\"k\":%ld,\"call\":\"%s\"}\n", sys_k, call); fflush(o); _exit(77); }
		fprintf(o, "{\"e\":\"Fail\",\"k\":%ld,\"call\":\"%s\"}\n", sys_k, call);
		if (sys_mode == 'd') die_before_next_ckpt = 1;
		errno = EIO; return -1;
	}
	return 0;
}
int __real_openat(int d, const char *p, int fl, ...);
int __wrap_openat(int d, const char *p, int fl, ...)
{
	mode_t m = 0; if (fl & O_CREAT) { va_list ap; va_start(ap, fl); m = va_arg(ap, mode_t); va_end(ap); }
	if (d == qdirfd && !strncmp(p, ".echsq_", 7)) {
		if (sys_step("openat", p) < 0) return -1;
		int fd = __real_openat(d, p, fl, m); if (fd >= 0 && nckfd < 64) ckfd[nckfd++] = fd; return fd;
	}
	return __real_openat(d, p, fl, m);
}
ssize_t __real_write(int fd, const void *b, size_t n);
ssize_t __wrap_write(int fd, const void *b, size_t n)
{
	if (is_ck(fd)) {
		char a[32]; sprintf(a, "%zu", n);
		if (sys_k + 1 == sys_fault_at && sys_mode == 's') { /* short write: half of it goes through, then the call reports the short count */
			sys_k++; fprintf(o, "{\"e\":\"Fail\",\"k\":%ld,\"call\":\"write-short\"}\n", sys_k); return __real_write(fd, b, n / 2); }
		if (sys_step("write", a) < 0) return -1;
	}
	return __real_write(fd, b, n);
}
int __real_close(int fd);
int __wrap_close(int fd)
{
	if (is_ck(fd)) {
		int r = sys_step("close", "");
		for (int i = 0; i < nckfd; i++) if (ckfd[i] == fd) { ckfd[i] = ckfd[--nckfd]; break; }
		if (r < 0) { __real_close(fd); return -1; }
	}
	return __real_close(fd);
}
int __real_renameat(int a, const char *p, int b, const char *q);
int __wrap_renameat(int a, const char *p, int b, const char *q)
{
	if (a == qdirfd && !strncmp(p, ".echsq_", 7)) { if (sys_step("renameat", p) < 0) return -1; }
	return __real_renameat(a, p, b, q);
}
int __real_unlinkat(int a, const char *p, int f);
int __wrap_unlinkat(int a, const char *p, int f)
{
	if (a == qdirfd && !strncmp(p, ".echsq_", 7)) { if (sys_step("unlinkat", p) < 0) return -1; }
	return __real_unlinkat(a, p, f);
}

/* ------------------------------------------------------------------ logging */
static void nolog(int prio, const char *fmt, ...) { (void)prio; (void)fmt; }
#define T0 1893456000.0	/* 2030-01-01T00:00:00Z */
static const char *uid_of(_task_t t) { const char *u = (t && t->t && t->t->oid) ? obint_name(t->t->oid) : NULL; return u ? u : "?"; }
static void jstr(const char *s) { nd_str(o, s, strlen(s)); }
static void log_state(void)
{
	fprintf(o, "{\"e\":\"State\",\"now\":%.1f,\"tasks\":[", the_loop.now - T0);
	int first = 1;
	for (size_t i = 0; i < ztask_ht; i++) {
		if (!task_ht[i].oid) continue;
		_task_t t = task_ht[i].t;
		if (!first) fputc(',', o); first = 0;
		fputs("{\"uid\":", o); jstr(uid_of(t));
		double at = t->w.at - T0; if (at > 1e15) at = 1e15;
		fprintf(o, ",\"owner\":%ld,\"active\":%d,\"pending\":%d,\"at\":%.1f,\"nrun\":%zu,\"nsim\":%ld,\"resched\":%s,\"cb\":\"%s\",\"maxsim\":%u}",
			(long)(int)echs_task_owner(t->t), t->w.active, t->w.pending, at, t->nrun, (long)t->nsim,
			t->w.reschedule_cb ? "true" : "false", t->w.cb == unsched ? "unsched" : t->w.cb == task_cb ? "task" : "?", t->t->max_simul);
	}
	fputs("],\"pending\":[", o);
	for (size_t i = 0; i < npend; i++) {
		if (i) fputc(',', o);
		if (pend[i].kind == PK_PER) { fputs("{\"k\":\"per\",\"uid\":", o); jstr(uid_of((_task_t)pend[i].w)); fprintf(o, ",\"cb\":\"%s\"}", ((ev_periodic*)pend[i].w)->cb == unsched ? "unsched" : "task"); }
		else fprintf(o, "{\"k\":\"chld\",\"pid\":%d}", ((ev_child*)pend[i].w)->pid);
	}
	fputs("],\"children\":[", o);
	for (size_t i = 0; i < nchlds; i++) fprintf(o, "%s%d", i ? "," : "", chlds[i]->pid);
	fprintf(o, "],\"dirty\":%zu}\n", ichkpnts);
}
static void flush_spawns(const char *uid, double now)
{
	for (int k = 0; k < spawn_log_n; k++) {
		char buf[16384]; size_t n = 0;
		if (spawn_log[k].rfd >= 0) { ssize_t r; while ((r = read(spawn_log[k].rfd, buf + n, sizeof(buf) - 1 - n)) > 0) n += r; __real_close(spawn_log[k].rfd); }
		buf[n] = 0;
		fprintf(o, "{\"e\":\"Spawn\",\"uid\":"); jstr(uid);
		fprintf(o, ",\"now\":%.1f,\"pid\":%d,\"norun\":%s,\"failed\":%s,\"argv\":", now - T0, spawn_log[k].pid, spawn_log[k].norun ? "true" : "false", spawn_log[k].failed ? "true" : "false"); jstr(spawn_log[k].argv);
		fputs(",\"vtodo\":", o); jstr(buf); fputs("}\n", o);
	}
	spawn_log_n = 0;
}
static char *unesc(char *s)
{
	char *w = s;
	for (char *r = s; *r; r++) {
		if (r[0] == '\\' && r[1] == 'n') { *w++ = '\n'; r++; }
		else if (r[0] == '\\' && r[1] == 'r') { *w++ = '\r'; r++; }
		else if (r[0] == '\\' && r[1] == '\\') { *w++ = '\\'; r++; }
		else *w++ = *r;
	}
	*w = 0; return s;
}
static struct _echsd_s *ctx;
/* a request as sock_data_cb handles it, reply captured from a pipe.  chunks: NULL = the whole text arrives with one
 * recv(); otherwise a comma separated list of sizes: the text arrives in pieces of these sizes (the last size repeats),
 * each handled like one readable event of the connection, followed by the end-of-file event */
/* the connection table: every request lives in a slot of the daemon's own table (make_conn()/free_conn()), like a peer that
 * has been accepted; the script can hold further connections open (CO) and close them (CC).  What the table hands out is logged
 * together with what the harness itself knows to be held; nothing is judged here. */
static struct echs_conn_s *held[256]; static size_t nheld;
static struct echs_conn_s *slot_open(void)
{
	struct echs_conn_s *c = make_conn();
	long k = c ? (long)(c - conns) : -1; int clash = 0;
	for (size_t i = 0; i < nheld; i++) if (c && held[i] == c) clash = 1;
	fprintf(o, "{\"e\":\"Slot\",\"op\":\"open\",\"slot\":%ld,\"nheld\":%zu,\"clash\":%s}\n", k, nheld, clash ? "true" : "false");
	if (c && nheld < 256) held[nheld++] = c;
	return c;
}
static void slot_close(struct echs_conn_s *c)
{
	size_t k = 0; for (size_t i = 0; i < nheld; i++) if (held[i] != c) held[k++] = held[i]; else c = held[i];
	fprintf(o, "{\"e\":\"Slot\",\"op\":\"close\",\"slot\":%ld,\"nheld\":%zu,\"clash\":false}\n", (long)(c - conns), nheld);
	nheld = k;
	free_conn(c);
}
static void slot_gone(struct echs_conn_s *c)
{
	/* the daemon has given the slot back itself (shut_conn -> free_conn) */
	size_t k = 0; for (size_t i = 0; i < nheld; i++) if (held[i] != c) held[k++] = held[i];
	fprintf(o, "{\"e\":\"Slot\",\"op\":\"close\",\"slot\":%ld,\"nheld\":%zu,\"clash\":false}\n", (long)(c - conns), nheld);
	nheld = k;
}
/* one request = one connection, handled by the daemon's own sock_data_cb(): the peer's end of a socket pair is written to in
 * pieces (chunks: comma separated sizes, the last one repeats; NULL: as much as goes at once), after every piece the connection
 * is reported readable once; then the peer shuts its sending side down, which is the last readable event.  Whatever the daemon
 * writes back is collected from the peer's end. */
static void do_request_chunked(const char *kind, uid_t peer, char *text, const char *chunks)
{
	int sv[2]; if (socketpair(AF_UNIX, SOCK_STREAM, 0, sv) < 0) return;
	struct echs_conn_s *conn = slot_open();
	if (conn == NULL) {
		/* the table is full: the daemon closes the connection without an answer */
		__real_close(sv[0]); __real_close(sv[1]);
		fprintf(o, "{\"e\":\"Refused\",\"kind\":\"%s\",\"peer\":%u}\n", kind, peer);
		return;
	}
	ncred_t cred = {peer, peer, "/tmp", "/bin/sh"};
	conn->cred = cred;
	ev_io_init(&conn->r, sock_data_cb, sv[0], EV_READ);
	ev_io_start(&the_loop, &conn->r);
	fcntl(sv[1], F_SETFL, O_NONBLOCK);
	static char rb[1 << 20]; size_t n = 0; ssize_t r;
	size_t len = strlen(text), off = 0, sz = 4096; const char *cp = chunks; int eof = 0, rounds = 0;
	while (conn->r.active && rounds++ < 100000) {
		if (off < len) {
			if (cp && *cp) { sz = strtoul(cp, (char**)&cp, 10); if (*cp == ',') cp++; if (!sz) sz = 1; }
			size_t want = len - off < sz ? len - off : sz;
			if (want > 4096) want = 4096;
			ssize_t w = send(sv[1], text + off, want, MSG_NOSIGNAL);
			if (w <= 0) break;
			off += w;
		} else if (!eof) { shutdown(sv[1], SHUT_WR); eof = 1; }
		else break;	/* the daemon keeps the connection although the peer is done: reported below */
		conn->r.cb(&the_loop, &conn->r, EV_READ);
		while (n < sizeof(rb) - 1 && (r = read(sv[1], rb + n, sizeof(rb) - 1 - n)) > 0) n += r;
	}
	int lingering = conn->r.active;
	if (lingering) { ev_io_stop(&the_loop, &conn->r); shut_conn(conn); }
	slot_gone(conn);
	while (n < sizeof(rb) - 1 && (r = read(sv[1], rb + n, sizeof(rb) - 1 - n)) > 0) n += r;
	rb[n] = 0; __real_close(sv[1]);
	fprintf(o, "{\"e\":\"%s\",\"peer\":%u,\"parsed\":\"sock\",\"lingering\":%s,\"reply\":", kind, peer, lingering ? "true" : "false"); jstr(rb); fputs("}\n", o);
}
static void do_request(const char *kind, uid_t peer, char *text) { do_request_chunked(kind, peer, text, NULL); }
static ev_tstamp tstamp_probe(echs_instant_t i) { return instant_to_tstamp(i); }

int main(int argc, char *argv[])
{
	const char *spool = argc > 1 ? argv[1] : ".";
	o = stdout; static char obuf[1 << 20]; setvbuf(o, obuf, _IOFBF, sizeof(obuf));
	echs_log = nolog;
	signal(SIGPIPE, SIG_IGN);	/* the daemon has a SIGPIPE watcher (sigpipe_cb): writing to a closed pipe or socket yields EPIPE, not death */
	if (argc > 2 && !strcmp(argv[2], "tstamp")) {
		/* C08: the daemon's wake-up stamp for every day of 1901..2099 x sampled seconds */
		nd_rng_s = argc > 3 ? strtoull(argv[3], 0, 10) : 1; int thorough = argc > 4 && !strcmp(argv[4], "thorough");
		static const unsigned md[] = {0,31,28,31,30,31,30,31,31,30,31,30,31};
		for (unsigned y = 1901; y <= 2099; y++) for (unsigned m = 1; m <= 12; m++) for (unsigned d = 1; d <= md[m] + (m == 2 && y % 4 == 0); d++) {
			if (!thorough && !(d == 1 || d >= 28 || (y + m + d) % 7 == 0)) continue;
			echs_instant_t v[3] = { mkinst(y, m, d, 255, 0, 0, 0), mkinst(y, m, d, nd_rnd(24), nd_rnd(60), nd_rnd(60), 1023), mkinst(y, m, d, 23, 59, 59, 999) };
			for (int k = 0; k < 3; k++) { fputs("{\"e\":\"Tstamp\",\"a\":", o); nd_inst(o, v[k]); fputs(",\"r\":", o); nd_secs(o, (int64_t)tstamp_probe(v[k])); fputs("}\n", o); }
		}
		fflush(o); return 0;
	}
	if (argc > 2 && !strcmp(argv[2], "uids")) {
		/* the 32-bit ids the daemon's table is keyed by, for candidate UID strings (input selection for C11) */
		long n = argc > 3 ? atol(argv[3]) : 100000;
		for (long i = 0; i < n; i++) { char b[32]; int l = sprintf(b, "u%ld", i); printf("%s %lu\n", b, (unsigned long)obint(b, l)); }
		return 0;
	}
	meself.uid = (argc > 2 && !strcmp(argv[2], "user")) ? 1000 : 0;
	meself.pid = getpid();
	echsx = "/nonexistent/echsx";
	qdirfd = open(spool, O_RDONLY | O_DIRECTORY);
	the_loop.now = T0;
	ctx = make_echsd();
	char *line = NULL; size_t cap = 0; ssize_t n;
	while ((n = getline(&line, &cap, stdin)) > 0) {
		if (line[n - 1] == '\n') line[--n] = 0;
		char *a1 = strchr(line, '\t'); if (a1) *a1++ = 0;
		char *a2 = a1 ? strchr(a1, '\t') : NULL; if (a2) *a2++ = 0;
		if (!strcmp(line, "A")) { do_request("Req", (uid_t)strtoul(a1, 0, 10), unesc(a2)); }
		else if (!strcmp(line, "AC")) {
			/* AC \t peer \t sizes \t text: the request arrives in pieces */
			char *a3 = a2 ? strchr(a2, '\t') : NULL; if (a3) { *a3++ = 0; do_request_chunked("Req", (uid_t)strtoul(a1, 0, 10), unesc(a3), a2); }
		}
		else if (!strcmp(line, "CO")) { for (long k = atol(a1); k > 0; k--) (void)slot_open(); }
		else if (!strcmp(line, "CC")) { if (nheld) slot_close(held[(size_t)atol(a1) % nheld]); }
		else if (!strcmp(line, "HC")) {
			/* HC \t peer \t sizes \t request line: a listing request that arrives in pieces */
			char *a3 = a2 ? strchr(a2, '\t') : NULL; if (a3) { *a3++ = 0; char rq[512]; snprintf(rq, sizeof(rq), "%s\r\n\r\n", a3); do_request_chunked("Http", (uid_t)strtoul(a1, 0, 10), rq, a2); }
		}
		else if (!strcmp(line, "H")) { char rq[512]; snprintf(rq, sizeof(rq), "%s\r\n\r\n", a2); do_request("Http", (uid_t)strtoul(a1, 0, 10), rq); }
		else if (!strcmp(line, "T")) { the_loop.now += atof(a1); fprintf(o, "{\"e\":\"Tick\",\"now\":%.1f}\n", the_loop.now - T0); }
		/* TJ n: the wall clock is n seconds further on than the monotonic clock accounts for (the clock was set, or the machine slept):
		 * libev notices the two have drifted apart (time_update, and the timerfd of 4.33) and reschedules every periodic before it
		 * looks for due ones - the same periodics_reschedule() as after ev_loop_fork */
		else if (!strcmp(line, "TJ")) { the_loop.now += atof(a1); postfork = 1; fprintf(o, "{\"e\":\"Tick\",\"now\":%.1f,\"jump\":true}\n", the_loop.now - T0); }
		else if (!strcmp(line, "R")) { hx_reify(); fprintf(o, "{\"e\":\"Reify\",\"now\":%.1f}\n", the_loop.now - T0); }
		else if (!strcmp(line, "D") || !strcmp(line, "DA")) {
			int all = line[1] == 'A';
			while (npend) {
				/* the script names a choice among what is enabled: index modulo the number of pending callbacks */
				size_t i = all ? 0 : (size_t)atoi(a1) % npend;
				int kind = pend[i].kind; void *w = pend[i].w;
				for (size_t j = i; j + 1 < npend; j++) pend[j] = pend[j + 1];
				npend--;
				if (kind == PK_PER) {
					ev_periodic *p = w; char uid[256]; strncpy(uid, uid_of((_task_t)p), 255); uid[255] = 0;
					const char *cbn = p->cb == unsched ? "unsched" : "task";
					p->pending = 0;
					fprintf(o, "{\"e\":\"Deliver\",\"k\":\"per\",\"uid\":"); jstr(uid); fprintf(o, ",\"cb\":\"%s\",\"now\":%.1f}\n", cbn, the_loop.now - T0);
					p->cb(&the_loop, p, 0);
					flush_spawns(uid, the_loop.now);
				} else {
					ev_child *c = w; c->pending = 0;
					fprintf(o, "{\"e\":\"Deliver\",\"k\":\"chld\",\"pid\":%d,\"now\":%.1f}\n", c->pid, the_loop.now - T0);
					c->cb(&the_loop, c, 0);
				}
				if (!all) break;
			}
		}
		else if (!strcmp(line, "DP") || !strcmp(line, "DC")) {
			/* deliver the pending callback of the named periodic (by task uid) / child (by pid) */
			size_t i; int found = 0;
			for (i = 0; i < npend; i++) {
				if (line[1] == 'P' && pend[i].kind == PK_PER && !strcmp(uid_of((_task_t)pend[i].w), a1)) { found = 1; break; }
				if (line[1] == 'C' && pend[i].kind == PK_CHLD && ((ev_child*)pend[i].w)->pid == atoi(a1)) { found = 1; break; }
			}
			if (!found) fprintf(o, "{\"e\":\"NotEnabled\",\"cmd\":\"%s\",\"arg\":\"%s\"}\n", line, a1);
			else {
				int kind = pend[i].kind; void *w = pend[i].w;
				for (size_t j = i; j + 1 < npend; j++) pend[j] = pend[j + 1];
				npend--;
				if (kind == PK_PER) {
					ev_periodic *p = w; char uid[256]; strncpy(uid, uid_of((_task_t)p), 255); uid[255] = 0;
					const char *cbn = p->cb == unsched ? "unsched" : "task";
					p->pending = 0;
					fprintf(o, "{\"e\":\"Deliver\",\"k\":\"per\",\"uid\":"); jstr(uid); fprintf(o, ",\"cb\":\"%s\",\"now\":%.1f}\n", cbn, the_loop.now - T0);
					p->cb(&the_loop, p, 0);
					flush_spawns(uid, the_loop.now);
				} else {
					ev_child *c = w; c->pending = 0;
					fprintf(o, "{\"e\":\"Deliver\",\"k\":\"chld\",\"pid\":%d,\"now\":%.1f}\n", c->pid, the_loop.now - T0);
					c->cb(&the_loop, c, 0);
				}
			}
		}
		else if (!strcmp(line, "X")) {
			int pid = atoi(a1), st = a2 ? atoi(a2) : 0, found = 0;
			for (size_t i = 0; i < nchlds; i++) if (chlds[i]->pid == pid && !chlds[i]->pending) { chlds[i]->rpid = pid; chlds[i]->rstatus = st; chlds[i]->pending = 1; pend[npend].kind = PK_CHLD; pend[npend++].w = chlds[i]; found = 1; break; }
			fprintf(o, "{\"e\":\"Exit\",\"pid\":%d,\"watched\":%s,\"now\":%.1f}\n", pid, found ? "true" : "false", the_loop.now - T0);
		}
		else if (!strcmp(line, "XI")) {
			/* exit the k-th (modulo) child that is still being watched and has not exited yet */
			size_t cand[MAXW], nc = 0;
			for (size_t i = 0; i < nchlds; i++) if (!chlds[i]->pending) cand[nc++] = i;
			if (nc) { ev_child *c = chlds[cand[(size_t)atoi(a1) % nc]]; c->rpid = c->pid; c->rstatus = 0; c->pending = 1; pend[npend].kind = PK_CHLD; pend[npend++].w = c;
				fprintf(o, "{\"e\":\"Exit\",\"pid\":%d,\"watched\":true,\"now\":%.1f}\n", c->pid, the_loop.now - T0); }
		}
		else if (!strcmp(line, "XS") || !strcmp(line, "XC")) {
			/* the k-th (modulo) child that is still being watched is stopped / continued (SIGSTOP, SIGCONT): libev reports
			 * that to watchers started with the trace flag only, the job is alive all along */
			size_t cand[MAXW], nc = 0;
			for (size_t i = 0; i < nchlds; i++) if (!chlds[i]->pending) cand[nc++] = i;
			if (nc) { ev_child *c = chlds[cand[(size_t)atoi(a1) % nc]];
				if (c->flags) { c->rpid = c->pid; c->rstatus = line[1] == 'S' ? 0x137f : 0xffff; c->pending = 1; pend[npend].kind = PK_CHLD; pend[npend++].w = c; }
				fprintf(o, "{\"e\":\"ChildEvent\",\"pid\":%d,\"kind\":\"%s\",\"traced\":%s}\n", c->pid, line[1] == 'S' ? "stop" : "cont", c->flags ? "true" : "false"); }
		}
		else if (!strcmp(line, "FS")) { spawn_fail_in = atoi(a1) > 0 ? atoi(a1) : 1; }
		else if ((!strcmp(line, "K") || !strcmp(line, "S")) && die_before_next_ckpt) { fprintf(o, "{\"e\":\"Crash\",\"k\":%ld,\"call\":\"before-next-checkpoint\"}\n", sys_k); fflush(o); _exit(77); }
		else if (!strcmp(line, "K")) { fputs("{\"e\":\"Chkpnt\"}\n", o); if (the_timer) the_timer->cb(&the_loop, the_timer, 0); }
		else if (!strcmp(line, "F")) { sys_fault_at = sys_k + atol(a1); sys_mode = a2 ? a2[0] : 'c'; }
		else if (!strcmp(line, "ST")) { sys_trace = atoi(a1); }
		else if (!strcmp(line, "L")) { fputs("{\"e\":\"Load\"}\n", o); echsd_inject_queues(ctx, spool); }
		else if (!strcmp(line, "S")) { fputs("{\"e\":\"Shutdown\"}\n", o); chkpnt(); }
		else if (!strcmp(line, "Q")) { /* state only */ }
		else if (!strcmp(line, "RESET")) { fputs("{\"e\":\"Reset\"}\n", o); }
		log_state();
		fflush(o);
	}
	fflush(o);
	_exit(0);
}
