/* taskdump.h: print every field of a parsed task (struct echs_task_s) and the
 * first occurrences of its stream as one JSON object.  Printing only. */
#ifndef VERIF_TASKDUMP_H
#define VERIF_TASKDUMP_H
#include "nd.h"
#include "task.h"
#include "intern.h"
#include "evstrm.h"

static inline void td_str(FILE *f, const char *k, const char *s)
{
	fprintf(f, ",\"%s\":", k);
	if (s == NULL) fputs("\"\\u0000\"", f);	/* unset is distinguished from empty */
	else nd_str(f, s, strlen(s));
}
static inline void td_nms(FILE *f, const char *k, nummapstr_t x)
{
	fprintf(f, ",\"%s\":", k);
	if (nummapstr_str(x) != NULL) nd_str(f, nummapstr_str(x), strlen(nummapstr_str(x)));
	else if (x == 0) fputs("\"\\u0000\"", f);
	else fprintf(f, "%llu", (unsigned long long)nummapstr_num(x));
}
static inline void td_lst(FILE *f, const char *k, const struct strlst_s *l)
{
	fprintf(f, ",\"%s\":[", k);
	if (l) for (size_t i = 0; i < l->nl && l->l[i]; i++) { if (i) fputc(',', f); nd_str(f, l->l[i], strlen(l->l[i])); }
	fputc(']', f);
}
/* consumes up to npop occurrences of t->strm */
static inline void dump_task_json(FILE *f, echs_task_t t, size_t npop)
{
	const char *uid = t->oid ? obint_name(t->oid) : NULL;
	fputs("{\"uid\":", f);
	if (uid) nd_str(f, uid, strlen(uid)); else fputs("\"\\u0000\"", f);
	td_str(f, "cmd", t->cmd); td_lst(f, "env", t->env);
	td_nms(f, "owner", t->owner); td_nms(f, "run_u", t->run_as.u); td_nms(f, "run_g", t->run_as.g);
	td_str(f, "wd", t->run_as.wd); td_str(f, "sh", t->run_as.sh);
	td_str(f, "desc", t->desc); td_str(f, "org", t->org); td_lst(f, "att", t->att);
	td_str(f, "in", t->in); td_str(f, "out", t->out); td_str(f, "err", t->err);
	fprintf(f, ",\"mailout\":%u,\"moutset\":%u,\"mailerr\":%u,\"merrset\":%u,\"mailrun\":%u,\"mrunset\":%u,\"max_simul\":%u,\"vtod_typ\":%u,\"umsk\":%u",
		t->mailout, t->moutset, t->mailerr, t->merrset, t->mailrun, t->mrunset, t->max_simul, t->vtod_typ, t->umsk);
	if (t->strm == NULL) {
		if (t->vtod_typ == VTOD_TYP_TIMEOUT) { fputs(",\"timeout\":", f); nd_dur(f, t->timeout.d); }
		else if (t->vtod_typ == VTOD_TYP_DUE) { fputs(",\"due\":", f); nd_inst(f, t->due); }
		fputs(",\"strm\":false}", f);
		return;
	}
	fputs(",\"strm\":true,\"occ\":[", f);
	size_t n = 0; int eos = 0;
	for (; n < npop; n++) {
		echs_event_t e = echs_evstrm_pop(t->strm);
		if (echs_nul_event_p(e)) { eos = 1; break; }
		if (n) fputc(',', f);
		fputc('[', f); nd_inst(f, e.from); fputc(',', f); nd_dur(f, e.dur.d); fputc(']', f);
	}
	fprintf(f, "],\"eos\":%s}", eos ? "true" : "false");
}
#endif
