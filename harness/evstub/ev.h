/* ev.h stand-in for the echsd harness: only libev's documented watcher contract, with a virtual clock and an explicit
 * bag of pending callbacks so that the order of delivery is the caller's choice (see drv_echsd.c). */
#ifndef EVSTUB_H
#define EVSTUB_H
#include <signal.h>
#include <sys/types.h>
typedef double ev_tstamp;
struct ev_loop;
#define EV_P struct ev_loop *loop
#define EV_P_ EV_P,
#define EV_A loop
#define EV_A_ EV_A,
#define EV_READ 1
#define EVFLAG_AUTO 0
#define EVBREAK_ALL 2
#define EV_WATCHER(type) int active; int pending; void *data; void (*cb)(struct ev_loop*, struct type*, int);
typedef struct ev_periodic { EV_WATCHER(ev_periodic) ev_tstamp at; ev_tstamp offset; ev_tstamp interval; ev_tstamp (*reschedule_cb)(struct ev_periodic*, ev_tstamp); } ev_periodic;
typedef struct ev_timer { EV_WATCHER(ev_timer) ev_tstamp at; ev_tstamp repeat; } ev_timer;
typedef struct ev_io { EV_WATCHER(ev_io) int fd; int events; } ev_io;
typedef struct ev_signal { EV_WATCHER(ev_signal) int signum; } ev_signal;
typedef struct ev_child { EV_WATCHER(ev_child) int flags; int pid; int rpid; int rstatus; } ev_child;
struct ev_loop *ev_default_loop(unsigned);
void ev_loop_destroy(struct ev_loop*);
void ev_loop_fork(struct ev_loop*);
void ev_break(struct ev_loop*, int);
int ev_run(struct ev_loop*, int);
#define ev_loop(l,f) ev_run(l,f)
void ev_periodic_start(struct ev_loop*, ev_periodic*); void ev_periodic_stop(struct ev_loop*, ev_periodic*);
void ev_timer_start(struct ev_loop*, ev_timer*); void ev_io_start(struct ev_loop*, ev_io*); void ev_io_stop(struct ev_loop*, ev_io*);
void ev_signal_start(struct ev_loop*, ev_signal*); void ev_child_start(struct ev_loop*, ev_child*); void ev_child_stop(struct ev_loop*, ev_child*);
#define ev_init(w,c) do{(w)->active=(w)->pending=0;(w)->cb=(c);}while(0)
#define ev_periodic_init(w,c,o,i,r) do{ev_init(w,c);(w)->offset=(o);(w)->interval=(i);(w)->reschedule_cb=(r);}while(0)
#define ev_timer_init(w,c,a,r) do{ev_init(w,c);(w)->at=(a);(w)->repeat=(r);}while(0)
#define ev_io_init(w,c,f,e) do{ev_init(w,c);(w)->fd=(f);(w)->events=(e);}while(0)
#define ev_signal_init(w,c,s) do{ev_init(w,c);(w)->signum=(s);}while(0)
#define ev_child_init(w,c,p,t) do{ev_init(w,c);(w)->pid=(p);(w)->flags=(t);}while(0)
/* the rest of the documented watcher interface, so that a tree that uses more of it than echsd does today still builds */
#define ev_periodic_set(w,o,i,r) do{(w)->offset=(o);(w)->interval=(i);(w)->reschedule_cb=(r);}while(0)
#define ev_timer_set(w,a,r) do{(w)->at=(a);(w)->repeat=(r);}while(0)
#define ev_io_set(w,f,e) do{(w)->fd=(f);(w)->events=(e);}while(0)
#define ev_signal_set(w,s) do{(w)->signum=(s);}while(0)
#define ev_child_set(w,p,t) do{(w)->pid=(p);(w)->flags=(t);}while(0)
#define ev_set_cb(w,c) ((w)->cb=(c))
#define ev_cb(w) ((w)->cb)
#define ev_now(l) ev_stub_now(l)
#define EV_WRITE 2
#define EV_TIMER 0x100
#define EV_PERIODIC 0x200
#define EV_SIGNAL 0x400
#define EV_CHILD 0x800
#define EVBREAK_ONE 1
#define EVRUN_NOWAIT 1
#define EVRUN_ONCE 2
ev_tstamp ev_stub_now(struct ev_loop*);
void ev_timer_stop(struct ev_loop*, ev_timer*); void ev_timer_again(struct ev_loop*, ev_timer*); void ev_signal_stop(struct ev_loop*, ev_signal*);
void ev_periodic_again(struct ev_loop*, ev_periodic*);
#define ev_is_pending(w) (0 + (w)->pending)
#define ev_is_active(w) (0 + (w)->active)
#endif
