#!/bin/bash
# build.sh [plain|asan] -> prints the build directory
# Compiles /repo/src as it is *now* into /verif/build/<hash>/<flavour>; cached by
# a hash over every source-ish file under /repo/src and the path of the tree (the drivers include headers from there),
# shared under flock.
set -e
FLAV=${1:-plain}
SRC=${VERIF_REPO:-/repo}/src
TOP=$(dirname "$SRC")
VERIF=/verif
mkdir -p $VERIF/build
H=$( (cd $SRC && ls *.c *.h *.erf *.yuck *.in 2>/dev/null | grep -v -e '-gp\.c$' -e '^version\.c$' | LC_ALL=C sort | xargs sha256sum; sha256sum $VERIF/harness/build.sh; echo "$SRC") | sha256sum | cut -c1-16)
B=$VERIF/build/$H/$FLAV
if [ -f $B/.done ]; then touch $B/.done; echo $B; exit 0; fi
exec 9>$VERIF/build/.lock
flock 9
if [ -f $B/.done ]; then echo $B; exit 0; fi
# prune: builds beyond the eight most recently used ones, and only if not used for three hours
# (a check in flight on an older tree, or on a scratch worktree, must not lose its build)
for d in $(ls -1dt $VERIF/build/*/ 2>/dev/null | tail -n +9); do
  if [ -z "$(find $d -maxdepth 2 -name .done -mmin -180 2>/dev/null | head -1)" ]; then rm -rf $d; fi
done
mkdir -p $B/gen $B/obj
# generated sources: made from the current .erf/.yuck with the repository's tools, into our own dir
for e in $SRC/*.erf; do b=$(basename $e .erf); gperf -L ANSI-C "$e" --output-file $B/gen/$b.c 2>$B/gen/$b.log || { echo "gperf failed on $e" >&2; exit 2; }; done
for y in $SRC/*.yuck; do b=$(basename $y .yuck); PATH=$TOP/build-aux:$PATH yuck gen -o $B/gen/$b.yucc $y 2>$B/gen/$b.log || cp $SRC/$b.yucc $B/gen/; done
if [ -f $SRC/version.c ]; then cp $SRC/version.c $B/gen/version.c; else
 PATH=$TOP/build-aux:$PATH yuck scmver --ignore-noscm --force -o $B/gen/version.c --use-reference --reference $TOP/.version $SRC/version.c.in; fi
CPP="-DHAVE_CONFIG_H -I$B/gen -I$SRC -D_POSIX_C_SOURCE=200809L -D_XOPEN_SOURCE=700 -D_DEFAULT_SOURCE"
case $FLAV in
 plain) CF="-std=c11 -g -O2 -w" ; LF="" ;;
 asan)  CF="-std=c11 -g -O1 -w -fsanitize=address,bounds -fno-sanitize-recover=bounds -fno-omit-frame-pointer" ; LF="-fsanitize=address,bounds" ;;
 *) echo "unknown flavour" >&2; exit 2;;
esac
LIBSRC="instant range dt-strpf module hash intern state task strlst bufpool event evstrm evical evrrul evmrul evfilt tzob scale shift tzraw bitint echse-genuid"
pids=()
fail=0
for s in $LIBSRC; do
 ( gcc $CF $CPP -c -o $B/obj/$s.o $SRC/$s.c 2>$B/obj/$s.err ) & pids+=($!)
done
( gcc $CF $CPP -c -o $B/obj/logger.o $SRC/logger.c 2>$B/obj/logger.err ) & pids+=($!)
( gcc $CF $CPP -DHAVE_VERSION_H -c -o $B/obj/version.o $B/gen/version.c 2>$B/obj/version.err ) & pids+=($!)
( gcc $CF $CPP -DSTANDALONE -DHAVE_VERSION_H -c -o $B/obj/p-echse.o $SRC/echse.c 2>$B/obj/p-echse.err ) & pids+=($!)
( gcc $CF $CPP -DSTANDALONE -DHAVE_VERSION_H -c -o $B/obj/p-echsq.o $SRC/echsq.c 2>$B/obj/p-echsq.err ) & pids+=($!)
( gcc $CF $CPP -DHAVE_VERSION_H -c -o $B/obj/p-echsx.o $SRC/echsx.c 2>$B/obj/p-echsx.err ) & pids+=($!)
( gcc $CF $CPP -c -o $B/obj/p-echsd.o $SRC/echsd.c 2>$B/obj/p-echsd.err ) & pids+=($!)
for p in "${pids[@]}"; do wait $p || fail=1; done
if [ $fail = 1 ]; then cat $B/obj/*.err >&2; echo "BUILD FAILED" >&2; exit 2; fi
LO=""; for s in $LIBSRC; do LO="$LO $B/obj/$s.o"; done
rm -f $B/libechse.a; ar rcs $B/libechse.a $LO
gcc $LF -o $B/echse $B/obj/p-echse.o $B/obj/version.o $B/libechse.a -lltdl -lm -ldl -rdynamic 2>$B/obj/l1.err || { cat $B/obj/l1.err >&2; exit 2; }
gcc $LF -o $B/echsq $B/obj/p-echsq.o $B/obj/version.o $B/libechse.a -lltdl -lm -ldl 2>$B/obj/l2.err || { cat $B/obj/l2.err >&2; exit 2; }
gcc $LF -o $B/echsx $B/obj/p-echsx.o $B/obj/version.o $B/obj/logger.o $B/libechse.a -lev -lltdl -lm -ldl 2>$B/obj/l3.err || { cat $B/obj/l3.err >&2; exit 2; }
gcc $LF -o $B/echsd $B/obj/p-echsd.o $B/obj/logger.o $B/libechse.a -lev -lltdl -lm -ldl 2>$B/obj/l4.err || { cat $B/obj/l4.err >&2; exit 2; }
echo "CPP=\"$CPP\"" > $B/flags.sh
echo "CF=\"$CF\"" >> $B/flags.sh
echo "LF=\"$LF\"" >> $B/flags.sh
echo "SRC=$SRC" >> $B/flags.sh
touch $B/.done
echo $B
