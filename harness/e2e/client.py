#!/usr/bin/env python3
"""runs INSIDE private net+mount namespaces (unshare -n -m) as root: a real echsd and a scripted sequence of real echsq
invocations by several users.  usage: client.py <build dir> <work dir> <plan.json> <out.json>.  Observation only: every
invocation's exit code and output is recorded as printed; nothing is judged here."""
import sys, os, json, time, subprocess, signal, re, pwd
B, W, planf, outf = sys.argv[1:5]
plan = json.load(open(planf))
os.makedirs('/var/spool', exist_ok=True)
subprocess.run(['mount', '-t', 'tmpfs', 'none', '/var/spool'], check=True)
subprocess.run(['mount', '-t', 'tmpfs', 'none', '/var/run'], check=False)
CW = '/var/spool/cw'
os.makedirs(CW); os.chmod(CW, 0o777)
for d in plan['dirs']:
    os.makedirs(CW + '/' + d, exist_ok=True); os.chmod(CW + '/' + d, 0o777)
ed = CW + '/ed.sh'
open(ed, 'w').write('#!/bin/sh\n# ed.sh NEWCMD FILE: an "editor" that rewrites the SUMMARY lines of FILE in place (same inode)\n'
                    't=$(sed "s|^SUMMARY:.*|SUMMARY:$1|" "$2") && printf "%s\\n" "$t" > "$2"\n')
os.chmod(ed, 0o755)
err = open(W + '/echsd.err', 'w')
d = subprocess.Popen([B + '/echsd', '-n', '--pidfile=' + W + '/pid'], stderr=err, stdout=subprocess.DEVNULL)
ok = False
for _ in range(100):
    if 'echsd ready' in open(W + '/echsd.err').read(): ok = True; break
    time.sleep(0.1)

def ics(evs):
    L = ['BEGIN:VCALENDAR', 'VERSION:2.0']
    for e in evs:
        L += ['BEGIN:VEVENT', 'UID:' + e['uid'], 'SUMMARY:' + e['cmd'], 'DTSTART:' + e['dtstart']]
        if e.get('rrule'): L.append('RRULE:' + e['rrule'])
        L += ['END:VEVENT']
    return '\n'.join(L + ['END:VCALENDAR', ''])

def as_user(name):
    if name == 'root': return {}
    p = pwd.getpwnam(name)
    return {'user': p.pw_uid, 'group': p.pw_gid, 'extra_groups': []}

res = {'ready': ok, 'steps': []}
n = 0
crowd = []
for c in (plan['cmds'] if ok else []):
    n += 1
    if c['op'] == 'crowd':
        # other peers: n connections opened and kept open (n = 0: all of them closed again)
        import socket
        if c['n'] == 0:
            for x in crowd: x.close()
            crowd.clear()
        for _ in range(c['n']):
            x = socket.socket(socket.AF_UNIX, socket.SOCK_STREAM)
            try: x.connect('\0/var/run/echse/=echsd'); crowd.append(x)
            except OSError: pass
        time.sleep(0.2)
        res['steps'].append({'rc': 0, 'out': str(len(crowd)), 'err': '', 'cwd': ''})
        continue
    env = dict(os.environ, HOME='/nonexistent')
    cwd = CW + '/' + c.get('cwd', plan['dirs'][0])
    args = [B + '/echsq']
    if c['op'] in ('add', 'dry'):
        fns = []
        for k, evs in enumerate(c['files']):
            fn = '%s/f%d_%d.ics' % (CW, n, k); open(fn, 'w').write(ics(evs)); os.chmod(fn, 0o644); fns.append(fn)
        args += ['add'] + (['-n'] if c['op'] == 'dry' else []) + fns
    elif c['op'] == 'cancel':
        args += ['cancel'] + (['--next'] if c.get('next') else []) + c['ids']
    elif c['op'] == 'list':
        if c['mode'] == 'next': args += ['next']
        elif c['mode'] == 'brief' and c.get('bare'): pass
        else: args += ['list'] + (['--brief'] if c['mode'] == 'brief' else [])
        if c.get('whose') and c['whose'] != c['peer']: args += ['-u', c['whose'] if not c.get('numeric') else str(pwd.getpwnam(c['whose']).pw_uid)]
        args += c.get('ids', [])
    elif c['op'] == 'edit':
        env['EDITOR'] = "%s '%s'" % (ed, c['cmd'])
        args += ['edit', c['uid']]
    try:
        p = subprocess.run(args, cwd=cwd, env=env, umask=c.get('umask', 0o22), capture_output=True, text=True, timeout=30, stdin=subprocess.DEVNULL, **as_user(c['peer']))
        res['steps'].append({'rc': p.returncode, 'out': p.stdout[-20000:], 'err': p.stderr[-2000:], 'cwd': cwd})
    except subprocess.TimeoutExpired:
        res['steps'].append({'rc': -9, 'out': '', 'err': 'timeout', 'cwd': cwd})
d.send_signal(signal.SIGINT)
try: d.wait(timeout=15)
except subprocess.TimeoutExpired: d.kill()
res['daemon_rc'] = d.returncode
res['echsd_err'] = open(W + '/echsd.err').read()[-1500:]
json.dump(res, open(outf, 'w'))
