#!/usr/bin/env python3
"""runs INSIDE private net+mount namespaces (unshare -n -m) as root: real echsd + echsq + echsx end to end.
usage: inner.py <build dir> <work dir> <plan.json> <out.json>.  Observation only: submits the plan's task files through the
real echsq (from a given working directory and umask), lets the real daemon and executor run them in real time, collects what
the jobs logged about themselves, the journal and the queue file left by a clean shutdown."""
import sys, os, json, time, subprocess, signal, glob
B, W, planf, outf = sys.argv[1:5]
plan = json.load(open(planf))
os.makedirs('/var/spool', exist_ok=True)
subprocess.run(['mount', '-t', 'tmpfs', 'none', '/var/spool'], check=True)
subprocess.run(['mount', '-t', 'tmpfs', 'none', '/var/run'], check=False)
log = W + '/log'; open(log, 'w').close()
job = W + '/job.sh'
open(job, 'w').write('''#!/bin/sh
# job.sh TAG SECONDS: logs its start (with the working directory, umask and shell it finds itself in), its end, or its killing
trap 'echo "K $1 $$ $(date +%%s.%%N)" >> %s; exit 3' XCPU TERM
echo "S $1 $$ $(date +%%s.%%N) $(pwd) $(umask) $0" >> %s
sleep $2 &
wait $!
echo "E $1 $$ $(date +%%s.%%N)" >> %s
''' % (log, log, log))
os.chmod(job, 0o755)
err = open(W + '/echsd.err', 'w')
d = subprocess.Popen([B + '/echsd', '-n', '--pidfile=' + W + '/pid'], stderr=err, stdout=subprocess.DEVNULL)
ok = False
for _ in range(100):
    if 'echsd ready' in open(W + '/echsd.err').read(): ok = True; break
    time.sleep(0.1)
res = {'ready': ok, 'submit': [], 'log': [], 'files': {}}
if ok:
    t0 = int(time.time()) + plan['lead']
    res['t0'] = t0
    for k, t in enumerate(plan['tasks']):
        def stamp(s): return time.strftime('%Y%m%dT%H%M%SZ', time.gmtime(t0 + s))
        L = ['BEGIN:VCALENDAR', 'VERSION:2.0', 'BEGIN:VEVENT', 'UID:' + t['uid'], 'SUMMARY:%s %s %s' % (job, t['uid'], t['jobsecs']), 'DTSTART:' + stamp(t['start'])]
        if t.get('rdates'): L.append('RDATE:' + ','.join(stamp(s) for s in t['rdates']))
        if t.get('rrule'): L.append('RRULE:' + t['rrule'])
        if t.get('limit'): L.append('DURATION:PT%dS' % t['limit'])
        if t.get('maxsim'): L.append('X-ECHS-MAX-SIMUL:%d' % t['maxsim'])
        L += ['X-ECHS-MAIL-RUN:0', 'X-ECHS-MAIL-OUT:0', 'X-ECHS-MAIL-ERR:0'] + t.get('extra', []) + ['END:VEVENT', 'END:VCALENDAR', '']
        fn = '%s/t%d.ics' % (W, k); open(fn, 'w').write('\n'.join(L))
        cwd = t.get('cwd') or W
        os.makedirs(cwd, exist_ok=True)
        old = os.umask(t.get('umask', 0o22))
        p = subprocess.run([B + '/echsq', 'add', fn], cwd=cwd, capture_output=True, text=True, timeout=20)
        os.umask(old)
        res['submit'].append({'uid': t['uid'], 'rc': p.returncode, 'out': (p.stdout + p.stderr)[-300:]})
    if plan.get('kill_at'):
        # crash and restart: the daemon is killed outright after its periodic checkpoint and started again on the same spool
        time.sleep(max(0, t0 + plan['kill_at'] - time.time()))
        d.kill(); d.wait()
        res['killed_at'] = time.time() - t0
        time.sleep(max(0, t0 + plan['restart_at'] - time.time()))
        res['files_at_restart'] = {os.path.basename(fn): open(fn, errors='replace').read()[-6000:] for fn in glob.glob('/var/spool/echse/*') + glob.glob('/var/spool/echse/.*ics')}
        open(W + '/echsd.err', 'a').write('--- second life ---\n')
        err2 = open(W + '/echsd.err', 'a')
        d = subprocess.Popen([B + '/echsd', '-n', '--pidfile=' + W + '/pid'], stderr=err2, stdout=subprocess.DEVNULL)
        for _ in range(100):
            if 'echsd ready' in open(W + '/echsd.err').read().split('--- second life ---')[-1]: break
            time.sleep(0.1)
        res['restarted_at'] = time.time() - t0
    time.sleep(max(0, t0 + plan['horizon'] - time.time()))
    p = subprocess.run([B + '/echsq', 'list'], capture_output=True, text=True, timeout=20)
    res['list'] = p.stdout[-4000:]
d.send_signal(signal.SIGINT)
try: d.wait(timeout=15)
except subprocess.TimeoutExpired: d.kill()
res['daemon_rc'] = d.returncode
time.sleep(0.3)
for l in open(log):
    f = l.split()
    if f: res['log'].append(f)
for fn in glob.glob('/var/spool/echse/*') + glob.glob('/var/spool/echse/.*ics'):
    try: res['files'][os.path.basename(fn)] = open(fn, errors='replace').read()[-6000:]
    except Exception: pass
res['echsd_err'] = open(W + '/echsd.err').read()[-1500:]
json.dump(res, open(outf, 'w'))
