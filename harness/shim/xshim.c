/* xshim.so: LD_PRELOAD observation shim for the real echsx process (C13, C14).
 *  - posix_spawn("/usr/sbin/sendmail", ...) is redirected to $XSHIM_MAILER (a recorder)
 *  - alarm(n) is logged to $XSHIM_DIR/alarm.log (and really armed unless $XSHIM_NOALARM)
 *  - mkstemp() names are logged to $XSHIM_DIR/mkstemp.log
 * It observes; it never judges. */
#define _GNU_SOURCE
#include <dlfcn.h>
#include <spawn.h>
#include <stdio.h>
#include <stdlib.h>
#include <string.h>
#include <unistd.h>

static void logline(const char *file, const char *fmt, const char *s, long n)
{
	const char *d = getenv("XSHIM_DIR"); char p[4096];
	if (!d) return;
	snprintf(p, sizeof(p), "%s/%s", d, file);
	FILE *f = fopen(p, "a"); if (!f) return;
	fprintf(f, fmt, s, n); fclose(f);
}
int posix_spawn(pid_t *pid, const char *path, const posix_spawn_file_actions_t *fa, const posix_spawnattr_t *at, char *const argv[], char *const envp[])
{
	static int (*real)(pid_t*, const char*, const posix_spawn_file_actions_t*, const posix_spawnattr_t*, char *const[], char *const[]);
	if (!real) real = dlsym(RTLD_NEXT, "posix_spawn");
	const char *m = getenv("XSHIM_MAILER");
	if (m && !strcmp(path, "/usr/sbin/sendmail")) {
		/* the recorder needs the environment (it is given none by echsx) */
		char e1[4096], *env[] = { e1, NULL };
		snprintf(e1, sizeof(e1), "XSHIM_DIR=%s", getenv("XSHIM_DIR") ? getenv("XSHIM_DIR") : "/tmp");
		logline("spawn.log", "mail %s %ld\n", argv[0] ? argv[0] : "", 0);
		return real(pid, m, fa, at, argv, env);
	}
	logline("spawn.log", "job %s %ld\n", path, 0);
	return real(pid, path, fa, at, argv, envp);
}
unsigned int alarm(unsigned int n)
{
	static unsigned int (*real)(unsigned int);
	if (!real) real = dlsym(RTLD_NEXT, "alarm");
	if (n) logline("alarm.log", "%s%ld\n", "", (long)n);
	if (getenv("XSHIM_NOALARM")) return 0;
	return real(n);
}
int mkstemp(char *tmpl)
{
	static int (*real)(char*);
	if (!real) real = dlsym(RTLD_NEXT, "mkstemp");
	int fd = real(tmpl);
	logline("mkstemp.log", "%s %ld\n", tmpl, (long)fd);
	return fd;
}
