#!/bin/sh
# stands in for /usr/sbin/sendmail: stores what it is sent
n=$(ls "$XSHIM_DIR" 2>/dev/null | grep -c '^mail\.')
cat > "$XSHIM_DIR/mail.$n"
echo "$@" > "$XSHIM_DIR/mailargs.$n"
# a mailer that takes the message and fails all the same (exit code in $XSHIM_DIR/mailrc), e.g. EX_TEMPFAIL
exit $(cat "$XSHIM_DIR/mailrc" 2>/dev/null || echo 0)
