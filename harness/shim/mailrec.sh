#!/bin/sh
# stands in for /usr/sbin/sendmail: stores what it is sent
n=$(ls "$XSHIM_DIR" 2>/dev/null | grep -c '^mail\.')
cat > "$XSHIM_DIR/mail.$n"
echo "$@" > "$XSHIM_DIR/mailargs.$n"
exit 0
