"""Plumbing shared by all checks: build, TLC invocation, trace validation fan-out,
known-finding classification, evidence writing.  Nothing in here decides a
property: mismatch / no mismatch always comes out of a TLC run."""
import json, os, re, subprocess, sys, time, hashlib, shutil, tempfile, concurrent.futures as cf

VERIF = '/verif'
REPO = os.environ.get('VERIF_REPO', '/repo')
SPEC = f'{VERIF}/spec'
JAR = '/opt/veriftools/tla/tla2tools.jar:/opt/veriftools/tla/CommunityModules-deps.jar'
NCPU = int(os.environ.get('VERIF_NCPU', '16'))
# side runs (selftest, seeded changes in a scratch worktree) get their own work and evidence directories
TAG = os.environ.get('VERIF_WORKTAG', '')
EVID = f'{VERIF}/evidence' if not TAG else f'{VERIF}/work/evidence.{TAG}'


class Broken(Exception):
    """the check itself could not run (exit 2) - never a violation"""


def sh(cmd, timeout=None, check=True, env=None, cwd=None, stdin=None):
    p = subprocess.run(cmd, shell=isinstance(cmd, str), capture_output=True, text=True, timeout=timeout, env=env, cwd=cwd, input=stdin)
    if check and p.returncode != 0:
        raise Broken(f'command failed ({p.returncode}): {cmd}\n{p.stdout[-2000:]}\n{p.stderr[-2000:]}')
    return p


def build(flavour='plain'):
    p = subprocess.run([f'{VERIF}/harness/build.sh', flavour], capture_output=True, text=True, timeout=900)
    if p.returncode != 0:
        raise Broken('build of /repo/src failed:\n' + p.stderr[-4000:])
    return p.stdout.strip().split('\n')[-1]


def flags(B):
    d = {}
    for l in open(f'{B}/flags.sh'):
        k, v = l.rstrip('\n').split('=', 1)
        d[k] = v.strip('"')
    return d


def driver(B, name, extra_src=(), extra_flags='', libs='-lm'):
    """compile harness/drv/<name>.c against the objects of build B (cached inside B)"""
    out = f'{B}/{name}'
    srcs = [f'{VERIF}/harness/drv/{name}.c'] + [f'{VERIF}/harness/drv/{s}' for s in extra_src]
    deps = srcs + [f'{VERIF}/harness/drv/nd.h']
    stamp = hashlib.sha256(b''.join(open(s, 'rb').read() for s in deps if os.path.exists(s)) + extra_flags.encode()).hexdigest()[:16]
    if os.path.exists(out) and os.path.exists(out + '.stamp') and open(out + '.stamp').read() == stamp:
        return out
    f = flags(B)
    tmp = f'{out}.{os.getpid()}'
    cmd = f"gcc {f['CF']} {f['CPP']} -I{VERIF}/harness/drv {extra_flags} -o {tmp} {' '.join(srcs)} {B}/libechse.a {libs} {f['LF']}"
    p = subprocess.run(cmd, shell=True, capture_output=True, text=True)
    if p.returncode != 0:
        raise Broken(f'driver {name} does not compile against the current tree:\n{p.stderr[-4000:]}')
    os.replace(tmp, out)
    open(out + '.stamp', 'w').write(stamp)
    return out


def workdir(pid):
    d = f'{VERIF}/work/{pid}' + (f'.{TAG}' if TAG else '')
    shutil.rmtree(d, ignore_errors=True)
    os.makedirs(d, exist_ok=True)
    return d


def java_cmd(xmx='3g', xss='16m'):
    return ['java', '-XX:+UseSerialGC', f'-Xmx{xmx}', f'-Xss{xss}', '-cp', JAR, 'tlc2.TLC']


def tlc(module, cfg, metadir, env=None, workers=1, timeout=1800, extra=(), xmx='3g', cwd=SPEC):
    """run TLC; returns (rc, output).  rc: 0 ok, 12/13 = violation classes, others = error"""
    e = dict(os.environ)
    if env:
        e.update(env)
    shutil.rmtree(metadir, ignore_errors=True)
    cmd = java_cmd(xmx) + ['-workers', str(workers), '-metadir', metadir, '-noGenerateSpecTE', '-config', cfg] + list(extra) + [module]
    try:
        p = subprocess.run(cmd, capture_output=True, text=True, timeout=timeout, env=e, cwd=cwd)
    except subprocess.TimeoutExpired:
        raise Broken(f'TLC timed out after {timeout}s on {module}')
    finally:
        shutil.rmtree(metadir, ignore_errors=True)
    return p.returncode, p.stdout + p.stderr


def tlc_stats(out):
    m = re.search(r'(\d[\d,]*) states generated, (\d[\d,]*) distinct states found', out)
    if not m:
        return None
    return {'generated': int(m.group(1).replace(',', '')), 'distinct': int(m.group(2).replace(',', ''))}


def tlc_coverage(out):
    """per-action 'taken:generated' from -coverage 1 output (last report)"""
    cov = {}
    for m in re.finditer(r'<(\w+) line \d+, col \d+ to line \d+, col \d+ of module (\w+)(?: \([\d ]+\))?>: (\d+):(\d+)', out):
        cov[m.group(1)] = {'distinct': int(m.group(3)), 'generated': int(m.group(4))}
    return cov


def model_check(module, cfg, wd, workers=NCPU, timeout=1800, extra=(), xmx='8g', env=None):
    """E1: exhaustive TLC run.  Returns dict(states, transitions, coverage, ok, out)."""
    rc, out = tlc(module, cfg, f'{wd}/meta_{os.path.basename(cfg)}', env=env, workers=workers, timeout=timeout, extra=['-coverage', '1'] + list(extra), xmx=xmx)
    st = tlc_stats(out)
    ok = rc == 0 and 'No error has been found' in out
    viol = ('is violated' in out) or ('Temporal properties were violated' in out) or ('Deadlock reached' in out)
    if not ok and not viol:
        raise Broken(f'TLC failed on {module}/{cfg} rc={rc}:\n{out[-3000:]}')
    return {'ok': ok, 'states': st['distinct'] if st else 0, 'transitions': st['generated'] if st else 0,
            'coverage': tlc_coverage(out), 'out': out}


def apalache(module, args, wd, timeout=900):
    """one apalache-mc check run (symbolic, for inductive invariants over unbounded parameters); returns 'ok' / 'violated'; anything else is Broken"""
    out = f'{wd}/apalache-{abs(hash(tuple(args))) % 10 ** 8}'
    try:
        p = subprocess.run(['apalache-mc', 'check', '--out-dir=' + out] + list(args) + [module], capture_output=True, text=True, timeout=timeout, cwd=SPEC)
    except subprocess.TimeoutExpired:
        raise Broken(f'apalache-mc timed out after {timeout}s on {module}')
    finally:
        shutil.rmtree(out, ignore_errors=True)
    o = p.stdout + p.stderr
    if 'EXITCODE: OK' in o: return 'ok'
    if 'EXITCODE: ERROR (12)' in o: return 'violated'
    raise Broken(f'apalache-mc failed on {module} {args}:\n' + o[-2000:])


def split_lines(path, nparts, wd, prefix, min_lines=2000):
    """split an ndjson file into <= nparts chunk files of whole lines; returns [(file, first_line_no)]"""
    with open(path) as f:
        lines = f.readlines()
    n = len(lines)
    if n == 0:
        return []
    per = max(min_lines, -(-n // nparts))
    res = []
    for k, i in enumerate(range(0, n, per)):
        fn = f'{wd}/{prefix}.{k:03d}.ndjson'
        with open(fn, 'w') as g:
            g.writelines(lines[i:i + per])
        res.append((fn, i))
    return res


def validate_file(args):
    spec, cfg, trace, wd, tag, timeout, extra_env = args
    out = f'{trace}.verdict.json'
    if os.path.exists(out):
        os.unlink(out)
    env = {'TRACE': trace, 'OUT': out}
    env.update(extra_env or {})
    for attempt in (1, 2):
        rc, log = tlc(spec, cfg, f'{wd}/meta_{tag}', env=env, workers=1, timeout=timeout)
        if os.path.exists(out):
            try:
                v = json.load(open(out))
                v['_rc'] = rc
                return v
            except Exception:
                pass
    raise Broken(f'trace validation did not produce a verdict for {trace} (rc={rc}):\n{log[-3000:]}')


def validate(spec, cfg, chunks, wd, timeout=1800, par=NCPU, extra_env=None):
    """E2 fan-out.  chunks: [(file, offset)].  Returns dict(n, nbad, nskip, bad=[(file, local_line, global_line)])"""
    jobs = [(spec, cfg, fn, wd, f'v{k}', timeout, extra_env) for k, (fn, off) in enumerate(chunks)]
    tot = {'n': 0, 'nbad': 0, 'nskip': 0, 'bad': [], 'extra': []}
    with cf.ThreadPoolExecutor(max_workers=par) as ex:
        for (fn, off), v in zip(chunks, ex.map(validate_file, jobs)):
            tot['n'] += v.get('n', 0)
            tot['nbad'] += v.get('nbad', 0)
            tot['nskip'] += v.get('nskip', 0)
            for b in sorted(v.get('bad', [])):
                tot['bad'].append((fn, b, off + b))
            tot['extra'].append({k: v[k] for k in v if k not in ('n', 'nbad', 'nskip', 'bad', '_rc')})
    return tot


def getline(fn, k):
    with open(fn) as f:
        for i, l in enumerate(f, 1):
            if i == k:
                return l.rstrip('\n')
    return None


# ---------------- known findings ----------------

def load_findings(pid):
    p = f'{VERIF}/known_findings.json'
    if not os.path.exists(p):
        return []
    return [f for f in json.load(open(p))['findings'] if f['property'] == pid and f.get('status', 'open') == 'open']


def _match_val(v, cond):
    if isinstance(cond, dict):
        for op, x in cond.items():
            if op == 'ge' and not (isinstance(v, (int, float)) and v >= x): return False
            if op == 'le' and not (isinstance(v, (int, float)) and v <= x): return False
            if op == 'in' and v not in x: return False
            if op == 'ne' and v == x: return False
            if op == 'has' and not (isinstance(v, (list, str, dict)) and x in v): return False
            if op == 'present' and ((v is not None) != x): return False
            if op == 're' and not (isinstance(v, str) and re.search(x, v)): return False
        return True
    return v == cond


def _get(rec, path):
    cur = rec
    for part in path.split('.'):
        if isinstance(cur, dict):
            cur = cur.get(part)
        elif isinstance(cur, list):
            try:
                cur = cur[int(part)]
            except Exception:
                return None
        else:
            return None
    return cur


def finding_matches(f, rec, derived=None):
    """predicate over the INPUT fields of the failing record only"""
    w = f.get('where', {})
    src = dict(rec)
    if derived:
        src.update(derived)
    for path, cond in w.items():
        if not _match_val(_get(src, path), cond):
            return False
    return True


def classify(pid, badrecs, derive=None):
    """badrecs: list of (replay_path, record).  Returns (unlisted, listed_by_finding)"""
    fs = load_findings(pid)
    unlisted, listed = [], {}
    for path, rec in badrecs:
        d = derive(rec) if derive else None
        hit = None
        # a finding describes WHAT goes wrong for an input class; a record of that class in which the real code died, ran out of
        # time, or broke another clause of the contract than the one the finding is about is not that finding
        other = any(k in rec for k in ('crash', 'timeout', 'died')) or bool(rec.get('other_clause'))
        for f in fs:
            if other and not f.get('covers_any_failure'): continue
            if finding_matches(f, rec, d):
                hit = f
                break
        if hit is None:
            unlisted.append((path, rec))
        else:
            listed.setdefault(hit['id'], []).append((path, rec))
    return unlisted, listed


# ---------------- evidence / verdict ----------------

def write_evidence(pid, tier, seed, level, coverage, wall, violations, assumptions=()):
    os.makedirs(EVID, exist_ok=True)
    ev = {'property_id': pid, 'tier': tier, 'seed': int(seed), 'level': level, 'coverage': coverage,
          'assumptions': list(assumptions), 'wall_s': round(wall, 1), 'violations': int(violations)}
    tmp = f'{EVID}/{pid}.json.tmp'
    json.dump(ev, open(tmp, 'w'), indent=1, default=str)
    os.replace(tmp, f'{EVID}/{pid}.json')


def save_replay(pid, name, content):
    d = f'{VERIF}/work/{pid}' + (f'.{TAG}' if TAG else '') + '/replay'
    os.makedirs(d, exist_ok=True)
    p = f'{d}/{name}'
    with open(p, 'w') as f:
        f.write(content if isinstance(content, str) else json.dumps(content))
    return p


def finish(pid, tier, seed, level, coverage, t0, unlisted, listed, assumptions=()):
    """print KNOWN-FINDING / VIOLATION lines, write evidence, return exit code"""
    fs = {f['id']: f for f in load_findings(pid)}
    for fid, recs in listed.items():
        print(f"KNOWN-FINDING: property={pid} {fid}: {fs[fid]['what']} ({len(recs)} occurrences this run)")
    coverage = dict(coverage)
    coverage['known_findings_reobserved'] = {fid: len(r) for fid, r in listed.items()}
    seen = set()
    for path, rec in unlisted[:20]:
        if path in seen:
            continue
        seen.add(path)
        print(f'VIOLATION property={pid} replay={path}')
    coverage['violations_unlisted'] = len(unlisted)
    write_evidence(pid, tier, seed, level, coverage, time.time() - t0, len(unlisted), assumptions)
    return 1 if unlisted else 0
