"""C05 - tasks are read as written and survive serialisation unchanged"""
import time, json, random, os, re, subprocess, datetime as D, concurrent.futures as cf
import vlib, rrgen

PID = 'C05'
UNSET = '<unset>'

def ical_escape(v):
    return v.replace('\\', '\\\\').replace(';', '\;').replace(',', '\\,').replace('\n', '\\n')

WORDS = ['echo', 'run', '/usr/local/bin/job', '--flag', 'x=1', 'a b', 'report', 'backup.sh', '2>&1', '|', 'tee', '/var/log/x.log', '&&', 'true', '"quoted"', "'single'", '$HOME', '~', '100%', '#c']
SPECIAL = [', ', '; ', '\\', ':', ',', ';x', '\\n']

def text_value(rnd, special, long_):
    n = rnd.randint(1, 5)
    v = ' '.join(rnd.choice(WORDS) for _ in range(n))
    if special: v += rnd.choice(SPECIAL) + rnd.choice(WORDS)
    if long_:
        # the unescaped, unfolded line stays within the 1 KiB limit; its raw form (escapes, folding) may well exceed it
        if special: v += ' ' + ''.join(rnd.choice(['q', 'q', 'q', 'q', 'q', 'q', 'q', ',', ';']) for _ in range(max(0, rnd.choice([700, 900, 980]) - len(v))))
        else: v += ' ' + 'p' * max(0, rnd.choice([700, 900, 960, 1000]) - len(v) - 12)
    return v

def path_value(rnd, special):
    v = '/' + '/'.join(rnd.choice(['tmp', 'var', 'home', 'alice', 'spool', 'out.txt', 'in', 'x-y_z', 'dir with space']) for _ in range(rnd.randint(1, 4)))
    if special: v += rnd.choice([',v', ';1', '\\x'])
    return v

def make_fields(rnd, uid):
    """event-level and calendar-level properties: (name, text as written, value the reader must see)"""
    special = rnd.random() < 0.12; long_ = rnd.random() < 0.06
    ev = [('UID', None, uid), ('SUMMARY', None, text_value(rnd, special, long_))]
    def opt(p, name, gen):
        if rnd.random() < p:
            v = gen(); ev.append((name, None, v))
            if rnd.random() < 0.1: ev.append((name, None, gen()))          # a second one: the first wins
    opt(0.5, 'LOCATION', lambda: path_value(rnd, special and rnd.random() < 0.5))
    opt(0.4, 'X-ECHS-SHELL', lambda: rnd.choice(['/bin/sh', '/bin/bash', '/usr/bin/zsh', '/bin/dash']))
    opt(0.3, 'X-ECHS-IFILE', lambda: path_value(rnd, False))
    opt(0.35, 'X-ECHS-OFILE', lambda: path_value(rnd, special and rnd.random() < 0.3))
    opt(0.3, 'X-ECHS-EFILE', lambda: path_value(rnd, False))
    opt(0.25, 'DESCRIPTION', lambda: text_value(rnd, special, False))
    for name in ('X-ECHS-MAIL-OUT', 'X-ECHS-MAIL-ERR', 'X-ECHS-MAIL-RUN'):
        if rnd.random() < 0.4:
            b = rnd.choice([0, 1]); ev.append((name, rnd.choice(['0', 'false', 'F']) if b == 0 else rnd.choice(['1', 'true', 'yes', '2']), b))
    if rnd.random() < 0.35:
        a = 'boss@example.com' if not special else rnd.choice(['boss\\admin@example.com', 'a,b@example.com', 'x;y@example.com'])
        ev.append(('ORGANIZER', rnd.choice(['mailto:', '']) + ical_escape(a), a))
    # now and then a crowd of attendees: the written task is longer than the 4 KiB buffer of the writer
    for _ in range(rnd.choice([0, 0, 1, 2, 3]) if rnd.random() < 0.93 else rnd.randint(40, 220)):
        a = 'u%d@example.org' % rnd.randint(1, 99)
        if special and rnd.random() < 0.5: a = rnd.choice(['u\\%d', 'u,%d', 'u;%d']) % rnd.randint(1, 99) + '@example.org'
        ev.append(('ATTENDEE', rnd.choice(['mailto:', '']) + ical_escape(a), a))
    cal = []
    def num(lst, name, p, gen, fmt):
        if rnd.random() < p:
            v = gen(); lst.append((name, fmt(v), v))
    for lst, p in ((ev, 0.3), (cal, 0.25)):
        num(lst, 'X-ECHS-UMASK', p, lambda: rnd.choice([0, 0o22, 0o27, 0o77, 0o777, 0o2, 0o177]), lambda v: rnd.choice(['%o', '0%o', '%03o']) % v)
        num(lst, 'X-ECHS-MAX-SIMUL', p, lambda: rnd.choice([0, 1, 2, 3, 10, 61, 62]), str)
        num(lst, 'X-ECHS-OWNER', p, lambda: rnd.choice([0, 1000, 1001, 65534]), str)
        if rnd.random() < p: v = rnd.choice([1000, 1001, 'alice', 'bob', 0]); lst.append(('X-ECHS-SETUID', str(v), v))
        if rnd.random() < p: v = rnd.choice([100, 1001, 'staff', 'users']); lst.append(('X-ECHS-SETGID', str(v), v))
    body = ev[1:]; rnd.shuffle(body)
    ev = [ev[0]] + body if rnd.random() < 0.8 else body[:len(body) // 2] + [ev[0]] + body[len(body) // 2:]
    return ev, cal, special, long_

def fold(line, rnd):
    """RFC 5545 3.1 line folding of long lines (CRLF + one space every 75 octets), on some of them"""
    if len(line) <= 75 or rnd.random() < 0.5: return line
    parts = [line[:75]] + [line[i:i + 74] for i in range(75, len(line), 74)]
    return '\r\n '.join(parts)

def lines_of(fields, rnd=None):
    L = ['%s:%s' % (n, t if t is not None else ical_escape(v)) for n, t, v in fields]
    return [fold(l, rnd) for l in L] if rnd else L

def schedule(rnd):
    """(ds, dtstart line, schedule lines, descriptor) over the whole input language"""
    kind = rnd.choice(['rule', 'rule', 'rule', 'rules', 'rdate', 'rule+rdate', 'rule+ex', 'ext', 'tz', 'single'])
    if kind == 'ext':
        # the extensions on rules whose meaning is defined (C17 generators) and the calendar scales; combinations the RFC
        # forbids (ordinals below MONTHLY, BYWEEKNO outside YEARLY, ...) are exercised by C16/C09, not here
        x = rnd.random()
        if x < 0.45: ds, r, tag = rrgen.shift_case(rnd, inter1=rnd.random() < 0.8)
        elif x < 0.7: ds, r, tag = rrgen.easter_case(rnd, rnd.sample(range(-60, 200), rnd.randint(1, 2)), shifted=rnd.random() < 0.3)
        else:
            ds, r, tag = rrgen.random_case(rnd, ['YEARLY', 'MONTHLY']); r['pos'] = []
            for kk in ('wk', 'yd', 'dow'): r[kk] = []
        rt = rrgen.rule_text(r)
        if x >= 0.7: rt += ';SCALE=' + rnd.choice(rrgen.HIJRI)
        timed = len(ds) > 3
        L = [('DTSTART;VALUE=DATE:' if not timed else 'DTSTART:') + rrgen.dt_text(ds), 'RRULE:' + rt]
        return L, {'kind': kind, 'rtext': rt, 'tz': False, 'timed': timed}
    ds, r, tag = rrgen.random_case(rnd)
    timed = len(ds) > 3
    if rnd.random() < 0.3 and timed: r['M'] = sorted(set(r['M'] + rnd.sample([31, 32, 45, 59], 2)))[:4] if r['freq'] not in ('MINUTELY', 'SECONDLY') else r['M']
    if rnd.random() < 0.2 and timed and r['freq'] != 'SECONDLY': r['S'] = sorted(set(r['S'] + rnd.sample([31, 44, 59], 2)))[:3]
    tz = rnd.choice(rrgen.ZONES) if kind == 'tz' and timed else None
    if tz and ds[0] > 2024: ds = (rnd.randint(2001, 2022), ds[1], min(ds[2], 28)) + tuple(ds[3:])     # zone files carry transitions up to 2037
    L = ['DTSTART;TZID=%s:%s' % (tz, rrgen.dt_text(ds, z=False)) if tz else ('DTSTART;VALUE=DATE:' if not timed else 'DTSTART:') + rrgen.dt_text(ds)]
    rt = [rrgen.rule_text(r)]
    if kind == 'rules':
        r2 = rrgen.blank(rnd.choice(['YEARLY', 'MONTHLY', 'WEEKLY', 'DAILY']), rnd.choice([1, 2, 3])); rrgen.sync_parts(rnd, r2['freq'], D.date(*ds[:3]), r2, rnd.choice(rrgen.SHAPES[r2['freq']])); r2['pos'] = []
        rrgen.add_limit(rnd, ds, r2); rt.append(rrgen.rule_text(r2))
    def near(days):
        d = D.date(*ds[:3]) + D.timedelta(days); return (d.year, d.month, d.day) + tuple(ds[3:])
    if kind != 'rdate' and kind != 'single': L += ['RRULE:' + x for x in rt]
    if kind in ('rdate', 'rule+rdate'):
        vals = sorted(set(near(rnd.randint(1, 900)) for _ in range(rnd.choice([1, 2, 3, 6, 6, 40, 70, 150]))))
        for a in range(0, len(vals), 45):          # several RDATE lines, each within the line limit
            L.append(('RDATE:' if timed else 'RDATE;VALUE=DATE:') + ','.join(rrgen.dt_text(v) for v in vals[a:a + 45]))
    if kind == 'rule+ex':
        if rnd.random() < 0.6: L.append(('EXDATE:' if timed else 'EXDATE;VALUE=DATE:') + ','.join(rrgen.dt_text(near(x)) for x in sorted(rnd.sample(range(0, 60), 3))))
        else: L.append('EXRULE:FREQ=WEEKLY;BYDAY=%s' % rrgen.WD[D.date(*ds[:3]).weekday()])
    if rnd.random() < 0.3:
        # (spans of whole weeks plus a time part, of days and hours, of more than a month among them)
        L.append('DURATION:' + (rnd.choice(['PT1S', 'PT30S', 'PT5M', 'PT1H', 'P7DT2H', 'P1W', 'P14DT12H30M', 'P2DT3H4M5S', 'PT36H', 'P35DT1S', 'P1DT1H', 'PT10S', 'PT12M', 'P100D']) if timed else rnd.choice(['P1D', 'P7D', 'P2W', 'P10D'])))
    return L, {'kind': kind, 'rtext': ' | '.join(rt) if kind not in ('rdate', 'single') else '', 'tz': bool(tz), 'timed': timed}

def enc(v):
    """TLC compares strings with strings only: numbers travel as '#<n>'"""
    return '#%d' % v if isinstance(v, int) and not isinstance(v, bool) else v

def norm_task(t):
    if not isinstance(t, dict): return {'occ': [], 'absent': True}
    o = {}
    if t.get('umsk') == 1023: t['umsk'] = UNSET
    if t.get('max_simul') == 63: t['max_simul'] = UNSET
    for k, v in t.items():
        if v == '\x00': v = UNSET
        o[k] = enc(v) if k not in ('occ', 'eos', 'strm', 'env', 'att') else v
    o.setdefault('occ', [])
    return o

def shift_displacement(rt):
    """upper bound in days of what the SHIFT parts of the rule text move a date by (as C17 measures it): |days| + |business days| * 7 / 5 + 4"""
    m = 0
    for t in re.findall(r'SHIFT=([^;| ]*)', rt):
        d = 0
        for part in t.split(','):
            x = re.match(r'^([-+]?\d+)(B?)', part)
            if not x: continue
            n = abs(int(x.group(1)))
            d += n * 7 // 5 + 4 if x.group(2) else n
        m = max(m, d)
    return m

def derive(rec):
    rt = rec.get('sched', {}).get('rtext', '')
    inter2 = any(int(x) >= 2 for x in re.findall(r'INTERVAL=(\d+)', rt))
    frame = bool(re.search(r'BYHOUR|BYMINUTE|BYSECOND|BYDAY|FREQ=(WEEKLY|HOURLY|MINUTELY|SECONDLY)', rt))
    return {'abs_displacement': shift_displacement(rt), 'displaced': 'SHIFT' in rt or 'BYEASTER' in rt, 'interval_ge2': inter2, 'has_weekno': 'BYWEEKNO' in rt, 'tz_frame_sensitive': bool(rec.get('sched', {}).get('tz')) and frame, 'kind': rec.get('sched', {}).get('kind'), 'special_chars': rec.get('special'), 'long_value': rec.get('long'), 'k': rec.get('k'), 'tz': rec.get('sched', {}).get('tz'),
            'has_pos': 'BYSETPOS' in rec.get('sched', {}).get('rtext', ''), 'has_shift': 'SHIFT' in rec.get('sched', {}).get('rtext', ''), 'has_scale': 'SCALE' in rec.get('sched', {}).get('rtext', ''),
            'has_easter': 'BYEASTER' in rec.get('sched', {}).get('rtext', ''), 'nrules': rec.get('sched', {}).get('rtext', '').count('|') + 1}

def run(tier, seed):
    t0 = time.time()
    wd = vlib.workdir(PID)
    fl = 'asan'
    B = vlib.build(fl); os.environ['ASAN_OPTIONS'] = 'detect_leaks=0:exitcode=99'
    drv = vlib.driver(B, 'drv_rt', libs='-lltdl -lm -ldl')
    rnd = random.Random(seed)
    e1 = vlib.model_check('RuleStreamE1.tla', 'RuleStreamE1_4.cfg', wd, workers=4)
    if not e1['ok']:
        raise vlib.Broken('RuleStreamE1 failed:\n' + e1['out'][-2000:])
    n = 40000 if tier == 'thorough' else 1600
    cases = []
    for i in range(n):
        uid = 'j%d' % i + ''.join(rnd.choice('abcdefghij-') for _ in range(rnd.choice([0, 1, 2, 3, 4, 5, 6, 7, 8, 9, 12, 13, 16, 29])))       # unique, of every length modulo 4
        if rnd.random() < 0.05: uid += rnd.choice(['\\x', ',y', ';z', '\\', ',', ' @host'])                                                # characters the text form escapes
        ev, cal, special, long_ = make_fields(rnd, uid)
        sl, sd = schedule(rnd)
        evl = lines_of(ev, rnd); pos = rnd.randint(0, len(evl)); body = evl[:pos] + sl + evl[pos:] if rnd.random() < 0.5 else sl + evl
        text = '\n'.join(['BEGIN:VCALENDAR', 'VERSION:2.0'] + lines_of(cal) + ['BEGIN:VEVENT'] + body + ['END:VEVENT', 'END:VCALENDAR', ''])
        k = rnd.choice([0, 0, 1, 2, 5, 30, 62, 63, 64, 65, 70, 127, 128, 130, 200])
        cases.append({'k': k, 'm': 20, 'text': text, 'first': rnd.random() < 0.5, 'ev': [{'n': a, 'v': enc(c)} for a, b, c in ev], 'cal': [{'n': a, 'v': enc(c)} for a, b, c in cal], 'sched': sd, 'special': special, 'long': long_})
    # one fat task (long file names and command, every numeric field, a rule with BY lists and COUNT) written out with a DESCRIPTION of
    # every length in a run of consecutive values: the written text crosses the writer's 4 KiB buffer at every alignment
    for L in range(200, 720):
        uid = 'sw%d' % L
        ev = [('UID', None, uid), ('SUMMARY', None, '/usr/local/bin/job ' + 'a' * 700), ('LOCATION', None, '/srv/' + 'd' * 800), ('X-ECHS-OFILE', None, '/var/log/' + 'o' * 780),
              ('X-ECHS-EFILE', None, '/var/log/' + 'e' * 790), ('X-ECHS-IFILE', None, '/srv/in/' + 'i' * 400), ('DESCRIPTION', None, 'x' * L),
              ('X-ECHS-UMASK', '027', 0o27), ('X-ECHS-MAIL-RUN', '1', 1), ('X-ECHS-MAIL-OUT', '1', 1), ('X-ECHS-MAIL-ERR', '0', 0), ('X-ECHS-MAX-SIMUL', '3', 3)]
        rt = 'FREQ=MONTHLY;BYMONTHDAY=1,5,10,15,20,25;BYHOUR=1,2,3;COUNT=40'
        sl = ['DTSTART:20300101T010000Z', 'RRULE:' + rt]; sd = {'kind': 'rule', 'rtext': rt, 'tz': False, 'timed': True}
        text = '\n'.join(['BEGIN:VCALENDAR', 'VERSION:2.0', 'BEGIN:VEVENT'] + sl + lines_of(ev) + ['END:VEVENT', 'END:VCALENDAR', ''])
        cases.append({'k': rnd.choice([0, 0, 1, 5]), 'm': 45, 'text': text, 'first': True, 'ev': [{'n': a, 'v': enc(c)} for a, b, c in ev], 'cal': [], 'sched': sd, 'special': False, 'long': True})
    n = len(cases)
    nsl = vlib.NCPU; per = -(-n // nsl)
    def sl_(j):
        part = cases[j * per:(j + 1) * per]
        # half of the cases are not the first task of their owner's queue: another task (the previous case, given this one's owner) leads the file
        def other(i, c):
            if c['first'] or i == 0: return ''
            o = part[i - 1]['text']
            own = [f['v'] for f in c['ev'] + c['cal'] if f['n'] == 'X-ECHS-OWNER']
            o = '\n'.join(l for l in o.split('\n') if not l.startswith('X-ECHS-OWNER'))
            if own: o = o.replace('BEGIN:VEVENT', 'BEGIN:VEVENT\nX-ECHS-OWNER:' + own[0][1:], 1)
            return rrgen.esc(o)
        work = ''.join('%d\t%d\t%d\t%s\t%s\n' % (i, c['k'], c['m'], rrgen.esc(c['text']), other(i, c)) for i, c in enumerate(part))
        out = {}; start = 0; lines = work.split('\n')
        while start < len(part):
            try:
                p = subprocess.run([drv, '5', f'{wd}/rt{j}.tmp'], input='\n'.join(lines[start:len(part)]) + '\n', capture_output=True, text=True, timeout=600); rc = p.returncode; so = p.stdout; se = p.stderr
            except subprocess.TimeoutExpired as e:
                rc = -99; so = (e.stdout or b'').decode() if isinstance(e.stdout, bytes) else (e.stdout or ''); se = ''
            got = start
            for l in so.split('\n'):
                try: r = json.loads(l)
                except Exception: continue
                out[r['id']] = r; got = r['id'] + 1
            if got >= len(part): break
            rep = ' | '.join(x.strip() for x in se.split('\n') if 'ERROR: AddressSanitizer' in x or 'runtime error' in x or 'SUMMARY:' in x)[:500]
            out[got] = {'id': got, 'crash': rc, 'report': rep}; start = got + 1
        res = []
        for i, c in enumerate(part):
            r = {x: c[x] for x in ('k', 'ev', 'cal', 'sched', 'special', 'long', 'first')}; r['input'] = c['text']
            o = out.get(i, {'crash': -1}); o.pop('id', None); o.pop('k', None); o.pop('m', None)
            r.update(o)
            if 'a' in r: r['a'] = norm_task(r['a'])
            if 'b' in r: r['has_b'] = isinstance(r['b'], dict); r['b'] = norm_task(r['b'])
            r['beyond_zone_data'] = bool(c['sched'].get('tz')) and any(o[0][0] >= 2037 for o in (r.get('a') or {}).get('occ', []))
            res.append(r)
        return res
    with cf.ThreadPoolExecutor(max_workers=nsl) as ex:
        recs = [r for part in ex.map(sl_, range(nsl)) for r in part]
    trace = f'{wd}/rt.ndjson'
    with open(trace, 'w') as f:
        for r in recs: f.write(json.dumps(r) + '\n')
    chunks = vlib.split_lines(trace, vlib.NCPU, wd, 'rt', min_lines=50)
    v = vlib.validate('TraceRT.tla', 'TraceRT.cfg', chunks, wd, timeout=3000)
    bad = []
    other = {fn: set(x.get('other', [])) for (fn, _), x in zip(chunks, v['extra'])}
    for fn, k, g in v['bad'][:3000]:
        rec = json.loads(vlib.getline(fn, k))
        if k in other.get(fn, ()): rec['other_clause'] = True      # not (only) the occurrences read back: no known finding is about that
        bad.append((vlib.save_replay(PID, f'case{g}.json', rec), rec))
    unlisted, listed = vlib.classify(PID, bad, derive)
    import collections
    kinds = collections.Counter(r['sched']['kind'] for r in recs)
    cov = {'states': e1['states'], 'transitions': e1['transitions'], 'traces_validated_against_impl': len(recs),
           'samples': [{'k': recs[i]['k'], 'sched': recs[i]['sched'], 'ev': recs[i]['ev'][:4]} for i in (0, 1, 2)],
           'evaluations': len(recs), 'distinct_nontrivial': len(set(r['input'] for r in recs if isinstance(r.get('b'), dict) and r['b'].get('occ'))),
           'rule': 'one case = one event text: a random subset of every README field (UID, SUMMARY, LOCATION, X-ECHS-SHELL/-IFILE/-OFILE/-EFILE, mail flags, ORGANIZER, ATTENDEEs, DESCRIPTION, X-ECHS-UMASK/-MAX-SIMUL/-OWNER/-SETUID/-SETGID at event and/or calendar level, repeated single-valued fields, values with , ; \\ and values near the 1 KiB line limit) in random order around a schedule (single rule of any FREQ incl. BYSETPOS and BYMINUTE/BYSECOND >= 31, several RRULEs, RDATE lists, RDATE+RRULE, EXDATE/EXRULE, TZID, SHIFT/BYEASTER/SCALE, DURATION). The real parser reads it (attributes + first k+20 occurrences), a second instance consumes k in {0,1,2,5,30,62..65,70,127..130,200} occurrences and is written out by echs_icalify_init/echs_task_icalify/echs_icalify_fini (what echsd checkpoints and echsq submits), and the text is read back (attributes + 20 occurrences)',
           'schedule_kinds': dict(kinds), 'with_special_chars': sum(1 for r in recs if r['special']), 'with_long_values': sum(1 for r in recs if r['long']), 'with_calendar_level_defaults': sum(1 for r in recs if r['cal']),
           'mismatching_cases': v['nbad'], 'skipped_zoned_beyond_2037': v['nskip'], 'build': fl, 'exhaustive': False}
    return vlib.finish(PID, tier, seed, 'model_checking', cov, t0, unlisted, listed,
                       ['TLC/SANY, Json/IOUtils', 'the generator renders each property both as the text written and as the value the reader must see (iCalendar TEXT escaping of , ; \\ by the rule of RFC 5545 3.3.11)',
                        'the echsq client-side massage() defaults (cwd, shell, umask of the submitting user) and echse merge are not exercised: the library entry points they call are'])
