"""C10 - iCalendar parsing is independent of how the bytes arrive"""
import time, json, random, collections, subprocess, os, glob
import vlib

PID = 'C10'

def fold(line, col):
    out = []
    while len(line) > col:
        out.append(line[:col]); line = b' ' + line[col:]
    out.append(line)
    return out

def gen_calendars(rnd, tier):
    cals = []
    files = sorted(glob.glob(vlib.REPO + '/test/*.ics'))
    if tier != 'thorough':
        files = rnd.sample(files, min(25, len(files)))
    for f in files:
        b = open(f, 'rb').read()
        if 0 < len(b) <= 6000: cals.append(('file:' + os.path.basename(f), b))
    base = [b'BEGIN:VCALENDAR', b'VERSION:2.0', b'X-ECHS-MAIL-OUT:1', b'X-ECHS-SETUID:alice', b'X-ECHS-SETGID:staff', b'X-ECHS-OWNER:carol', b'BEGIN:VEVENT', b'UID:u-fold@example', b'SUMMARY:echo one two three four five six seven',
            b'LOCATION:/tmp', b'DESCRIPTION:some\\, description\; with \\\\ escapes\\nand newline', b'ATTENDEE:mailto:a@example.com', b'ATTENDEE:mailto:b@example.com',
            b'DTSTART:20300101T000000Z', b'DURATION:PT5M', b'RRULE:FREQ=MONTHLY;BYMONTHDAY=1,15;COUNT=9', b'EXDATE:20300115T000000Z', b'X-ECHS-OFILE:/tmp/out', b'X-ECHS-UMASK:0027',
            b'END:VEVENT', b'BEGIN:VEVENT', b'UID:u-second', b'SUMMARY:true', b'DTSTART;VALUE=DATE:20300201', b'RRULE:FREQ=YEARLY', b'END:VEVENT', b'END:VCALENDAR']
    for eol in (b'\r\n', b'\n'):
        cals.append(('gen:plain' + ('crlf' if eol == b'\r\n' else 'lf'), eol.join(base) + eol))
        for col in ([3, 8, 20, 75] if tier != 'thorough' else range(2, 40)):
            L = []
            for l in base:
                L += fold(l, col) if (l.startswith(b'SUMMARY') or l.startswith(b'DESCRIPTION') or l.startswith(b'RRULE')) else [l]
            cals.append(('gen:fold%d' % col + ('crlf' if eol == b'\r\n' else 'lf'), eol.join(L) + eol))
    for n in ([1000, 1015, 1023, 1024, 1030, 1100] if tier == 'thorough' else [1015, 1030]):
        long = [b'SUMMARY:' + b'x' * (n - 8) if l.startswith(b'SUMMARY') else l for l in base]
        cals.append(('gen:long%d' % n, b'\n'.join(long) + b'\n'))
    # an overlong line whose far end reads like a property: a piece that begins there must still be part of the line being dropped
    inj = []
    for l in base:
        if l.startswith(b'SUMMARY'): inj.append(b'DESCRIPTION:' + b'x' * 1040 + b'SUMMARY:/bin/injected ' + b'y' * 9)
        inj.append(l)
    cals.append(('gen:longtail', b'\r\n'.join(inj) + b'\r\n'))
    # streams of several calendars (RFC 5545 3.4: objects can be grouped sequentially in one stream; echsd answers a request that
    # arrived in pieces with several reply calendars, echsq reads them as they come), with different things between them
    def cal(meth, evs):
        L = [b'BEGIN:VCALENDAR', b'VERSION:2.0'] + ([b'METHOD:' + meth] if meth else [])
        for u, extra in evs: L += [b'BEGIN:VEVENT', b'UID:' + u] + extra + [b'END:VEVENT']
        return L + [b'END:VCALENDAR']
    pub1 = cal(b'PUBLISH', [(b'm-a', [b'SUMMARY:echo a', b'DTSTART:20300101T000000Z', b'RRULE:FREQ=DAILY;COUNT=3'])])
    pub2 = cal(None, [(b'm-b', [b'SUMMARY:echo b', b'DTSTART:20300201T000000Z']), (b'm-c', [b'SUMMARY:echo c', b'DTSTART;VALUE=DATE:20300301'])])
    canc = cal(b'CANCEL', [(b'm-a', [])])
    rpl1 = cal(b'REPLY', [(b'm-a', [b'REQUEST-STATUS:2.0;Success'])])
    rpl2 = cal(b'REPLY', [(b'm-b', [b'REQUEST-STATUS:5.1;Service unavailable']), (b'm-c', [b'REQUEST-STATUS:2.0;Success'])])
    # events the reader has no instruction for (a REPLY with a status other than 2.x / 5.x, METHOD:ADD, REFRESH, COUNTER) among others
    rpl3 = cal(b'REPLY', [(b'm-a', [b'REQUEST-STATUS:3.1;Invalid property value']), (b'm-b', [b'REQUEST-STATUS:2.0;Success']), (b'm-c', [b'REQUEST-STATUS:2.0;Success'])])
    rpl4 = cal(b'REPLY', [(b'm-a', [b'REQUEST-STATUS:2.0;Success']), (b'm-b', []), (b'm-c', [b'REQUEST-STATUS:4.0;Event conflict']), (b'm-d', [b'REQUEST-STATUS:5.1;Service unavailable'])])
    rpl5 = cal(b'REPLY', [(b'm-a', [b'REQUEST-STATUS:2.0;Success']), (b'm-b', [b'REQUEST-STATUS:3.1;Invalid property value'])])       # the last event is one without instruction
    addc = cal(b'ADD', [(b'm-x', [b'SUMMARY:echo x', b'DTSTART:20300101T000000Z'])])
    cntr = cal(b'COUNTER', [(b'm-y', [b'SUMMARY:echo y', b'DTSTART:20300101T000000Z']), (b'm-z', [b'SUMMARY:echo z', b'DTSTART:20300102T000000Z'])])
    combos = [[pub1, pub2], [rpl1, rpl2, rpl1], [pub1, canc, pub2], [rpl2, rpl1], [canc, canc, pub1], [rpl3], [rpl4, rpl1], [addc, pub1], [pub2, cntr, pub1], [rpl3, rpl4], [rpl3, pub1], [rpl4, pub2, canc], [rpl5, pub1], [rpl5, pub2, rpl5, canc]]
    seps = [b'', b'\n', b'\r\n', b'X-JUNK:between\n', b'\n\n \n', b'END:VCALENDAR\n', b'SUMMARY:stray\n']
    k = 0
    for combo in combos:
        for sep in (seps if tier == 'thorough' else rnd.sample(seps, 3) + [b'']):
            for eol in (b'\n', b'\r\n'):
                if tier != 'thorough' and eol == b'\r\n' and k % 2: k += 1; continue
                cals.append(('gen:multi%d' % k, sep.join(eol.join(c) + eol for c in combo))); k += 1
    # components the reader skips (VTIMEZONE with its sub-components before the events, a VALARM inside an event, VJOURNAL/VFREEBUSY
    # between them), with lines that look like property lines of events, a folded line and BEGIN/END lines of their own: what follows
    # them is read as if they were not there, wherever the pieces end
    tzc = [b'BEGIN:VTIMEZONE', b'TZID:Europe/Berlin', b'BEGIN:STANDARD', b'DTSTART:19701025T030000', b'RRULE:FREQ=YEARLY;BYMONTH=10;BYDAY=-1SU', b'TZOFFSETFROM:+0200', b'TZOFFSETTO:+0100', b'END:STANDARD',
           b'BEGIN:DAYLIGHT', b'DTSTART:19700329T020000', b'TZNAME:CEST', b'END:DAYLIGHT', b'X-LIC-LOCATION:Europe/Berlin', b'END:VTIMEZONE']
    alarm = [b'BEGIN:VALARM', b'ACTION:DISPLAY', b'DESCRIPTION:Begin of the end', b'TRIGGER:-PT15M', b'END:VALARM']
    jour = [b'BEGIN:VJOURNAL', b'UID:j-1', b'DTSTART:20300101T000000Z', b'SUMMARY:End of', b' the year', b'END:VJOURNAL']
    ev1 = [b'BEGIN:VEVENT', b'UID:f-1', b'SUMMARY:echo f1', b'DTSTART:20300101T000000Z', b'RRULE:FREQ=DAILY;COUNT=2']
    ev2 = [b'BEGIN:VEVENT', b'UID:f-2', b'SUMMARY:echo f2', b'DTSTART;VALUE=DATE:20300201', b'END:VEVENT']
    fcs = [[b'BEGIN:VCALENDAR', b'VERSION:2.0'] + tzc + ev1 + [b'END:VEVENT'] + ev2 + [b'END:VCALENDAR'],
           [b'BEGIN:VCALENDAR', b'VERSION:2.0'] + ev1 + alarm + [b'END:VEVENT'] + jour + ev2 + [b'END:VCALENDAR'],
           [b'BEGIN:VCALENDAR', b'METHOD:PUBLISH'] + ev2 + tzc + jour + ev1 + alarm + [b'LOCATION:/tmp', b'END:VEVENT', b'END:VCALENDAR']]
    for i, fc in enumerate(fcs if tier == 'thorough' else rnd.sample(fcs, 2)):
        for eol in (b'\n', b'\r\n'):
            cals.append(('gen:foreign%d' % i + ('crlf' if eol == b'\r\n' else 'lf'), eol.join(fc) + eol))
    # control characters and bytes above 127 inside values (the reader keeps marks of its own in its line buffer: no byte of the input
    # may be taken for one), short lines before long ones so that a cut in a long line falls where a short one had such a byte
    for i, ctl in enumerate([b'\x01', b'\x02', b'\x7f', b'\xc3\xa4', b'\x01\x01']):
        L = [b'BEGIN:VCALENDAR', b'VERSION:2.0', b'BEGIN:VEVENT', b'UID:ctl-%d' % i]
        for k in (3, 9, 14, 22):
            L.append(b'X-N%d:' % k + b'abcdefghijklmnopqrstuvwxyz'[:max(0, k - 5)] + ctl + b'tail')
        L += [b'SUMMARY:echo first second third fourth fifth sixth seventh', b'DESCRIPTION:' + b'some words ' * 5 + ctl + b' and more', b'DTSTART:20300101T000000Z', b'RRULE:FREQ=DAILY;COUNT=3', b'LOCATION:/tmp/somewhere/else',
              b'END:VEVENT', b'BEGIN:VEVENT', b'UID:ctl-b%d' % i, b'SUMMARY:true', b'DTSTART;VALUE=DATE:20300201', b'END:VEVENT', b'END:VCALENDAR']
        if tier == 'thorough' or i in (0, 3) or rnd.random() < 0.4:
            cals.append(('gen:ctl%d' % i, b'\n'.join(L) + b'\n'))
    # a byte order mark in front of the stream (and in front of a second calendar): whatever the reader makes of it, it makes the same
    # of it wherever the pieces end
    bomcal = [b'BEGIN:VCALENDAR', b'VERSION:2.0', b'BEGIN:VEVENT', b'UID:bom-1', b'SUMMARY:echo bom', b'DTSTART:20300101T000000Z', b'RRULE:FREQ=DAILY;COUNT=2', b'END:VEVENT', b'END:VCALENDAR']
    cals.append(('gen:bom', b'\xef\xbb\xbf' + b'\n'.join(bomcal) + b'\n'))
    cals.append(('gen:bom2', b'\n'.join(bomcal) + b'\n' + b'\xef\xbb\xbf' + b'\r\n'.join(bomcal).replace(b'bom-1', b'bom-2') + b'\r\n'))
    # many ATTENDEE lines (they go into a string pool that grows by doubling): lengths drawn at random and lengths made to fill the
    # pool exactly (each address plus its terminator; sums of 16, 32, 64, ... ) with more lines following
    def attcal(lens):
        L = [b'BEGIN:VCALENDAR', b'BEGIN:VEVENT', b'UID:att', b'SUMMARY:true', b'DTSTART:20300101T000000Z']
        L += [b'ATTENDEE:mailto:' + b'a' * n for n in lens]
        return b'\n'.join(L + [b'END:VEVENT', b'END:VCALENDAR', b''])
    for k in range(60 if tier == 'thorough' else 14):
        if k % 2:
            lens = [rnd.randint(1, 40) for _ in range(rnd.randint(3, 12))]
        else:
            lens = []; tot = 0; target = rnd.choice([16, 32, 64, 128, 256])
            while tot < target:
                n = min(rnd.randint(1, 30), target - tot - 1)
                if n <= 0: break
                if target - (tot + n + 1) == 1: n += 1        # never leave a gap that no address fits
                lens.append(n); tot += n + 1
            lens += [rnd.randint(1, 40) for _ in range(rnd.randint(1, 3))]
        cals.append(('att:%d' % k, attcal(lens)))
    # long values that are folded: the line as it arrives (with its CRLF + blank folds and escapes) is longer than the 1 KiB the reader
    # keeps, the value itself is not - it has to come through whole, wherever the pieces end
    for n in ([600, 900, 1000, 1015, 1020, 1022] if tier == 'thorough' else [900, 1000, 1020]):
        for col, eol in ((75, b'\r\n'), (20, b'\n'), (60, b'\r\n')):
            val = (b'echo ' + b'abcdefghij' * 200)[:n - 8]
            if col == 60: val = val.replace(b'j', b'\\,')[:n - 8]
            L = []
            for l in base:
                L += fold(b'SUMMARY:' + val, col) if l.startswith(b'SUMMARY') else [l]
            cals.append(('gen:longfold%d_%d' % (n, col), eol.join(L) + eol))
    # truncated and garbage
    whole = b'\r\n'.join(base) + b'\r\n'
    for cut in rnd.sample(range(1, len(whole)), 12 if tier == 'thorough' else 4):
        cals.append(('gen:trunc%d' % cut, whole[:cut]))
    for k in range(30 if tier == 'thorough' else 6):
        n = rnd.randint(1, 400)
        alpha = rnd.choice([b'\r\n :;=ABEGINVCDRT\\,', bytes(range(256)), b'BEGIN:VEVENT\nEND\r\t :'])
        cals.append(('gen:garbage%d' % k, bytes(rnd.choice(alpha) for _ in range(n))))
        # a valid calendar with garbage spliced in
        p = rnd.randint(0, len(whole)); cals.append(('gen:splice%d' % k, whole[:p] + bytes(rnd.choice(alpha) for _ in range(rnd.randint(1, 30))) + whole[p:]))
    return cals

def partitions(b, rnd, tier):
    n = len(b)
    ps = [[1] * n] if n <= 3000 else []
    ps.append([4096] * (n // 4096 + 1))
    if tier == 'thorough' or n <= 700:
        ps += [[k, 0] for k in range(1, n)]
    else:
        ps += [[k, 0] for k in sorted(rnd.sample(range(1, n), 250))]
    # a cut in front of every property name that stands in the middle of a line
    for i in range(1, n - 8):
        if b[i:i + 8] == b'SUMMARY:' and b[i - 1] not in (10, 13):
            ps.append([i, 0]); ps.append([i, 100]); ps.append([i - 1, 1, 0])
    # split pairs around every CR / LF / SP / backslash
    idx = [i for i, c in enumerate(b) if c in (13, 10, 32, 9, 92)]
    if tier != 'thorough' and len(idx) > 120: idx = rnd.sample(idx, 120)
    for i in idx:
        for a in (i, i + 1):
            for c2 in (1, 2):
                if 0 < a and a + c2 < n: ps.append([a, c2, 0])
    for _ in range(40 if tier == 'thorough' else 8):
        p = []; left = n
        while left > 0:
            s = rnd.choice([1, 2, 3, 7, 64, 1000]); s = min(s, left); p.append(s); left -= s
        ps.append(p)
    return ps

def run(tier, seed):
    t0 = time.time()
    wd = vlib.workdir(PID)
    B = vlib.build('asan')
    drv = vlib.driver(B, 'drv_parse', libs='-lltdl -lm -ldl')
    rnd = random.Random(seed)
    e1 = vlib.model_check('IcalLinesE1.tla', 'IcalLinesE1.cfg', wd, workers=vlib.NCPU, env={'TIER': tier}, timeout=2400, xmx='12g')
    if not e1['ok']:
        raise vlib.Broken('IcalLinesE1: the line-assembly model is not partition independent:\n' + e1['out'][-2500:])
    cals = gen_calendars(rnd, tier)
    # model strings embedded as a property line (E3 of the E1 model): all strings over the model alphabet x all partitions of the embedded region
    alpha = [b'a', b':', b'\r', b'\n', b' ', b'\t', b'\\']
    maxlen = 5 if tier == 'thorough' else 4
    pre = b'BEGIN:VCALENDAR\nBEGIN:VEVENT\nUID:m\nDTSTART:20300101T000000Z\nSUMMARY:q'
    post = b'\nEND:VEVENT\nEND:VCALENDAR\n'
    jobs = []  # (name, hexbytes, partition)
    groups = []
    import itertools
    nmodel = 0
    for L in range(1, maxlen + 1):
        for tup in itertools.product(alpha, repeat=L):
            s = b''.join(tup)
            if tier != 'thorough' and L == maxlen and rnd.random() < 0.6: continue
            b = pre + s + post
            parts = []
            for mask in range(1 << (L + 1)):
                # cut points inside [len(pre)-1 .. len(pre)+L]
                cuts = [len(pre) - 1 + i for i in range(L + 2) if mask >> i & 1] if False else [len(pre) + i for i in range(L + 1) if mask >> i & 1]
                p = []; last = 0
                for c in cuts: p.append(c - last); last = c
                p.append(0); parts.append(p)
            groups.append(('model:' + s.hex(), b, parts)); nmodel += 1
    for name, b in cals:
        groups.append((name, b, partitions(b, rnd, tier) if not name.startswith('att:') else [[1] * len(b), [7] * (len(b) // 7 + 1), [64] * (len(b) // 64 + 1)]))
    inp = []; refs = []
    for name, b, parts in groups:
        h = b.hex(); ref = len(inp) + 1
        inp.append(h + '\t0'); refs.append(ref)
        for p in parts:
            inp.append(h + '\t' + ','.join(map(str, p))); refs.append(ref)
    # run the sanitizer build in parallel slices
    nsl = vlib.NCPU
    per = -(-len(inp) // nsl)
    env = dict(os.environ, ASAN_OPTIONS='detect_leaks=0:abort_on_error=0:handle_segv=0:handle_sigbus=0:handle_sigfpe=0:exitcode=99', UBSAN_OPTIONS='print_stacktrace=0')
    def slice_run(k):
        lo, hi = k * per, min(len(inp), (k + 1) * per)
        out = []
        pos = lo
        while pos < hi:
            p = subprocess.run([drv, '10'], input='\n'.join(inp[pos:hi]) + '\n', capture_output=True, text=True, env=env, timeout=3000)
            got = [l for l in p.stdout.split('\n') if l.startswith('{') and l.endswith('}')]
            out += got; pos += len(got)
            if pos < hi:
                # the process died on input line pos (sanitizer report or abort)
                out.append(json.dumps({'e': 'Parse', 'ins': [], 'crash': p.returncode, 'why': p.stderr[-300:]})); pos += 1
        return out
    import concurrent.futures as cf
    with cf.ThreadPoolExecutor(max_workers=nsl) as ex:
        outs = list(ex.map(slice_run, range(nsl)))
    lines = [l for o in outs for l in o]
    # chunk files must keep groups together: re-number refs per chunk
    chunks = []; cur = []; base = 0; target = -(-len(lines) // vlib.NCPU)
    gi = 0; start = 0
    bounds = []
    i = 0
    while i < len(lines):
        j = i
        while j < len(lines) and refs[j] == refs[i]: j += 1
        bounds.append((i, j)); i = j
    fidx = 0; acc = []
    def flush():
        nonlocal acc, fidx
        if not acc: return
        fn = f'{wd}/parse.{fidx:03d}.ndjson'
        with open(fn, 'w') as f: f.writelines(acc)
        chunks.append((fn, 0)); fidx += 1; acc = []
    gmap = []
    for (i, j) in bounds:
        refline = len(acc) + 1
        for k in range(i, j):
            r = json.loads(lines[k]); r['ref'] = refline; r['g'] = len(gmap); r['part'] = inp[k].split('\t')[1][:80]
            gname, gb = groups[len(gmap)][0], groups[len(gmap)][1]
            if gname.startswith('model:') and 'crash' not in r and 'timeout' not in r:
                # I-level binding: the bytes, the chunk sizes and the command the real parser read (as code lists, re-encoding only)
                r['bytes'] = list(gb)
                r['sizes'] = [int(x) for x in inp[k].split('\t')[1].split(',')]
                t = r['ins'][0].get('t') if r['ins'] else None
                r['cmdc'] = [ord(ch) for ch in t['cmd']] if t and t.get('cmd') not in (None, '\u0000') else []
            acc.append(json.dumps(r) + '\n')
        gmap.append(i)
        if len(acc) >= target: flush()
    flush()
    v = vlib.validate('TraceParse.tla', 'TraceParse.cfg', chunks, wd, timeout=3000)
    # the command line tools read their input in pieces too (read(2) on a pipe returns what has arrived): echse unroll and echse merge
    # of a file against the same bytes arriving on the standard input in several pieces, some time apart.  Same relation, same judge
    # (the "instructions" are the lines the tool prints; merge stamps its output with the time of day, that line is left out)
    import time as _t, concurrent.futures as cf2
    def cli(cmd, data, cuts):
        args = [f'{B}/echse'] + cmd
        try:
            if cuts is None:
                p = subprocess.run(args, input=data, capture_output=True, timeout=60, env=env)
                out, rc = p.stdout, p.returncode
            else:
                p = subprocess.Popen(args, stdin=subprocess.PIPE, stdout=subprocess.PIPE, stderr=subprocess.DEVNULL, env=env)
                a = 0
                for c in cuts + [len(data)]:
                    try: p.stdin.write(data[a:c]); p.stdin.flush()
                    except BrokenPipeError: break
                    a = c; _t.sleep(0.03)
                try: p.stdin.close()
                except BrokenPipeError: pass
                out = p.stdout.read(); rc = p.wait(timeout=60)
        except subprocess.TimeoutExpired:
            return {'timeout': True}
        # the exit status is part of what the tool says; a signal or a sanitizer report is the tool dying
        r = {'ins': [l for l in out.decode('latin1').split('\n') if l and not l.startswith('DTSTAMP:')] + ['exit status %d' % rc]}
        if rc < 0 or rc == 99: r['crash'] = rc
        return r
    cjobs = []
    pick = [g for g in groups if g[0].startswith(('gen:plain', 'gen:fold8', 'gen:fold20', 'gen:foreign', 'gen:multi0', 'gen:multi1', 'file:'))]
    pick = [g for g in pick if not g[0].startswith('file:')] + rnd.sample([g for g in pick if g[0].startswith('file:')], min(6, len([g for g in pick if g[0].startswith('file:')])))
    for name, b, _ in pick:
        n = len(b)
        if n < 40: continue
        cutsets = [None, [n // 2], [n // 3, 2 * n // 3], sorted(rnd.sample(range(1, n), 4)), [b.find(b'END:VEVENT') + 10] if b.find(b'END:VEVENT') > 0 else [n // 4], list(range(64, n, 64))[:40]]
        for cmd in (['unroll', '--till', '2031-06-01'], ['merge']):
            for cs in cutsets: cjobs.append((name, cmd, cs))
    bmap = {name: b for name, b, _ in pick}
    with cf2.ThreadPoolExecutor(max_workers=vlib.NCPU * 2) as ex:
        cres = list(ex.map(lambda j: cli(j[1], bmap[j[0]], j[2]), cjobs))
    ctrace = f'{wd}/cli.ndjson'; refline = 0
    with open(ctrace, 'w') as f:
        for k, ((name, cmd, cs), r) in enumerate(zip(cjobs, cres)):
            if cs is None: refline = k + 1
            r.setdefault('ins', []); r['ref'] = refline; r['input'] = name; r['cmd'] = cmd[0]; r['part'] = 'whole' if cs is None else ','.join(map(str, cs))[:80]
            f.write(json.dumps(r) + '\n')
    vc = vlib.validate('TraceParse.tla', 'TraceParse.cfg', [(ctrace, 0)], wd, timeout=600)
    # group names for replay artefacts
    names = {}
    idx = 0
    for name, b, parts in groups:
        names[idx] = (name, b); idx += 1
    bad = []
    seen_groups = collections.Counter()
    for fn, k, g in v['bad']:
        rec = json.loads(vlib.getline(fn, k))
        gname, gb = names[rec['g']]
        seen_groups[gname] += 1
        if seen_groups[gname] > 3: continue
        ref = json.loads(vlib.getline(fn, rec['ref']))
        art = {'input': gname, 'bytes_hex': gb.hex(), 'partition': rec['part'], 'got': rec.get('ins'), 'whole': ref.get('ins'), 'crash': rec.get('crash'), 'timeout': rec.get('timeout'), 'why': rec.get('why')}
        derived = {'kind': gname.split(':')[0], 'name': gname}
        bad.append((vlib.save_replay(PID, f'{gname.replace(":", "_").replace("/", "_")}_{seen_groups[gname]}.json', art), dict(rec, **derived)))
    for fn, k, g in vc['bad'][:40]:
        rec = json.loads(vlib.getline(fn, k)); ref = json.loads(vlib.getline(fn, rec['ref']))
        art = {'input': rec['input'], 'bytes_hex': bmap[rec['input']].hex(), 'tool': 'echse ' + rec['cmd'], 'pieces_end_at': rec['part'], 'got': rec.get('ins'), 'whole': ref.get('ins'), 'crash': rec.get('crash'), 'timeout': rec.get('timeout')}
        bad.append((vlib.save_replay(PID, f'cli_{g}.json', art), dict(rec, kind='cli', name=rec['input'])))
    unlisted, listed = vlib.classify(PID, bad)
    cov = {'states': e1['states'], 'transitions': e1['transitions'], 'traces_validated_against_impl': len(lines),
           'samples': [{'input': groups[nmodel][0], 'partition': inp[refs[-1]][-40:]}, {'input': groups[3][0], 'bytes_hex': groups[3][1].hex()[-60:]}],
           'evaluations': len(lines), 'distinct_nontrivial': len(lines) - len(groups),
           'rule': 'one case = (byte string, partition into chunks); non-trivial = a partition with >= 2 chunks (the single-chunk run of each string is the reference). Strings: every string of length <= %d over {a : CR LF SP HT backslash} embedded as a SUMMARY value with ALL partitions of the embedded region; repository sample calendars; generated calendars with folds at many columns, CRLF/LF, escapes, ~1 KiB lines, an overlong line with a property name far inside and a cut in front of it, truncations, garbage; partitions: 1-byte chunks, every single split point, split pairs around CR/LF/SP/HT/backslash, 4096-byte chunks, seeded random' % maxlen,
           'inputs': len(groups), 'model_strings': nmodel, 'cli_runs': len(cjobs), 'cli_mismatching': vc['nbad'], 'mismatching_runs': v['nbad'] + vc['nbad'], 'inputs_with_mismatch': len(seen_groups), 'skipped': v['nskip'],
           'model_drift_runs': sum(x.get('ndrift', 0) for x in v['extra']),
           'sanitizers': 'driver and library built with -fsanitize=address,bounds; chunks are exact-size heap blocks',
           'e1_actions': e1['coverage'], 'exhaustive': False}
    return vlib.finish(PID, tier, seed, 'model_checking', cov, t0, unlisted, listed,
                       ['TLC/SANY, Json/IOUtils', 'metamorphic judgement: both sides are runs of the real parser; the spec states the relation',
                        'memory errors are observable only because the recording build is sanitizer-instrumented (observation aid, not a TLA+ result)'])
