"""C14 - a job outliving its DTEND/DURATION/DUE limit is killed by the deadline"""
import time, json, random, os, re, subprocess, tempfile, shutil, concurrent.futures as cf
import vlib, daemon, execrun, rrgen

PID = 'C14'

def codes(s): return [ord(c) for c in s]

def dur_spellings(rnd, L):
    d, h, m, s = L // 86400, L % 86400 // 3600, L % 3600 // 60, L % 60
    sp = ['PT%dS' % L, 'P%dDT%dH%dM%dS' % (d, h, m, s), '+PT%dS' % L, 'PT%dM%dS' % (L // 60, s), 'PT%dH%dM%dS' % (L // 3600, m, s)]
    if s == 0: sp.append('PT%dM' % (L // 60))
    if L % 3600 == 0: sp.append('PT%dH' % (L // 3600))
    if L % 86400 == 0: sp += ['P%dD' % d, '+P%dD' % d]
    if L % 604800 == 0: sp.append('P%dW' % (L // 604800))
    return sp

ECHSQ = None     # set by run(): the client of the tree under test; the first hop of a user's file is echsq add (it re-writes the task)

def echsd_hop(drv, spool_parent, ics_event_lines):
    """queue the event in the daemon harness, let its first occurrence come due, return the VTODO handed to echsx"""
    spool = tempfile.mkdtemp(prefix='sp', dir=spool_parent)
    req = '\n'.join(['BEGIN:VCALENDAR', 'VERSION:2.0', 'METHOD:PUBLISH'] + ics_event_lines + ['END:VCALENDAR', ''])
    if ECHSQ:
        # user file -> echsq: what echsq add would send for this file (its dry run prints the request)
        uf = spool + '/user.ics'; open(uf, 'w').write(req)
        p = subprocess.run([ECHSQ, '-n', 'add', uf], capture_output=True, text=True, timeout=30, cwd=spool)
        os.unlink(uf)
        if p.returncode != 0 or 'BEGIN:VEVENT' not in p.stdout:
            shutil.rmtree(spool, ignore_errors=True); return None
        req = p.stdout
    cmds = ['A\t1000\t' + rrgen.esc(req), 'T\t11', 'R', 'DA']
    ev, rc = daemon.run_in_spool(drv, spool, cmds, {})
    shutil.rmtree(spool, ignore_errors=True)
    for e in ev:
        if e['e'] == 'Spawn': return e.get('vtodo', '')
    return None

def echsx_alarm(B, shim, wd, vtodo, job='true'):
    d = tempfile.mkdtemp(prefix='x', dir=wd)
    # run as ourselves, the harness's alice does not exist here
    v = re.sub(r'X-ECHS-SETUID:\d+', 'X-ECHS-SETUID:%d' % os.getuid(), vtodo); v = re.sub(r'X-ECHS-SETGID:\d+', 'X-ECHS-SETGID:%d' % os.getgid(), v)
    v = re.sub(r'LOCATION:[^\n]*', 'LOCATION:' + d, v); v = re.sub(r'SUMMARY:[^\n]*', 'SUMMARY:echo start >> %s/starts; %s' % (d, job), v)
    env = dict(os.environ, XSHIM_DIR=d, XSHIM_MAILER=execrun.MAILER, LD_PRELOAD=shim, XSHIM_NOALARM='1')
    try:
        p = subprocess.run([f'{B}/echsx', '-v'], input=v, capture_output=True, text=True, timeout=60, env=env); jr = p.stdout
    except subprocess.TimeoutExpired:
        jr = ''
    al = [int(x) for x in (open(d + '/alarm.log').read().split() if os.path.exists(d + '/alarm.log') else [])]
    starts = len(open(d + '/starts').read().split()) if os.path.exists(d + '/starts') else 0
    shutil.rmtree(d, ignore_errors=True)
    return (al[0] if al else 0), starts, 'STATUS:CANCELLED' in jr

def real_kill(B, shim, wd, L, W, stubborn=False, fifo=False):
    d = tempfile.mkdtemp(prefix='k', dir=wd)
    # fifo: the job's output goes to a FIFO nobody reads - opening it holds the executor up until the limit has passed, the job is
    # started late and has to be gone all the same (judged like a stubborn job: any signal, a second more)
    if fifo:
        os.mkfifo(d + '/fifo')
        if fifo > 1: os.mkfifo(d + '/fifo2')
    # stubborn: a job that does not care about the polite signal (SIGXCPU ignored); it has to be gone all the same
    v = '\n'.join(['BEGIN:VCALENDAR', 'VERSION:2.0', 'BEGIN:VTODO', 'UID:kill-%d-%d' % (L, W), 'SUMMARY:' + ("trap '' XCPU\\; sleep %d" % W if stubborn else 'sleep %d' % W), 'X-ECHS-SETUID:%d' % os.getuid(), 'X-ECHS-SETGID:%d' % os.getgid(),
                   'X-ECHS-SHELL:/bin/sh', 'LOCATION:' + d, 'DURATION:PT%dS' % L, 'X-ECHS-UMASK:022', 'X-ECHS-MAIL-RUN:0', 'X-ECHS-MAIL-OUT:0', 'X-ECHS-MAIL-ERR:0', 'ORGANIZER:echse'] + (['X-ECHS-OFILE:' + d + '/fifo'] if fifo else []) + (['X-ECHS-EFILE:' + d + '/fifo2'] if fifo and fifo > 1 else []) + ['END:VTODO', 'END:VCALENDAR', ''])
    env = dict(os.environ, XSHIM_DIR=d, XSHIM_MAILER=execrun.MAILER, LD_PRELOAD=shim)
    t0 = time.time()
    p = subprocess.run([f'{B}/echsx', '-v'], input=v, capture_output=True, text=True, timeout=W + 30, env=env)
    wall = time.time() - t0
    m = re.search(r'^X-EXIT-STATUS:(\d+)', p.stdout, re.M); ms = re.search(r'^X-SIGNAL:(\d+)', p.stdout, re.M)
    shutil.rmtree(d, ignore_errors=True)
    return {'e': 'Kill', 'L': L, 'W': W, 'stubborn': stubborn, 'held': int(fifo), 'wallms': int(wall * 1000), 'jsig': int(ms.group(1)) if ms else 0, 'jexit': int(m.group(1)) if m else -1}

def locked_kill(B, shim, wd, L, W, hold):
    """sleep W under limit L while another process holds the lock of the journal file (as another run of the same task that is just
    writing its entry does) for hold seconds from the start: the entry has to be there once the lock is released"""
    d = tempfile.mkdtemp(prefix='l', dir=wd)
    v = '\n'.join(['BEGIN:VCALENDAR', 'VERSION:2.0', 'BEGIN:VTODO', 'UID:lock-%d-%d' % (L, W), 'SUMMARY:sleep %d' % W, 'X-ECHS-SETUID:%d' % os.getuid(), 'X-ECHS-SETGID:%d' % os.getgid(),
                   'X-ECHS-SHELL:/bin/sh', 'LOCATION:' + d, 'DURATION:PT%dS' % L, 'X-ECHS-UMASK:022', 'X-ECHS-MAIL-RUN:0', 'X-ECHS-MAIL-OUT:0', 'X-ECHS-MAIL-ERR:0', 'ORGANIZER:echse', 'END:VTODO', 'END:VCALENDAR', ''])
    env = dict(os.environ, XSHIM_DIR=d, XSHIM_MAILER=execrun.MAILER, LD_PRELOAD=shim)
    jf = d + '/echsj.ics'; open(jf, 'w').close()
    holder = subprocess.Popen(['python3', '-c', 'import fcntl,sys,time\nf=open(sys.argv[1],"a")\nfcntl.lockf(f,fcntl.LOCK_EX)\nprint("held",flush=True)\ntime.sleep(float(sys.argv[2]))', jf, str(hold)], stdout=subprocess.PIPE, text=True)
    holder.stdout.readline()
    t0 = time.time()
    with open(jf, 'a') as jo:
        try:
            p = subprocess.run([f'{B}/echsx', '-v'], input=v, stdout=jo, stderr=subprocess.PIPE, text=True, timeout=W + hold + 30, env=env); rc = p.returncode
        except subprocess.TimeoutExpired:
            rc = -99
    wall = time.time() - t0
    holder.wait()
    jr = open(jf).read()
    m = re.search(r'^X-EXIT-STATUS:(\d+)', jr, re.M); ms = re.search(r'^X-SIGNAL:(\d+)', jr, re.M)
    shutil.rmtree(d, ignore_errors=True)
    return {'e': 'KillLocked', 'L': L, 'W': W, 'holdms': int(hold * 1000), 'wallms': int(wall * 1000), 'rc': rc, 'jentries': jr.count('BEGIN:VTODO'), 'jsig': int(ms.group(1)) if ms else 0, 'jexit': int(m.group(1)) if m else -1}

def run(tier, seed):
    t0 = time.time()
    wd = vlib.workdir(PID)
    B = vlib.build('plain')
    drv = daemon.build_driver(B); shim = execrun.build_shim(B)
    rnd = random.Random(seed)
    e1 = vlib.model_check('DeadlineE1.tla', 'DeadlineE1.cfg', wd, workers=8)
    if not e1['ok']:
        raise vlib.Broken('DeadlineE1 failed:\n' + e1['out'][-2000:])
    e1b = vlib.model_check('ExecSeqE1.tla', 'ExecSeqE1.cfg', wd, workers=8)
    if not e1b['ok']:
        raise vlib.Broken('ExecSeqE1 failed:\n' + e1b['out'][-2000:])
    n = 20000 if tier == 'thorough' else 260
    Ls = [1, 2, 3, 59, 60, 61, 90, 3599, 3600, 3601, 86399, 86400, 86401, 172800, 604800, 1209600, 2147483, 2147484, 4294967, 4294968, 30 * 86400, 50 * 86400, 400 * 86400]
    cases = []
    for k in range(n):
        L = Ls[k] if k < len(Ls) else rnd.choice([rnd.randint(1, 600), rnd.randint(1, 90000), rnd.randint(1, 400 * 86400), rnd.choice(Ls)])
        if rnd.random() < 0.7:
            cases.append(('DURATION', L, rnd.choice(dur_spellings(rnd, L))))
        else:
            cases.append(('DTEND', L, None))
    # every spelling at least once, week forms included (a limit of weeks cannot be waited for, it is followed along the path)
    for L in (60, 3600, 86400, 90061, 604800, 1209600, 52 * 604800):
        for text in dur_spellings(rnd, L) + (['+P%dW' % (L // 604800)] if L % 604800 == 0 else []):
            cases.append(('DURATION', L, text))
    # DTSTART and DTEND as wall-clock times of one zone on either side of a change of its offset: the span is the time that passes
    # between the two instants (given here as text in the zone, and to the model as the UTC instants they are)
    ZSW = [('Europe/Berlin', '20240331T015958', '20240331T030001', (2024, 3, 31, 0, 59, 58), (2024, 3, 31, 1, 0, 1)),
           ('Europe/Berlin', '20241027T015958', '20241027T030001', (2024, 10, 26, 23, 59, 58), (2024, 10, 27, 2, 0, 1)),
           ('America/New_York', '20240310T015959', '20240310T030002', (2024, 3, 10, 6, 59, 59), (2024, 3, 10, 7, 0, 2)),
           ('America/New_York', '20241103T005900', '20241103T030000', (2024, 11, 3, 4, 59, 0), (2024, 11, 3, 8, 0, 0)),
           ('Australia/Sydney', '20241006T015930', '20241006T030030', (2024, 10, 5, 15, 59, 30), (2024, 10, 5, 16, 0, 30)),
           ('Europe/Berlin', '20240615T100000', '20240615T100007', (2024, 6, 15, 8, 0, 0), (2024, 6, 15, 8, 0, 7))]
    for z in ZSW: cases.append(('DTENDTZ', 0, z))
    global ECHSQ
    ECHSQ = f'{B}/echsq'
    sp = f'{wd}/spool'; xd = f'{wd}/x'; os.makedirs(sp, exist_ok=True); os.makedirs(xd, exist_ok=True)
    def one(c):
        kind, L, text = c
        if kind == 'DTENDTZ':
            zn, a, b, ua, ub = text
            ev = ['BEGIN:VEVENT', 'UID:lim', 'SUMMARY:true', 'DTSTART;TZID=%s:%s' % (zn, a), 'DTEND;TZID=%s:%s' % (zn, b), 'RDATE:' + daemon.secs(10), 'END:VEVENT']
            rec = {'e': 'Limit', 'kind': 'DTEND', 'L_input': 0, 'zone': zn, 'ds': list(ua) + [1023], 'de': list(ub) + [1023]}
            vt = echsd_hop(drv, sp, ev)
            if vt is None:
                rec['nospawn'] = True; rec['durlinec'] = []; rec['alarm'] = 0; return rec
            m = re.search(r'^DURATION:([^\n]*)', vt, re.M)
            rec['durline'] = m.group(1) if m else ''; rec['durlinec'] = codes(rec['durline'])
            rec['alarm'], rec['starts'], _ = echsx_alarm(B, shim, xd, vt)
            return rec
        ev = ['BEGIN:VEVENT', 'UID:lim', 'SUMMARY:true', 'DTSTART:' + daemon.secs(10), 'RDATE:' + daemon.secs(10)]
        rec = {'e': 'Limit', 'kind': kind, 'L_input': L}
        if kind == 'DURATION':
            ev.append('DURATION:' + text); rec['dur'] = text; rec['durc'] = codes(text)
        else:
            end = 10 + L; d, r = divmod(end, 86400)
            # DTEND as an absolute instant, L seconds after DTSTART (input construction by a trivial day counter, 2030-01-01 + d days)
            import datetime as D
            e = D.datetime(2030, 1, 1) + D.timedelta(seconds=end)
            ev.append('DTEND:' + e.strftime('%Y%m%dT%H%M%SZ'))
            rec['ds'] = [2030, 1, 1, 0, 0, 10, 1023]; rec['de'] = [e.year, e.month, e.day, e.hour, e.minute, e.second, 1023]
        ev.append('END:VEVENT')
        vt = echsd_hop(drv, sp, ev)
        if vt is None:
            rec['nospawn'] = True; rec['durlinec'] = []; rec['alarm'] = 0; return rec
        m = re.search(r'^DURATION:([^\n]*)', vt, re.M)
        rec['durline'] = m.group(1) if m else ''; rec['durlinec'] = codes(rec['durline'])
        rec['alarm'], rec['starts'], _ = echsx_alarm(B, shim, xd, vt)
        return rec
    with cf.ThreadPoolExecutor(max_workers=vlib.NCPU) as ex:
        recs = list(ex.map(one, cases))
    # DUE: execution requests with a due time (future, imminent, past)
    import datetime as D
    def due_case(L):
        now = D.datetime.utcnow(); due = now + D.timedelta(seconds=L)
        duel = 'DUE:' + due.strftime('%Y%m%dT%H%M%SZ')
        if L % 3 == 0 and 1902 < due.year < 2037:
            # the same moment as a wall-clock time of a zone
            import zoneinfo
            zn = ['Europe/Berlin', 'America/New_York', 'Asia/Kolkata', 'Australia/Sydney'][(L // 3) % 4]
            duel = 'DUE;TZID=%s:%s' % (zn, due.replace(tzinfo=D.timezone.utc).astimezone(zoneinfo.ZoneInfo(zn)).strftime('%Y%m%dT%H%M%S'))
        vt = '\n'.join(['BEGIN:VCALENDAR', 'VERSION:2.0', 'BEGIN:VTODO', 'UID:due%d' % L, 'SUMMARY:true', 'X-ECHS-SETUID:0', 'X-ECHS-SETGID:0', 'X-ECHS-SHELL:/bin/sh', 'LOCATION:/tmp',
                        duel, 'X-ECHS-UMASK:022', 'X-ECHS-MAIL-RUN:0', 'X-ECHS-MAIL-OUT:0', 'X-ECHS-MAIL-ERR:0', 'ORGANIZER:echse', 'END:VTODO', 'END:VCALENDAR', ''])
        a, st, canc = echsx_alarm(B, shim, xd, vt)
        return {'e': 'Due', 'L': L, 'alarm': a, 'starts': st, 'cancelled': canc}
    dues = [30, 3600, 86400 * 40, 5, -5, -3600, -86400 * 400, 100 * 86400] + ([rnd.randint(-10 ** 6, 10 ** 7) for _ in range(200)] if tier == 'thorough' else [rnd.randint(-10 ** 5, 10 ** 6) for _ in range(12)])
    with cf.ThreadPoolExecutor(max_workers=vlib.NCPU) as ex:
        recs += list(ex.map(due_case, dues))
    # real time: sleep W under limit L
    kills = [(1, 30), (2, 30), (5, 1), (3, 30)] if tier != 'thorough' else [(1, 30), (2, 30), (3, 30), (1, 30), (2, 30), (3, 30), (5, 1), (4, 2), (2, 1), (6, 30), (1, 30), (10, 3)]
    kills = [lw + (False,) for lw in kills] + [(1, 30, True), (2, 6, True), (1, 9, False, 1), (2, 9, False, 1), (1, 9, False, 2)]
    with cf.ThreadPoolExecutor(max_workers=len(kills)) as ex:
        recs += list(ex.map(lambda lw: real_kill(B, shim, xd, *lw), kills))
    # the same while the journal is locked by someone else past the end of the job: the record of the termination waits for the lock
    lk = [(1, 30, 3.5), (2, 1, 3.5), (1, 30, 1.6), (3, 1, 3.4)] + ([(2, 30, 4.5), (1, 30, 2.5), (4, 1, 5.5), (2, 30, 2.2)] if tier == 'thorough' else [])
    with cf.ThreadPoolExecutor(max_workers=len(lk)) as ex:
        recs += list(ex.map(lambda a: locked_kill(B, shim, xd, *a), lk))
    # E3 on the executor loop: requests with several VTODOs taken from ExecSeqE1's request set, run by one real echsx each
    TS = [{'L': l, 'W': w, 'prep': p} for l in (0, 1, 2) for w in (1, 2, 3) for p in (True, False) if l != w]
    reqs = [[{'L': 1, 'W': 2, 'prep': False}, {'L': 0, 'W': 2, 'prep': True}],                       # a task that cannot start, then one without limit
            [{'L': 1, 'W': 3, 'prep': True}, {'L': 1, 'W': 3, 'prep': True}],                        # killed, then killed again
            [{'L': 1, 'W': 3, 'prep': True}, {'L': 0, 'W': 2, 'prep': True}],                        # killed, then unlimited
            [{'L': 2, 'W': 1, 'prep': True}, {'L': 1, 'W': 2, 'prep': True}, {'L': 2, 'W': 1, 'prep': True}],
            [{'L': 2, 'W': 3, 'prep': False}, {'L': 2, 'W': 3, 'prep': True}, {'L': 0, 'W': 1, 'prep': True}]]
    for _ in range(200 if tier == 'thorough' else 19):
        reqs.append([dict(rnd.choice(TS)) for _ in range(rnd.choice([2, 2, 3]))])
    def req_case(ts):
        r = execrun.run_request(B, shim, xd, ts); r.pop('journal_text', None)
        return {'e': 'Req', 'tasks': ts, 'rc': r['rc'], 'res': r['tasks']}
    # requests in which a later task carries a DUE (an absolute time): what counts is the time when ITS turn comes, not when the request
    # was read - overdue by then: refused; otherwise killed at the DUE time (window: whole-second rounding of DUE, start-up of the tasks before)
    def due_case(ts):
        r = execrun.run_request(B, shim, xd, ts); r.pop('journal_text', None)
        return {'e': 'ReqDue', 'tasks': [{'kind': t['kind'], 'lo': t.get('lo', 0), 'hi': t.get('hi', 0)} for t in ts], 'rc': r['rc'], 'res': r['tasks']}
    dreqs = [[{'L': 0, 'W': 3, 'kind': 'finished'}, {'L': 0, 'W': 2, 'due': 2, 'kind': 'refused'}],
             [{'L': 0, 'W': 3, 'kind': 'finished'}, {'L': 0, 'W': 10, 'due': 6, 'kind': 'killed', 'lo': 300, 'hi': 4500}],
             [{'L': 0, 'W': 1, 'kind': 'finished'}, {'L': 0, 'W': 1, 'due': 30, 'kind': 'finished'}, {'L': 0, 'W': 9, 'due': 5, 'kind': 'killed', 'lo': 300, 'hi': 4500}]]
    with cf.ThreadPoolExecutor(max_workers=vlib.NCPU) as ex:
        fut = [ex.submit(due_case, ts) for ts in dreqs]
        recs += list(ex.map(req_case, reqs))
        recs += [f.result() for f in fut]
    # thorough: the whole path with the real binaries (user file -> echsq -> echsd -> echsx) in private namespaces, when available
    e2e_note = 'not run at this tier'
    if tier == 'thorough':
        import sys as _s; _s.path.insert(0, f'{vlib.VERIF}/gen/extra')
        import e2e
        try:
            rc_e2e = e2e.run('quick', seed)
            e2e_note = 'held on 2 sessions of real echsd/echsq/echsx (TraceE2E.tla)' if rc_e2e == 0 else 'VIOLATED, see EXTRA-VIOLATION lines'
            if rc_e2e: print('VIOLATION property=C14 replay=%s/work/X-e2e/replay' % vlib.VERIF)
        except vlib.Broken as ex:
            e2e_note = 'skipped: ' + str(ex)[:120]
    trace = f'{wd}/limit.ndjson'
    with open(trace, 'w') as f:
        for r in recs: f.write(json.dumps(r) + '\n')
    chunks = vlib.split_lines(trace, vlib.NCPU, wd, 'limit', min_lines=50)
    v = vlib.validate('TraceDeadline.tla', 'TraceDeadline.cfg', chunks, wd)
    bad = []
    for fn, k, g in v['bad'][:300]:
        rec = json.loads(vlib.getline(fn, k))
        for kk in ('durc', 'durlinec'): rec.pop(kk, None)
        bad.append((vlib.save_replay(PID, f'case{g}.json', rec), rec))
    unlisted, listed = vlib.classify(PID, bad)
    cov = {'states': e1['states'] + e1b['states'], 'transitions': e1['transitions'] + e1b['transitions'], 'executor_loop_model': {'states': e1b['states'], 'actions': e1b['coverage']}, 'multi_task_requests': len(reqs), 'traces_validated_against_impl': len(recs),
           'samples': [{k: r[k] for k in r if k not in ('durc', 'durlinec')} for r in (recs[0], recs[len(cases)], recs[-1])],
           'evaluations': len(recs), 'distinct_nontrivial': len(set(json.dumps({k: r[k] for k in r if k in ('kind', 'dur', 'de', 'L', 'W')}) for r in recs)),
           'rule': 'one case = one limit on its way through the real code: an event with DURATION (any ISO spelling: seconds, minutes+seconds, D+T parts, weeks, leading +) or DTEND is queued in the daemon harness, its first occurrence comes due, the VTODO the daemon hands to echsx is captured and fed to the real echsx process whose alarm(2) argument is logged; DUE execution requests (future and past); real-time runs of sleep under 1..3 s limits and a short job under a longer limit; execution requests with 2..3 VTODOs (limits 0..2 s, job times 1..3 s, tasks that cannot be started) taken from the request set of ExecSeqE1 and run by one real echsx process each, every task judged against its own contract',
           'end_to_end_sessions': e2e_note, 'limit_cases': len(cases), 'due_cases': len(dues), 'real_time_runs': len(kills), 'mismatching_cases': v['nbad'], 'skipped': v['nskip'], 'exhaustive': False}
    rc = vlib.finish(PID, tier, seed, 'model_checking', cov, t0, unlisted, listed,
                       ['TLC/SANY, Json/IOUtils', 'DtText.tla duration grammar', 'alarm(2) observed through the LD_PRELOAD shim (not armed in the virtual runs)', 'real-time runs depend on the machine not being stalled for more than 1.5 s',
                        'quick tier: the echsq hop (client-side massage) is not exercised, the request text is given to the daemon directly; thorough tier: end-to-end sessions with the real echsq/echsd/echsx'])
    return 1 if (rc or 'VIOLATED' in e2e_note) else 0
