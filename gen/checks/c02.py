"""C02 - EXDATE/EXRULE remove, RDATE adds: recurrence-set algebra"""
import re, time, json, random, os, datetime as D, concurrent.futures as cf
import vlib, rrgen, strmrun

PID = 'C02'

def derive(rec):
    return {'n_exdate_lines': rec.get('n_exdate_lines', 0), 'n_rdate_lines': rec.get('n_rdate_lines', 0), 'n_exdates': len(rec.get('exdates', [])), 'n_rdates': len(rec.get('rdates', [])),
            'n_rules': len(rec.get('rules', [])), 'n_xrules': len(rec.get('xrules', [])), 'zero_duration': rec.get('durkind') == 'none', 'durkind': rec.get('durkind'),
            'timed': rec.get('ds', [0] * 7)[3] != 255, 'freqs': sorted(set(r['freq'] for r in rec.get('rules', []))),
            'yearly_weekno_interval': any(r['freq'] == 'YEARLY' and r.get('inter', 1) >= 2 and r.get('wk') for r in rec.get('rules', []) + rec.get('xrules', []))}

def second_rule(rnd, ds, freqs):
    """another rule synchronised with the same DTSTART"""
    freq = rnd.choice(freqs)
    r = rrgen.blank(freq, rnd.choice([1, 1, 2, 3, 5]))
    shape = rnd.choice(rrgen.SHAPES[freq])
    rrgen.sync_parts(rnd, freq, D.date(*ds[:3]), r, shape)
    if 'pos' in shape: r['pos'] = [1]
    rrgen.add_limit(rnd, ds, r)
    return r

def tup(o): return tuple(o[:3]) if o[3] == 255 else tuple(o[:6])
def shift_inst(o, secs):
    if o[3] == 255:
        d = D.date(*o[:3]) + D.timedelta(days=1 if secs > 0 else -1); return (d.year, d.month, d.day)
    d = D.datetime(*o[:6]) + D.timedelta(seconds=secs); return (d.year, d.month, d.day, d.hour, d.minute, d.second)

def split_lines(rnd, vals):
    """distribute a value list over 1..3 property lines"""
    if not vals: return []
    k = rnd.choice([1, 1, 2, 3]); k = min(k, len(vals))
    cuts = sorted(rnd.sample(range(1, len(vals)), k - 1)) if k > 1 else []
    out = []; a = 0
    for c in cuts + [len(vals)]:
        out.append(vals[a:c]); a = c
    return out

def zone_some_lines(rnd, ics):
    """the same instants, some EXDATE / RDATE lines written as wall-clock times of a zone instead of UTC (lists in different value forms
    next to one another: what looks ascending as text need not be ascending in time)"""
    import zoneinfo
    out = []
    for l in ics.split('\n'):
        m = re.match(r'^(EXDATE|RDATE):(.*Z)$', l)
        if m and rnd.random() < 0.6:
            zn = rnd.choice(['Europe/Berlin', 'America/New_York', 'Asia/Kolkata', 'Australia/Sydney', 'Pacific/Chatham']); z = zoneinfo.ZoneInfo(zn)
            vals = []
            for v in m.group(2).split(','):
                u = D.datetime.strptime(v, '%Y%m%dT%H%M%SZ').replace(tzinfo=D.timezone.utc)
                if not (1905 < u.year < 2036): vals = None; break
                loc = u.astimezone(z)
                # a wall-clock time that occurs twice (or not at all) has no single meaning: leave the line as it is
                if loc.replace(fold=0).utcoffset() != loc.replace(fold=1).utcoffset(): vals = None; break
                vals.append(loc.strftime('%Y%m%dT%H%M%S'))
            if vals: l = '%s;TZID=%s:%s' % (m.group(1), zn, ','.join(vals))
        out.append(l)
    return '\n'.join(out)

def run(tier, seed):
    t0 = time.time()
    wd = vlib.workdir(PID)
    fl = 'asan' if tier == 'thorough' or os.environ.get('C02_ASAN') else 'plain'
    B = vlib.build(fl)
    if fl == 'asan': os.environ['ASAN_OPTIONS'] = 'detect_leaks=0:exitcode=99'
    drv = vlib.driver(B, 'drv_strm', libs='-lltdl -lm -ldl')
    rnd = random.Random(seed)
    th = tier == 'thorough'
    e1 = vlib.model_check('FilterE1.tla', 'FilterE1.cfg', wd, workers=8)
    if not e1['ok']:
        raise vlib.Broken('FilterE1 failed:\n' + e1['out'][-2000:])
    n = 12000 if th else 900
    base = []
    for k in range(n):
        ds, r, tag = rrgen.random_case(rnd, rnd.choice([['YEARLY', 'MONTHLY', 'WEEKLY', 'DAILY'], ['DAILY', 'WEEKLY'], ['HOURLY', 'MINUTELY', 'SECONDLY'], rrgen.FREQS]))
        r['pos'] = []                       # BYSETPOS has an open C01 finding of its own
        if len(r['H']) * len(r['M']) * len(r['S']) > 6: r['H'] = r['H'][:2]; r['M'] = r['M'][:2]; r['S'] = r['S'][:1]
        rules = [r]
        if rnd.random() < 0.25: rules.append(second_rule(rnd, ds, ['YEARLY', 'MONTHLY', 'WEEKLY', 'DAILY'] if len(ds) == 3 or rnd.random() < 0.7 else ['HOURLY', 'DAILY']))
        base.append((ds, rules))
    nsl = vlib.NCPU
    def runall(cases, name):
        per = -(-len(cases) // nsl)
        with cf.ThreadPoolExecutor(max_workers=nsl) as ex:
            return [r for part in ex.map(lambda k: strmrun.run_cases(drv, cases[k * per:(k + 1) * per], wd, '%s%d' % (name, k), budget=5), range(nsl)) for r in part]
    # phase 1 (input generation only): the unexcepted stream tells where occurrences are, so that exceptions can name them
    p1 = runall([{'uid': 'p%d' % k, 'ics': rrgen.event_ics('p%d' % k, ds, [rrgen.rule_text(r) for r in rules]), 'maxpop': 90, 'mode': 'p'} for k, (ds, rules) in enumerate(base)], 'p1_')
    cases = []
    for k, ((ds, rules), r1) in enumerate(zip(base, p1)):
        occ = [tup(o) for o in r1.get('occ', [])]
        if len(occ) < 2: continue
        timed = len(ds) > 3
        gap = None
        if timed: gap = min(int((D.datetime(*b) - D.datetime(*a)).total_seconds()) for a, b in zip(occ, occ[1:]) if b > a) if any(b > a for a, b in zip(occ, occ[1:])) else None
        # exceptions: the first occurrence, one in the middle, runs of consecutive ones, the last; instants that are no occurrence
        ex = []
        x = rnd.random()
        if x < 0.3: ex.append(occ[0])
        i = rnd.randrange(len(occ)); run_len = rnd.choice([1, 1, 2, 3, 5])
        ex += occ[i:i + run_len]
        if rnd.random() < 0.4: ex += rnd.sample(occ, min(len(occ), rnd.randint(1, 4)))
        if rnd.random() < 0.5: ex.append(shift_inst(rrgen.inst(rnd.choice(occ)), rnd.choice([1, -1, 3600, -86400])))
        if rnd.random() < 0.2: ex.append(shift_inst(rrgen.inst(ds), -86400 * 3))
        if rnd.random() < 0.15: ex = []
        rnd.shuffle(ex)
        # additions: duplicates of instances, DTSTART, instants in between, before DTSTART
        rd = []
        if rnd.random() < 0.5:
            for _ in range(rnd.randint(1, 4)):
                o = rnd.choice(occ); c = rnd.random()
                rd.append(o if c < 0.3 else shift_inst(rrgen.inst(o), rnd.choice([1, 59, 3600, 86400, -86400, 7 * 86400])) if c < 0.9 else shift_inst(rrgen.inst(ds), -86400 * rnd.randint(1, 40)))
            if rnd.random() < 0.3 and ex: rd.append(rnd.choice(ex))       # an addition that an exception names
        xrules = []
        if rnd.random() < 0.3:
            xrules.append(second_rule(rnd, ds, ['YEARLY', 'MONTHLY', 'WEEKLY', 'DAILY'] if (not timed or rules[0]['freq'] in ('YEARLY', 'MONTHLY', 'WEEKLY', 'DAILY')) else ['DAILY', 'HOURLY']))
            if timed and xrules[0]['freq'] not in ('HOURLY',) and rules[0]['H']: xrules[0]['H'] = rules[0]['H'][:1]; xrules[0]['M'] = rules[0]['M'][:1]; xrules[0]['S'] = rules[0]['S'][:1]
        durkind = rnd.choice(['none', 'none', 'none', 'dur', 'dtend'])
        dur = dtend = None
        if durkind != 'none':
            if timed:
                g = max(1, (gap or 60) - 1); secs = rnd.choice([1, g, max(1, g // 2)])
                if durkind == 'dur': dur = 'PT%dS' % secs
                else: dtend = shift_inst(rrgen.inst(ds), secs)
            else:
                if durkind == 'dur': dur = 'P1D'
                else: dtend = shift_inst(rrgen.inst(ds), 1)
        last = occ[-1]; hz = last[:3]
        exl = split_lines(rnd, ex); rdl = split_lines(rnd, rd)
        if not timed and rnd.random() < 0.4:
            # an all-day event whose exception (and addition) lists hold date-times next to dates of the same days: a date-time names
            # no all-day occurrence, the date does - whatever order the lines come in
            days = [x for x in ex if len(x) == 3] + rnd.sample(occ, min(len(occ), 2))
            xt = [tuple(d[:3]) + rnd.choice([(12, 0, 0), (0, 0, 0), (23, 59, 59)]) for d in rnd.sample(days, min(len(days), rnd.randint(1, 4)))]
            ex = ex + xt; exl = exl + split_lines(rnd, xt); rnd.shuffle(exl)
            if rd and rnd.random() < 0.5:
                rt_ = [tuple(d[:3]) + (12, 0, 0) for d in rnd.sample(rd, 1)]
                rd = rd + rt_; rdl = rdl + [rt_]; rnd.shuffle(rdl)
        ics = rrgen.event_ics('a%d' % k, ds, [rrgen.rule_text(r) for r in rules], rdates=rdl, exdates=exl, exrules=[rrgen.rule_text(r) for r in xrules], dur=dur, dtend=dtend)
        if timed and 1905 < ds[0] < 2030 and rnd.random() < 0.6:
            ics = zone_some_lines(rnd, ics)
        cases.append({'uid': 'a%d' % k, 'ds': rrgen.inst(ds), 'rules': [rrgen.spec_rule(r) for r in rules], 'xrules': [rrgen.spec_rule(r) for r in xrules], 'rdates': [rrgen.inst(x) for x in rd], 'exdates': [rrgen.inst(x) for x in ex],
                      'n_exdate_lines': len(exl), 'n_rdate_lines': len(rdl), 'durkind': durkind, 'rtext': ' | '.join(rrgen.rule_text(r) for r in rules), 'xtext': ' | '.join(rrgen.rule_text(r) for r in xrules),
                      'ics': ics, 'maxpop': 600, 'hz': hz, 'mode': rnd.choice('np')})
    recs = runall(cases, 'a_')
    for r in recs:
        for kk in ('uid', 'maxpop', 'mode'): r.pop(kk, None)
    trace = f'{wd}/alg.ndjson'
    with open(trace, 'w') as f:
        for r in recs: f.write(json.dumps(r) + '\n')
    chunks = vlib.split_lines(trace, vlib.NCPU * 2, wd, 'alg', min_lines=10)
    v = vlib.validate('TraceAlg.tla', 'TraceAlg.cfg', chunks, wd, timeout=3400)
    # ---- events with a TZID: the algebra on recorded streams (TraceAlgZ.tla).  Three streams per case: the event as written, its
    # RRULE alone, its EXRULE written as RRULE; EXRULEs with a UTC UNTIL at and around one of their instances, COUNTs, EXDATEs
    zc = []
    OFF = {'Europe/Berlin': 1, 'America/New_York': -5, 'Asia/Tokyo': 9, 'Australia/Sydney': 11, 'America/Los_Angeles': -8}     # January offsets
    for k in range(2000 if th else 160):
        zn = rnd.choice(sorted(OFF)); off = OFF[zn]
        d0 = D.datetime(rnd.choice([2015, 2021, 2026]), 1, rnd.randint(2, 6), rnd.randint(0, 23), rnd.choice([0, 30]), 0)
        rfr, rstep = rnd.choice([('HOURLY', 3600), ('HOURLY;INTERVAL=3', 10800), ('DAILY', 86400), ('MINUTELY;INTERVAL=90', 5400)])
        rn = rnd.randint(10, 60)
        rr = 'FREQ=%s;COUNT=%d' % (rfr, rn)
        xfr, xstep = rnd.choice([('DAILY', 86400), ('HOURLY;INTERVAL=6', 21600), ('HOURLY;INTERVAL=2', 7200), ('HOURLY', 3600)])
        xn = rnd.randint(1, 12)
        if rnd.random() < 0.3: xr = 'FREQ=%s;COUNT=%d' % (xfr, xn)
        else:
            ul = d0 + D.timedelta(seconds=(xn - 1) * xstep) - D.timedelta(hours=off) + D.timedelta(seconds=rnd.choice([0, 0, 0, 1, -1, 1800, -1800, 3600, -3600]))
            xr = 'FREQ=%s;UNTIL=%s' % (xfr, ul.strftime('%Y%m%dT%H%M%SZ'))
        exd = []
        if rnd.random() < 0.4:
            for _ in range(rnd.randint(1, 3)):
                e = d0 + D.timedelta(seconds=rnd.randint(0, rn - 1) * rstep) - D.timedelta(hours=off); exd.append((e.year, e.month, e.day, e.hour, e.minute, e.second))
        ds = (d0.year, d0.month, d0.day, d0.hour, d0.minute, d0.second)
        common = {'zone': zn, 'rtext': rr, 'xtext': xr, 'exd': [list(x) for x in exd]}
        zc.append(dict(common, uid='zf%d' % k, role='full', maxpop=200, mode=rnd.choice('np'), ics=rrgen.event_ics('zf%d' % k, ds, [rr], exrules=[xr], exdates=[exd] if exd else [], tzid=zn)))
        zc.append(dict(common, uid='zr%d' % k, role='r', maxpop=200, mode='n', ics=rrgen.event_ics('zr%d' % k, ds, [rr], tzid=zn)))
        zc.append(dict(common, uid='zx%d' % k, role='x', maxpop=400, mode='n', ics=rrgen.event_ics('zx%d' % k, ds, [xr], tzid=zn)))
    perz = -(-len(zc) // nsl); perz += (3 - perz % 3) % 3
    with cf.ThreadPoolExecutor(max_workers=nsl) as ex:
        zr = [r for part in ex.map(lambda k: strmrun.run_cases(drv, zc[k * perz:(k + 1) * perz], wd, 'z_%d' % k, budget=5, maxpop=400), range(nsl)) for r in part]
    zrecs = []
    for a, b, c in zip(zr[0::3], zr[1::3], zr[2::3]):
        assert a['role'] == 'full' and b['role'] == 'r' and c['role'] == 'x'
        rec = {'e': 'AlgZ', 'zone': a['zone'], 'rtext': a['rtext'], 'xtext': a['xtext'], 'exd': a['exd'], 'full': a.get('occ', []), 'fstop': a.get('stop', 'eos'), 'rset': b.get('occ', []), 'rstop': b.get('stop', 'eos'),
               'xset': c.get('occ', []), 'xstop': c.get('stop', 'eos'), 'text': a.get('text', '')}
        for x in (a, b, c):
            if 'crash' in x: rec['crash'] = x['crash']
            if 'timeout' in x: rec['timeout'] = True
        zrecs.append(rec)
    ztrace = f'{wd}/algz.ndjson'
    with open(ztrace, 'w') as f:
        for r in zrecs: f.write(json.dumps(r) + '\n')
    vz = vlib.validate('TraceAlgZ.tla', 'TraceAlgZ.cfg', vlib.split_lines(ztrace, vlib.NCPU, wd, 'algz', min_lines=10), wd, timeout=1800)
    bad = []
    for fn, k, g in vz['bad'][:300]:
        rec = json.loads(vlib.getline(fn, k)); rec['zoned_algebra'] = True
        bad.append((vlib.save_replay(PID, f'zline{g}.json', rec), rec))
    for fn, k, g in v['bad'][:3000]:
        rec = json.loads(vlib.getline(fn, k)); rec['nocc'] = len(rec.get('occ', [])); rec['occ'] = rec.get('occ', [])[:6]
        bad.append((vlib.save_replay(PID, f'line{g}.json', rec), rec))
    unlisted, listed = vlib.classify(PID, bad, derive)
    cov = {'states': e1['states'], 'transitions': e1['transitions'], 'filter_model_actions': e1['coverage'], 'traces_validated_against_impl': len(recs),
           'samples': [{'ds': recs[i]['ds'], 'rtext': recs[i]['rtext'], 'xtext': recs[i]['xtext'], 'exdates': recs[i]['exdates'][:3], 'rdates': recs[i]['rdates'][:3], 'durkind': recs[i]['durkind'], 'nocc': len(recs[i].get('occ', []))} for i in (0, 1, 2)],
           'evaluations': len(recs) + len(zrecs), 'zoned_algebra_cases': len(zrecs), 'zoned_algebra_mismatching': vz['nbad'], 'distinct_nontrivial': len(set(r['text'] for r in recs if r.get('occ'))),
           'rule': 'one case = one event: 1..2 RRULEs synchronised with DTSTART (every FREQ, the C01 shapes), 0..3 EXDATE lines of 1..5 values naming the first / a middle / consecutive / the last occurrence and instants that are no occurrence, 0..3 RDATE lines (duplicates of instances, instants in between, before DTSTART, ones an exception names), 0..1 EXRULE, duration none (the cron case) / DURATION / DTEND below the gap; DATE and DATE-TIME; its stream is followed to the horizon (<= 600 pops) and compared as a whole with RSetAlg!EventSet',
           'with_exdate': sum(1 for r in recs if r['exdates']), 'with_several_exdate_lines': sum(1 for r in recs if r['n_exdate_lines'] > 1), 'with_rdate': sum(1 for r in recs if r['rdates']), 'with_exrule': sum(1 for r in recs if r['xrules']),
           'zero_duration': sum(1 for r in recs if r['durkind'] == 'none'), 'build': fl, 'mismatching_streams': v['nbad'], 'skipped_undefined_or_undecided': v['nskip'], 'exhaustive': False}
    return vlib.finish(PID, tier, seed, 'model_checking', cov, t0, unlisted, listed,
                       ['TLC/SANY, Json/IOUtils, SequencesExt', 'RRule.tla for the constituent rule sets (C01)', 'exception and addition values are chosen from a first, unexcepted run of the same event (input generation only)',
                        'an RDATE-only event is not required to contain DTSTART (the statement speaks of RRULE instances and RDATE instances)'])
