"""C13 - executor runs the job as specified and routes its output as configured"""
import time, json, random, os, concurrent.futures as cf
import vlib, execrun

PID = 'C13'

def run(tier, seed):
    t0 = time.time()
    wd = vlib.workdir(PID)
    B = vlib.build('plain')
    shim = execrun.build_shim(B)
    rnd = random.Random(seed)
    inherited = os.umask(0o22); os.umask(inherited)
    e1 = vlib.model_check('ExecutorE1.tla', 'ExecutorE1.cfg', wd, workers=8)
    if not e1['ok']:
        raise vlib.Broken('ExecutorE1: the descriptor plan model does not route per contract:\n' + e1['out'][-2500:])
    rows = [(so, se, mo, me) for so, se in [('', ''), ('', 'F2'), ('F1', ''), ('F1', 'F1'), ('F1', 'F2')] for mo in (1, 0) for me in (1, 0)]
    jobs = []
    def variants():
        v = [dict(bursts=[(1, 1), (2, 1)], exitcode=0), dict(bursts=[], exitcode=1), dict(bursts=[(1, 3), (2, 2), (1, 2), (2, 3)], exitcode=255),
             dict(bursts=[(2, 9), (1, 9)], pad=4089, exitcode=0),                 # ~36 KiB per stream
             dict(bursts=[(1, 17), (2, 17)], pad=4089, exitcode=3),               # beyond the 64 KiB pipe capacity, one stream after the other
             dict(bursts=[(1, 2), (2, 1)], sig=15), dict(bursts=[(1, 1)], sig=9),
             # a job starts with every signal at its default action: one ended by SIGPIPE (or by any other signal), and one whose pipelines rely on it
             dict(bursts=[(1, 1), (2, 2)], sig=13), dict(bursts=[(2, 1), (1, 1)], sig=rnd.choice([1, 6, 10, 12, 14])), dict(bursts=[(1, 1), (2, 1)], pipeline=True, exitcode=0),
             # a job that is stopped and continued on the way
             dict(bursts=[(1, 2), (2, 2), (1, 3)], stopcont=True, exitcode=rnd.choice([0, 5])), dict(bursts=[(2, 1), (1, 1)], stopcont=True, sig=15)]
        if tier == 'thorough':
            v += [dict(bursts=[(1, 130), (2, 130)], pad=4089, exitcode=0), dict(bursts=[(1, 1), (2, 1)] * 120, pad=4089, exitcode=0),   # ~1 MiB
                  dict(bursts=[(1, 5), (2, 5)], sig=24), dict(bursts=[(1, 40)], pad=100, exitcode=7)]
            for _ in range(60):
                v.append(dict(bursts=[(rnd.choice([1, 2]), rnd.randint(1, 30)) for _ in range(rnd.randint(1, 12))], pad=rnd.choice([0, 0, 100, 1000, 4089]), exitcode=rnd.choice([0, 1, 2, 42, 255])))
        else:
            for _ in range(2):
                v.append(dict(bursts=[(rnd.choice([1, 2]), rnd.randint(1, 12)) for _ in range(rnd.randint(1, 8))], pad=rnd.choice([0, 100, 4089]), exitcode=rnd.choice([0, 1, 42])))
        return v
    for (so, se, mo, me) in rows:
        for v in variants():
            rq = {'so': so, 'se': se, 'mo': mo, 'me': me, 'umask': rnd.choice([0o22, 0o27, 0o77, 0o0]), 'stdin': 'input-%d' % rnd.randint(0, 999),
                  'shell': rnd.choice(['/bin/sh', '/bin/sh', '/bin/bash'])}
            jobs.append((rq, v))
    # output files named relative to the job's working directory, in every routing
    for (so, se, mo, me) in rows:
        if not (so or se): continue
        for v in variants()[:1] + variants()[2:3]:
            jobs.append(({'so': so, 'se': se, 'mo': mo, 'me': me, 'umask': 0o22, 'stdin': 'rel', 'shell': '/bin/sh', 'relfiles': True}, v))
    # a mailer that fails (sendmail exits 75 or 1 after taking the message): routing into the files, the journal and the removal of
    # the temporary files do not depend on it
    for (so, se, mo, me) in rows:
        if not (mo or me): continue
        for v in variants()[:3] + variants()[4:5]:
            jobs.append(({'so': so, 'se': se, 'mo': mo, 'me': me, 'umask': 0o22, 'stdin': 'in', 'shell': '/bin/sh', 'mailrc': rnd.choice([75, 1, 69])}, v))
    # requests of two tasks (one echsx takes them in turn): a short task whose output is mailed goes first, then the job
    for (so, se, mo, me) in rows:
        for v in variants()[:2] + variants()[3:4]:
            # half of them say nothing about the umask (neither does the task before them): the job runs with the one the executor was started with
            nou = rnd.random() < 0.5
            jobs.append(({'so': so, 'se': se, 'mo': mo, 'me': me, 'umask': inherited if nou else 0o22, 'noumask': nou, 'stdin': 'in2', 'shell': '/bin/sh', 'warmup': True}, v))
    # requests whose shell does not exist
    for (so, se, mo, me) in rows[::2]:
        jobs.append(({'so': so, 'se': se, 'mo': mo, 'me': me, 'umask': 0o22, 'stdin': 'x', 'nospawn': True}, dict(bursts=[(1, 1)], exitcode=7)))
    # --no-run requests
    for (so, se, mo, me) in rows[::3]:
        jobs.append(({'so': so, 'se': se, 'mo': mo, 'me': me, 'umask': 0o22, 'stdin': 'x', 'norun': True}, dict(bursts=[(1, 1)], exitcode=0)))
    xd = f'{wd}/x'; os.makedirs(xd, exist_ok=True)
    # a job that runs into the time limit of its request (DURATION:PT1S, what echsd hands over for an event with a duration): ended by the
    # deadline's signal, which is what the journal has to say, in every routing; what it wrote before is delivered
    for (so, se, mo, me) in rows:
        jobs.append(({'so': so, 'se': se, 'mo': mo, 'me': me, 'umask': 0o22, 'stdin': 'lim', 'shell': '/bin/sh'}, dict(bursts=[(1, 2), (2, 2)], sig=24, linger=4, limit=1)))
    def one(j):
        rq, v = j
        return execrun.run_one(B, shim, xd, rq, v['bursts'], v.get('exitcode', 0), v.get('sig', 0), v.get('pad', 0), timeout=120,
                               extra_vtodo=(['DURATION:PT%dS' % v['limit']] if v.get('limit') else ()), linger=v.get('linger', 0), pipeline=v.get('pipeline', False), stopcont=v.get('stopcont', False))
    with cf.ThreadPoolExecutor(max_workers=vlib.NCPU) as ex:
        recs = list(ex.map(one, jobs))
    trace = f'{wd}/exec.ndjson'
    with open(trace, 'w') as f:
        for r in recs: f.write(json.dumps(r) + '\n')
    chunks = vlib.split_lines(trace, vlib.NCPU, wd, 'exec', min_lines=10)
    v = vlib.validate('TraceExec.tla', 'TraceExec.cfg', chunks, wd)
    bad = []
    for fn, k, g in v['bad'][:200]:
        rec = json.loads(vlib.getline(fn, k))
        small = dict(rec); small['job'] = dict(rec['job'], out=len(rec['job']['out']), err=len(rec['job']['err']))
        small['obs'] = dict(rec['obs'], ofile=rec['obs']['ofile'][:12], efile=rec['obs']['efile'][:12], mail=rec['obs']['mail'][:12], ofile_n=len(rec['obs']['ofile']), efile_n=len(rec['obs']['efile']), mail_n=len(rec['obs']['mail']))
        d = {'row': '%s/%s/%d/%d' % (rec['rq']['so'], rec['rq']['se'], rec['rq']['mo'], rec['rq']['me']), 'sig': rec['job']['sig'], 'norun': rec['rq']['norun']}
        bad.append((vlib.save_replay(PID, f'run{g}.json', small), dict(small, **d)))
    # the journal is shared: echsd hands every executor a descriptor of its own on one journal file, and runs that finish at the same
    # moment append at the same time.  Rounds of 6..12 real echsx released together on one file; TraceJournal.tla wants whole entries,
    # every UID once (Journal.tla is the model; its variant without the lock must violate)
    import sys; sys.path.insert(0, f'{vlib.VERIF}/gen/extra'); import journal
    ej = vlib.model_check('JournalE1.tla', 'JournalE1.cfg', wd, workers=4)
    if not ej['ok']: raise vlib.Broken('JournalE1 failed:\n' + ej['out'][-1500:])
    if vlib.model_check('JournalE1.tla', 'JournalE1_nolock.cfg', wd, workers=4)['ok']: raise vlib.Broken('Journal.tla does not discriminate: the variant without locking satisfies the contract')
    jrecs = [journal.one_round(B, shim, wd, rnd.choice([6, 8, 12]), rnd, r) for r in range(60 if tier == 'thorough' else 16)]
    jtrace = f'{wd}/journal.ndjson'
    with open(jtrace, 'w') as f:
        for r in jrecs: f.write(json.dumps(r) + '\n')
    vj = vlib.validate('TraceJournal.tla', 'TraceJournal.cfg', [(jtrace, 0)], wd)
    for fn, k, g in vj['bad']:
        rec = json.loads(vlib.getline(fn, k))
        bad.append((vlib.save_replay(PID, f'journal{g}.json', rec), {'row': 'journal', 'sig': 0, 'norun': False, 'journal_round': True}))
    unlisted, listed = vlib.classify(PID, bad)
    nbytes = sum(t[2] for r in recs for t in r['job']['out'] + r['job']['err'])
    cov = {'states': e1['states'], 'transitions': e1['transitions'], 'traces_validated_against_impl': len(recs),
           'samples': [{'rq': recs[0]['rq'], 'job': {'out': len(recs[0]['job']['out']), 'err': len(recs[0]['job']['err']), 'exit': recs[0]['job']['exit']}, 'obs': {k: recs[0]['obs'][k] for k in ('starts', 'nmail', 'jexit', 'jsig', 'tmpleft')}}],
           'evaluations': len(recs), 'distinct_nontrivial': len(recs),
           'rule': 'one case = one run of the real echsx process on a generated execution request: all 20 (OFILE, EFILE, MAIL-OUT, MAIL-ERR) combinations x job variants (token bursts in scripted interleavings, 0 bytes .. ~70 KiB per stream (thorough ~1 MiB), exit codes 0/1/3/42/255, SIGTERM/SIGKILL(/SIGXCPU)), plus --no-run requests; sendmail is redirected to a recorder, mkstemp names are logged',
           'rows': len(rows), 'bytes_written_by_jobs': nbytes, 'mismatching_runs': v['nbad'], 'journal_rounds': len(jrecs), 'journal_executors': sum(r['nproc'] for r in jrecs), 'journal_rounds_bad': vj['nbad'],
           'e1': 'ExecutorE1: 24 request shapes x all interleavings of 2 tokens per stream and of the pumps: the 20-row descriptor plan routes per Executor!RoutingOk', 'exhaustive': False}
    return vlib.finish(PID, tier, seed, 'model_checking', cov, t0, unlisted, listed,
                       ['TLC/SANY, Json/IOUtils', 'LD_PRELOAD shim: posix_spawn(/usr/sbin/sendmail) -> recorder, mkstemp/alarm logged', 'runs use the invoking user\'s own uid/gid (no root needed)',
                        'output files are tokenised by regex into (stream, number, length) triples; TLC judges them'])
