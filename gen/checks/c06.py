"""C06 - queue survives restart and crash: checkpoint file is never torn"""
import time, json, random, os, concurrent.futures as cf
import vlib, daemon

PID = 'C06'

def uid_moves(script):
    """input classification: some UID is added by one user, cancelled, and later added by another user"""
    import re
    state = {}      # uid -> ('added'|'cancelled', peer)
    for c in script:
        f = c.split('\t')
        if f[0] not in ('A', 'AC'): continue
        peer = int(f[1]); text = f[-1]
        cancel = 'METHOD:CANCEL' in text
        for u in re.findall(r'UID:([^\\]+)(?:\\r)?\\n', text):
            st = state.get(u)
            if cancel:
                if st and st[1] == peer: state[u] = ('cancelled', peer)
            else:
                if st and st[0] == 'cancelled' and st[1] != peer: return True
                if not st or st[0] == 'cancelled': state[u] = ('added', peer)
    return False

def run(tier, seed):
    t0 = time.time()
    wd = vlib.workdir(PID)
    B = vlib.build('plain')
    drv = daemon.build_driver(B)
    rnd = random.Random(seed)
    e1 = vlib.model_check('ChkpntE1.tla', 'ChkpntE1.cfg', wd, workers=8)
    if not e1['ok']:
        raise vlib.Broken('ChkpntE1: the dot-file/rename protocol model violates the disk contract:\n' + e1['out'][-2500:])
    for act in ('Open', 'Write', 'Close', 'Rename', 'Fail', 'Crash'):
        if e1['coverage'].get(act, {}).get('distinct', 0) == 0:
            raise vlib.Broken(f'ChkpntE1 vacuous: {act} never taken')
    # the all-users checkpoint (chkpnta) has a model of its own; its two as-found variants must violate the contract (discrimination)
    e1a = vlib.model_check('ChkpntAllE1.tla', 'ChkpntAllE1.cfg' if tier == 'thorough' else 'ChkpntAllE1_quick.cfg', wd, workers=8)
    if not e1a['ok']:
        raise vlib.Broken('ChkpntAllE1: the all-users checkpoint model violates the disk contract:\n' + e1a['out'][-2500:])
    for cfg in ('ChkpntAllE1_asfound.cfg', 'ChkpntAllE1_nosweep.cfg'):
        if vlib.model_check('ChkpntAllE1.tla', cfg, wd, workers=4)['ok']:
            raise vlib.Broken(f'ChkpntAll.tla does not discriminate: {cfg} satisfies the contract')
    spool = f'{wd}/spool'; os.makedirs(spool, exist_ok=True)
    nh = 150 if tier == 'thorough' else 14
    hist = []
    for k in range(nh):
        kind = k % 4
        if kind == 3:   # 17 users: the dirty array overflows and chkpnta() writes every user that owns a task
            users = tuple(2000 + i for i in range(17))
            h = daemon.chk_history(rnd, users=users, uids=tuple('j%d' % i for i in range(12)), nreq=22, every_user=True) if (k // 4) % 2 == 0 else daemon.chk_history_all(rnd)
        elif kind == 2: # fat tasks: several 4 KiB flushes per file
            h = daemon.chk_history(rnd, fat=True, nreq=6)
        else:
            h = daemon.chk_history(rnd, nreq=rnd.choice([2, 4, 6]))
        hist.append(h)
    # tasks printed in more than one print buffer, their lengths one apart: what is printed last ends on every position around the
    # 4096th byte.  These histories run fault-free only (a clean shutdown and restart shows what was lost)
    nfault = len(hist)
    # (75 addressees and the fixed lines make about 3900 bytes; with 40..290 more the lines after them straddle the buffer end)
    for i in range(10 if tier == 'thorough' else 5):
        for rule in (False, True):
            hist.append(daemon.brim_history(rnd, 40 + 50 * i if tier != 'thorough' else 25 * i, rule=rule))
    jobs = []
    for hi, (cmds, metas) in enumerate(hist):
        if hi >= nfault:
            jobs.append((hi, 0, 'none')); continue
        base = daemon.chk_experiment(drv, spool, cmds, metas)
        calls = [e for e in base['ev'] if e['e'] == 'Sys']
        jobs.append((hi, 0, 'none'))
        ks = list(range(1, len(calls) + 1))
        if tier != 'thorough' and len(ks) > 40: ks = sorted(rnd.sample(ks, 40))
        for k in ks:
            jobs.append((hi, k, 'c')); jobs.append((hi, k, 'f'))
            if calls[k - 1]['call'] == 'write': jobs.append((hi, k, 's'))
        if tier != 'thorough' and hi % 4 == 3:
            # the all-users checkpoint keeps every user's file open and shares one print buffer between them:
            # every one of its writes is a fault point, not a sample
            for k in range(1, len(calls) + 1):
                if k not in ks and calls[k - 1]['call'] == 'write': jobs.append((hi, k, 'f')); jobs.append((hi, k, 's'))
            # ... and a failing write followed by the death of the daemon before it gets to checkpoint again: what the failed round
            # has put into place stays, and has to be whole
            for k in range(1, len(calls) + 1):
                if calls[k - 1]['call'] == 'write': jobs.append((hi, k, 'd'))
    # every history also runs once, without a fault, on the sanitizer build of the daemon code (a report ends the process: the daemon
    # died without our doing), e.g. pointers kept into an array across its growth in the all-users checkpoint
    B2 = vlib.build('asan'); drv2 = daemon.build_driver(B2)
    os.environ['ASAN_OPTIONS'] = 'detect_leaks=0:abort_on_error=0:exitcode=99'
    for hi in range(nfault): jobs.append((hi, 0, 'asan'))
    def one(j):
        hi, k, mode = j
        r = daemon.chk_experiment(drv2 if mode == 'asan' else drv, spool, hist[hi][0], hist[hi][1], k or None, mode if k else None)
        r['hist'] = hi
        return r
    with cf.ThreadPoolExecutor(max_workers=vlib.NCPU) as ex:
        recs = list(ex.map(one, jobs))
    trace = f'{wd}/chk.ndjson'
    with open(trace, 'w') as f:
        for r in recs: f.write(json.dumps(r) + '\n')
    chunks = vlib.split_lines(trace, vlib.NCPU, wd, 'chk', min_lines=40)
    v = vlib.validate('TraceChkpnt.tla', 'TraceChkpnt.cfg', chunks, wd)
    bad = []
    for fn, k, g in v['bad'][:400]:
        rec = json.loads(vlib.getline(fn, k)); rec['script'] = hist[rec['hist']][0]
        calls = [e for e in rec['ev'] if e['e'] in ('Crash', 'Fail')]
        derived = {'fault_call': calls[0]['call'] if calls else 'none', 'nusers': len(set(f['user'] for f in rec['files'])), 'uid_moves_between_users': uid_moves(rec['script'])}
        bad.append((vlib.save_replay(PID, f'exp{g}.json', rec), dict(rec, **derived)))
    unlisted, listed = vlib.classify(PID, bad)
    ncrash = sum(1 for j in jobs if j[2] == 'c'); nfail = sum(1 for j in jobs if j[2] in ('f', 's', 'd'))
    cov = {'evaluations': len(recs), 'distinct_nontrivial': len(recs) - nh,
           'rule': 'one case = (request history, k, mode): the history runs on the real daemon code with its checkpoint system calls (openat/write/close/renameat/unlinkat of .echsq_<uid>.ics) interposed; at the k-th such call the process dies (mode c), or the call fails once with EIO (f), or a write is short (s); then a fresh daemon process loads the spool. Every call of every checkpoint of the history is a fault point (quick: at most 40 per history). Histories: 2 users, fat tasks forcing several 4 KiB flushes, 17 users overflowing the 16-slot dirty array, and (fault-free only) sweeps of 50 tasks of more than 4 KiB whose lengths are one apart, so that a printed piece ends on every position around the end of the print buffer. every history also runs fault-free on the -fsanitize=address,bounds build. Non-trivial = a fault was injected',
           'samples': [{'history': hist[0][0][:3], 'k': jobs[1][1], 'mode': jobs[1][2], 'files': recs[1]['files'], 'armed': recs[1]['armed']}],
           'histories': nh, 'crash_points': ncrash, 'failing_calls': nfail, 'mismatching_experiments': v['nbad'],
           'states': e1['states'] + e1a['states'], 'transitions': e1['transitions'] + e1a['transitions'], 'all_users_checkpoint_model': {'states': e1a['states'], 'actions': e1a['coverage']}, 'traces_validated_against_impl': len(recs),
           'e1': 'ChkpntE1: Open(O_TRUNC)/Write*/Close/Rename per dirty user with Crash and a single Fail at every step; 2 users, 3 tasks, 4 changes, 3 writes per file: live file never torn, reload = a finished checkpoint, fault-free checkpoint saves all',
           'e1_actions': e1['coverage'], 'exhaustive': tier == 'thorough'}
    return vlib.finish(PID, tier, seed, 'fault_enumeration', cov, t0, unlisted, listed,
                       ['TLC/SANY, Json/IOUtils', 'crash = _exit at the entry of the interposed call (nothing of that call has happened); power-loss reordering of un-fsynced data is not modelled',
                        'file facts (BEGIN/END counts, UID lines, last line) are extracted by regex, the judgement is TraceChkpnt.tla'])
