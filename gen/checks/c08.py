"""C08 - instant arithmetic and epoch conversions agree with the calendar"""
import time, json, os, collections
import vlib

PID = 'C08'

def run(tier, seed):
    t0 = time.time()
    wd = vlib.workdir(PID)
    B = vlib.build('plain')
    drv = vlib.driver(B, 'drv_arith')
    # E1: laws of the contract model itself
    e1 = vlib.model_check('ArithLaws.tla', 'ArithLaws.cfg', wd, workers=8, env={'TIER': tier})
    if not e1['ok']:
        raise vlib.Broken('ArithLaws: the contract model violates its own laws:\n' + e1['out'][-1500:])
    # E2: record the real code
    trace = f'{wd}/arith.ndjson'
    with open(trace, 'w') as f:
        vlib.subprocess.run([drv, 'all', tier, str(seed)], stdout=f, check=True, timeout=600)
    extra = tstamp_trace(B, wd, tier, seed)
    if extra:
        with open(trace, 'a') as f:
            f.write(open(extra).read())
    kinds = collections.Counter()
    distinct = set()
    samples = {}
    with open(trace) as f:
        for l in f:
            k = l[6:l.index('"', 6)]
            kinds[k] += 1
            distinct.add(hash(l[:l.rfind(',"')]))
            if k not in samples:
                samples[k] = json.loads(l)
    chunks = vlib.split_lines(trace, vlib.NCPU, wd, 'arith')
    v = vlib.validate('TraceArith.tla', 'TraceArith.cfg', chunks, wd)
    bad = []
    for fn, k, g in v['bad'][:2000]:
        rec = json.loads(vlib.getline(fn, k))
        bad.append((vlib.save_replay(PID, f'line{g}.json', rec), rec))
    unlisted, listed = vlib.classify(PID, bad)
    cov = {'states': e1['states'], 'transitions': e1['transitions'], 'traces_validated_against_impl': len(chunks),
           'samples': list(samples.values()), 'evaluations': v['n'], 'distinct_nontrivial': len(distinct),
           'rule': 'every recorded call (Diff/Add/Fix/ToEp/FromEp/Tstamp/Cmp) with distinct arguments counts once; day-level grid x 14 anchors, seeded random second/ms pairs, overflow grid, 400^2 order pairs',
           'lines_by_kind': dict(kinds), 'mismatching_lines': v['nbad'], 'skipped_undefined': v['nskip'],
           'e1_invariants': ['CivilRoundTrip', 'AddDiffInverse', 'DiffAntisym', 'DiffIsElapsed', 'OrderAgrees', 'AllDayFirst', 'FixupKeepsTime', 'EpochRoundTrip', 'WeekdayStep'],
           'exhaustive': tier == 'thorough'}
    if v['nbad'] > len(bad):
        cov['note'] = f"{v['nbad']} mismatching lines, first {len(bad)} classified"
    return vlib.finish(PID, tier, seed, 'model_checking', cov, t0, unlisted, listed,
                       ['TLC/SANY and the Json/IOUtils community modules', 'spec/Cal.tla calendar arithmetic (self-checked by ArithLaws and gen/selftest_cal.py)',
                        'the ndjson emitter harness/drv/drv_arith.c prints arguments and results only'])

def tstamp_trace(B, wd, tier, seed):
    """echsd's instant_to_tstamp through the daemon harness, when that harness exists"""
    try:
        import daemon
    except ImportError:
        return None
    return daemon.tstamp_trace(B, wd, tier, seed)
