"""C16 - occurrence streams are ordered and bounded for every rule, extensions included"""
import time, json, random, os, collections, concurrent.futures as cf
import vlib, rrgen, strmrun

PID = 'C16'

def run(tier, seed, pid=PID, flavour='plain', n=None, maxpop=2000):
    t0 = time.time()
    wd = vlib.workdir(pid)
    B = vlib.build(flavour)
    drv = vlib.driver(B, 'drv_strm', libs='-lltdl -lm -ldl')
    rnd = random.Random(seed)
    e1 = vlib.model_check('RuleStreamE1.tla', 'RuleStreamE1_corr.cfg', wd, workers=4)
    if not e1['ok']:
        raise vlib.Broken('RuleStreamE1 failed:\n' + e1['out'][-2000:])
    n = n or (120000 if tier == 'thorough' else 3000)
    cases = []
    for k in range(n):
        c = rrgen.full_event(rnd, 'e%d' % k)
        c['maxpop'] = maxpop if rnd.random() < 0.08 else rnd.choice([70, 130, 200])
        c['mode'] = rnd.choice('np')
        cases.append(c)
    # refill-boundary families: duplicates or backward steps that only show when they straddle two cache loads
    def fam(k, ds, rt, tz=None):
        return {'uid': 'f%d' % k, 'ds': rrgen.inst(ds), 'tz': bool(tz), 'rtext': rt, 'count': 0, 'until': [], 'ics': rrgen.event_ics('f%d' % k, ds, [rt], tzid=tz), 'maxpop': 2000, 'mode': 'p'}
    nf = 0
    for zn, (mo, dy) in (('Europe/Berlin', (3, 20)), ('America/New_York', (3, 1)), ('Australia/Sydney', (9, 25)), ('Pacific/Chatham', (9, 18)), ('Europe/London', (3, 20))):
        for _ in range(40 if tier == 'thorough' else 8):
            y = rnd.choice([2019, 2020, 2021, 2024, 2031]); h = rnd.randint(0, 23); mi = rnd.choice([0, 10, 20, 40, 59])
            rt = rnd.choice(['FREQ=HOURLY', 'FREQ=MINUTELY;INTERVAL=20', 'FREQ=MINUTELY;INTERVAL=7', 'FREQ=HOURLY;BYMINUTE=0,30', 'FREQ=MINUTELY;INTERVAL=15;BYHOUR=0,1,2,3,4'])
            cases.append(fam(nf, (y, mo, min(dy + rnd.randint(0, 6), rrgen.dim(y, mo)), h, mi, 0), rt, zn)); nf += 1
    for _ in range(120 if tier == 'thorough' else 24):
        y = rnd.choice([2018, 2020, 2023, 2026]); m = rnd.randint(1, 12)
        rt = 'FREQ=MONTHLY;BYMONTHDAY=%s;SHIFT=%s' % (rnd.choice(['-1,1', '1,2,-1', '-1,1,15', '30,31,1']), rnd.choice(['1B', '0B', '-0B', '2B', '-1B', '1B+']))
        cases.append(fam(nf, (y, m, 1), rt)); nf += 1
    # zoned events whose UNTIL (a UTC value) lies in the other half of the zone's year than DTSTART, a few minutes before or after
    # an occurrence: the occurrence just after UNTIL must not come out, whatever offset the zone had at DTSTART
    import tzif, bisect, datetime as D
    def off_at(z, u):
        i = bisect.bisect_right(z['trans'], u) - 1
        return z['offs'][i] if i >= 0 else z['off0']
    def utc_of(z, loc):
        for o in sorted(set(z['offs'][-8:] + [z['off0']]), reverse=True):
            if off_at(z, loc - o) == o: return loc - o
        return None
    E0 = D.datetime(1970, 1, 1)
    for zn in ('Europe/Berlin', 'America/New_York', 'Australia/Sydney', 'Europe/London', 'Pacific/Chatham', 'America/Sao_Paulo'):
        z = tzif.read('/usr/share/zoneinfo/' + zn)
        if z is None: continue
        for _ in range(60 if tier == 'thorough' else 10):
            y = rnd.randint(1990, 2030); m = rnd.randint(1, 12); d = rnd.randint(1, 28); h = rnd.randint(0, 23); mi = rnd.choice([0, 15, 30, 45])
            loc0 = int((D.datetime(y, m, d, h, mi) - E0).total_seconds()); u0 = utc_of(z, loc0)
            if u0 is None: continue
            freq, step = rnd.choice([('DAILY', 1), ('DAILY', 1), ('WEEKLY', 7), ('HOURLY', 0), ('MONTHLY', 0)])
            nd = None
            for k in sorted(rnd.sample(range(20, 300), 40)):
                if step == 7: k -= k % 7
                uk = utc_of(z, loc0 + k * 86400)
                if uk is not None and off_at(z, uk) != off_at(z, u0): nd = k; break
            if nd is None: continue
            if freq == 'MONTHLY':
                # the occurrence of a later month on the same day of the month
                mm = m + rnd.randint(3, 8); yy = y + (mm - 1) // 12; mm = (mm - 1) % 12 + 1
                lk = int((D.datetime(yy, mm, d, h, mi) - E0).total_seconds())
            else: lk = loc0 + nd * 86400
            uk = utc_of(z, lk)
            if uk is None or off_at(z, uk) == off_at(z, u0): continue
            un = uk + rnd.choice([-59, -30, -10, -1, 0, 1, 30]) * 60
            ut = E0 + D.timedelta(seconds=un)
            until = [ut.year, ut.month, ut.day, ut.hour, ut.minute, ut.second, 0]
            rt = 'FREQ=%s;UNTIL=%04d%02d%02dT%02d%02d%02dZ' % ((freq,) + tuple(until[:6]))
            c = fam(nf, (y, m, d, h, mi, 0), rt, zn); c['until'] = rrgen.inst(tuple(until[:6])); c['maxpop'] = 8000 if freq == 'HOURLY' else 2000
            cases.append(c); nf += 1
    # yearly Easter rules whose offsets reach into the neighbouring years (candidates of one period are not in time order then), DTSTART
    # swept day by day through the window between this year's early and last year's late offset: nothing may come out before DTSTART
    def easter(y):
        a = y % 19; b, c = divmod(y, 100); d, e = divmod(b, 4); f = (b + 8) // 25; g = (b - f + 1) // 3; h = (19 * a + b - d - g + 15) % 30
        i, k = divmod(c, 4); l = (32 + 2 * e + 2 * i - h - k) % 7; m = (a + 11 * h + 22 * l) // 451
        mo, dy = divmod(h + l - 7 * m + 114, 31); return D.date(y, mo, dy + 1)
    for offs in ([-60, 300], [-100, 0, 280], [-330, 30], [-200, 200], [-366, 0, 366]):
        for _ in range(6 if tier == 'thorough' else 2):
            y = rnd.randint(1950, 2060)
            lo = easter(y) + D.timedelta(min(offs)); hi = easter(y - 1) + D.timedelta(max(offs))
            a, b = min(lo, hi), max(lo, hi)
            for dd in range(-2, (b - a).days + 3):
                d0 = a + D.timedelta(dd)
                ds = (d0.year, d0.month, d0.day, 9, 0, 0) if rnd.random() < 0.5 else (d0.year, d0.month, d0.day)
                rt = 'FREQ=YEARLY;BYEASTER=%s' % ','.join(map(str, offs)) + rnd.choice(['', ';COUNT=150', ';COUNT=70'])
                c = fam(nf, ds, rt); c['maxpop'] = 200
                if 'COUNT' in rt: c['count'] = int(rt.split('COUNT=')[1])
                cases.append(c); nf += 1
    # every calendar scale with an UNTIL long before DTSTART (for the table calendars: before everything they cover): nothing comes out
    for sc in rrgen.HIJRI:
        for fr in ('YEARLY', 'MONTHLY'):
            ut = rnd.choice([(1900, 1, 1, 0, 0, 0), (1930, 6, 1, 12, 0, 0), (1936, 12, 31, 23, 59, 59), (1901, 1, 1)])
            utxt = '%04d%02d%02d' % ut[:3] + ('T%02d%02d%02dZ' % ut[3:] if len(ut) > 3 else '')
            ds = (rnd.choice([1950, 2000, 2020, 2030]), rnd.randint(1, 12), rnd.randint(1, 28), 10, 0, 0)
            c = fam(nf, ds, 'FREQ=%s;SCALE=%s;UNTIL=%s' % (fr, sc, utxt)); c['until'] = rrgen.inst(ut); c['maxpop'] = 70
            cases.append(c); nf += 1
    # arithmetic Hijri scales with a DTSTART on (or a day or two around) the 355th day of an intercalary year, the one day of the
    # calendar that has no counterpart in the years around it: DTSTART converted into the scale must still be DTSTART
    def hij_leap_days(typ, epo, y0):
        c = {'I': 15, 'II': 14, 'III': 11, 'IV': 9}[typ]; j = 1948440 if epo == 'C' else 1948439
        out = []
        for y in range(1, y0 + 31):
            lp = (11 * y + c) % 30 < 11
            if lp and y >= y0: out.append(j + 354)
            j += 355 if lp else 354
        return out
    for typ in ('I', 'II', 'III', 'IV'):
        for epo in ('A', 'C'):
            for jd in hij_leap_days(typ, epo, rnd.randint(1330, 1440)):
                for dd in ((-1, 0, 1) if tier == 'quick' else (-2, -1, 0, 1, 2)):
                    d0 = D.date.fromordinal(jd + dd - 1721425)
                    ds = (d0.year, d0.month, d0.day, 9, 0, 0) if rnd.random() < 0.5 else (d0.year, d0.month, d0.day)
                    rt = rnd.choice(['FREQ=YEARLY;SCALE=HIJRI.%s%s;COUNT=3', 'FREQ=MONTHLY;SCALE=HIJRI.%s%s;COUNT=5', 'FREQ=YEARLY;SCALE=HIJRI.%s%s;BYMONTH=12;BYMONTHDAY=-1;COUNT=4']) % (typ, epo)
                    c = fam(nf, ds, rt); c['maxpop'] = 70; c['count'] = int(rt.split('COUNT=')[1])
                    cases.append(c); nf += 1
    # SHIFT in a rule with a calendar scale, UNTIL (with DTSTART's time of day, between two BYMINUTE values) sweeping the days on which
    # what was shifted past the end of a Hijri month comes to lie: a shifted date is a date of the scale, and bounded as such
    for sc in rrgen.HIJRI + ['HIJRI.IIC', 'HIJRI.IIIA']:
      for _ in range(6 if tier == 'thorough' else 2):
        y = rnd.choice([1990, 2005, 2015, 2019]); mo = rnd.randint(1, 12); d0 = D.date(y, mo, rnd.randint(1, 28))
        for nn in range(14, 75):
            u = d0 + D.timedelta(nn)
            rt = 'FREQ=%s;BYMONTHDAY=1,2,29,30;BYMINUTE=14,54;SHIFT=%s;SCALE=%s;UNTIL=%04d%02d%02dT133059Z' % (rnd.choice(['YEARLY', 'MONTHLY']), rnd.choice(['1', '1', '2', '3', '1B', '2B']), sc, u.year, u.month, u.day)
            c = fam(nf, (d0.year, d0.month, d0.day, 13, 30, 59), rt); c['until'] = rrgen.inst((u.year, u.month, u.day, 13, 30, 59)); c['maxpop'] = 70
            cases.append(c); nf += 1
    # events of many zones following one another in no order, some longer than others (which zone a process has used most changes
    # all the time): DTSTART and a UTC UNTIL a few hours on bound the hourly occurrences of each exactly
    zs = {zn: tzif.read('/usr/share/zoneinfo/' + zn) for zn in ('Europe/Berlin', 'America/New_York', 'Asia/Tokyo', 'Australia/Sydney', 'America/Sao_Paulo', 'Asia/Kolkata', 'Pacific/Auckland', 'America/Los_Angeles')}
    zs = {k: v for k, v in zs.items() if v is not None}
    for _ in range(1500 if tier == 'thorough' else 240):
        zn = rnd.choice(sorted(zs)); y = rnd.choice([2019, 2022, 2025]); mo = rnd.choice([1, 2, 5, 6, 7, 8, 11, 12]); dd = rnd.randint(2, 27); h = rnd.randint(0, 23)
        u0 = utc_of(zs[zn], int((D.datetime(y, mo, dd, h, 0) - E0).total_seconds()))
        if u0 is None: continue
        ue = E0 + D.timedelta(seconds=u0 + rnd.choice([3, 5, 9, 30]) * 3600 + 1800)
        rt = 'FREQ=HOURLY;UNTIL=%s' % ue.strftime('%Y%m%dT%H%M%SZ')
        c = fam(nf, (y, mo, dd, h, 0, 0), rt, zn); c['until'] = rrgen.inst((ue.year, ue.month, ue.day, ue.hour, ue.minute, ue.second)); c['maxpop'] = 70
        cases.append(c); nf += 1
    # several times a day and an UNTIL that falls between two of them on a day of the rule, near and far (well beyond a thousand
    # occurrences): weekly rules, and daily ones with BYDAY (the same filler)
    for _ in range(300 if tier == 'thorough' else 40):
        d0 = D.date(rnd.choice([2019, 2020, 2024]), rnd.randint(1, 12), rnd.randint(1, 28))
        wds = sorted(rnd.sample(range(7), rnd.randint(1, 4)) + [d0.weekday()]); hrs = sorted(rnd.sample(range(24), rnd.randint(2, 4)))
        far = rnd.choice([0, 1, 3, 40, 330, 520, 700])
        du = d0 + D.timedelta(weeks=far // max(1, len(set(wds))))
        while du.weekday() not in wds: du += D.timedelta(1)
        hu = rnd.choice(hrs[:-1])
        rt = '%s;BYDAY=%s;BYHOUR=%s;UNTIL=%04d%02d%02dT%02d3000Z' % (rnd.choice(['FREQ=WEEKLY', 'FREQ=WEEKLY', 'FREQ=DAILY']), ','.join(['MO', 'TU', 'WE', 'TH', 'FR', 'SA', 'SU'][w] for w in sorted(set(wds))), ','.join(map(str, hrs)), du.year, du.month, du.day, hu)
        c = fam(nf, (d0.year, d0.month, d0.day, hrs[0], 0, 0), rt); c['until'] = rrgen.inst((du.year, du.month, du.day, hu, 30, 0)); c['maxpop'] = 2000
        cases.append(c); nf += 1
    # hourly events of zones west of Greenwich (and two east of it) that begin a few hours before a change of the zone's offset and
    # end, by a UTC UNTIL, a few hours after it: the hours behind the change are bounded like any others
    for zn in ('America/New_York', 'America/Los_Angeles', 'America/St_Johns', 'America/Sao_Paulo', 'America/Havana', 'Europe/Berlin', 'Australia/Sydney'):
        z = tzif.read('/usr/share/zoneinfo/' + zn)
        if z is None: continue
        trs = [i for i, t in enumerate(z['trans']) if 1262304000 <= t <= 1893456000 and i > 0 and z['offs'][i] != z['offs'][i - 1]]
        for i in (trs if tier == 'thorough' else rnd.sample(trs, min(len(trs), 5))):
            T = z['trans'][i]; before = z['offs'][i - 1]
            back = rnd.choice([2, 5, 9]) * 3600
            loc = E0 + D.timedelta(seconds=T - back + before)                       # wall-clock time of T - back
            for k in (rnd.sample(range(0, 10), 3) if tier != 'thorough' else range(0, 10)):
                ue = E0 + D.timedelta(seconds=T + k * 3600 + 1800)
                rt = 'FREQ=HOURLY;UNTIL=%s' % ue.strftime('%Y%m%dT%H%M%SZ')
                c = fam(nf, (loc.year, loc.month, loc.day, loc.hour, loc.minute, loc.second), rt, zn); c['until'] = rrgen.inst((ue.year, ue.month, ue.day, ue.hour, ue.minute, ue.second)); c['maxpop'] = 70
                cases.append(c); nf += 1
    # minutely (and hourly) rules of several seconds (minutes) per step with an UNTIL between two of them inside a step the rule visits
    for _ in range(300 if tier == 'thorough' else 40):
        d0 = D.datetime(rnd.choice([2000, 2021]), rnd.randint(1, 12), rnd.randint(1, 28), rnd.randint(0, 23), rnd.randint(0, 59), 0)
        if rnd.random() < 0.6:
            secs_ = sorted(rnd.sample(range(60), rnd.randint(2, 4))); iv = rnd.choice([1, 1, 7, 30]); k = rnd.choice([0, 1, 5, 29, 100, 700])
            u = d0 + D.timedelta(minutes=iv * k, seconds=rnd.randint(secs_[0], secs_[-1] - 1) if secs_[-1] > secs_[0] else 0)
            rt = 'FREQ=MINUTELY;INTERVAL=%d;BYSECOND=%s;UNTIL=%s' % (iv, ','.join(map(str, secs_)), u.strftime('%Y%m%dT%H%M%SZ')); ds = (d0.year, d0.month, d0.day, d0.hour, d0.minute, secs_[0])
        else:
            mins = sorted(rnd.sample(range(60), rnd.randint(2, 4))); k = rnd.choice([0, 1, 5, 23, 100])
            base = d0.replace(minute=0)
            u = base + D.timedelta(hours=k, minutes=rnd.randint(mins[0], mins[-1] - 1), seconds=30)
            rt = 'FREQ=HOURLY;BYMINUTE=%s;UNTIL=%s' % (','.join(map(str, mins)), u.strftime('%Y%m%dT%H%M%SZ')); ds = (base.year, base.month, base.day, base.hour, mins[0], 0)
        c = fam(nf, ds, rt); c['until'] = rrgen.inst((u.year, u.month, u.day, u.hour, u.minute, u.second)); c['maxpop'] = 2200
        cases.append(c); nf += 1
    nsl = vlib.NCPU; per = -(-len(cases) // nsl)
    env_asan = flavour == 'asan'
    if env_asan:
        os.environ['ASAN_OPTIONS'] = 'detect_leaks=0:abort_on_error=0:handle_segv=0:handle_sigbus=0:handle_sigfpe=0:exitcode=99'
    def sl(k):
        return strmrun.run_cases(drv, cases[k * per:(k + 1) * per], wd, 'ord%d' % k, budget=5)
    with cf.ThreadPoolExecutor(max_workers=nsl) as ex:
        recs = [r for part in ex.map(sl, range(nsl)) for r in part]
    for r in recs:
        for kk in ('text', 'uid', 'maxpop', 'mode', 'hz'): r.pop(kk, None)
    trace = f'{wd}/order.ndjson'
    with open(trace, 'w') as f:
        for r in recs: f.write(json.dumps(r) + '\n')
    chunks = vlib.split_lines(trace, vlib.NCPU * 2, wd, 'ord', min_lines=50)
    v = vlib.validate('TraceOrder.tla', 'TraceOrder.cfg', chunks, wd, timeout=3000)
    bad = []
    for fn, k, g in v['bad'][:2000]:
        rec = json.loads(vlib.getline(fn, k))
        rec['nocc'] = len(rec.get('occ', [])); rec['occ'] = rec.get('occ', [])[:8]
        d = {'has_tz': rec.get('tz'), 'has_scale': 'SCALE=' in rec['rtext'], 'has_shift': 'SHIFT=' in rec['rtext'], 'has_easter': 'BYEASTER' in rec['rtext'], 'nrules': rec['rtext'].count('|') + 1,
             'freqs': sorted(set(x.split('=')[1].split(';')[0] for x in rec['rtext'].split('FREQ')[1:]))[0] if 'FREQ' in rec['rtext'] else '', 'died': 'crash' in rec or 'timeout' in rec}
        bad.append((vlib.save_replay(pid, f'line{g}.json', rec), dict(rec, **d)))
    unlisted, listed = vlib.classify(pid, bad)
    nocc = sum(len(r.get('occ', [])) for r in recs)
    cov = {'states': e1['states'], 'transitions': e1['transitions'], 'traces_validated_against_impl': len(recs),
           'samples': [{'ds': recs[i]['ds'], 'rtext': recs[i]['rtext'], 'tz': recs[i]['tz'], 'nocc': len(recs[i].get('occ', []))} for i in (0, 1, 2)],
           'evaluations': len(recs), 'distinct_nontrivial': len(set((json.dumps(r['ds']), r['rtext']) for r in recs if r.get('occ'))),
           'rule': 'one case = one event over the whole accepted rule language: 1..3 RRULEs, every FREQ, BY parts incl. ordinals under any FREQ, BYEASTER, SHIFT (day, business day, -0B, B+/B-), SCALE=HIJRI.*, TZID, COUNT/UNTIL; its stream is followed for up to 2000 pops (about 30 refills) with next/pop interleaved. Non-trivial = the parser accepted the event and at least one occurrence came out',
           'occurrences_monitored': nocc, 'mismatching_streams': v['nbad'], 'events_not_accepted': v['nskip'], 'build': flavour, 'exhaustive': False}
    return vlib.finish(pid, tier, seed, 'model_checking', cov, t0, unlisted, listed,
                       ['TLC/SANY, Json/IOUtils', 'Instant.tla ordering', 'for TZID events the DTSTART bound (a wall-clock value) is checked with one day of allowance; a date-time UNTIL is a UTC value and is checked exactly'])
