"""C04 - daemon runs every future occurrence exactly once, on time, in order (shares its machinery with C12)"""
import time, json, random, os
import vlib, daemon, echsd_graph

PID = 'C04'

def run(tier, seed, pid=PID):
    t0 = time.time()
    wd = vlib.workdir(pid)
    B = vlib.build('plain')
    drv = daemon.build_driver(B)
    rnd = random.Random(seed)
    # E1: the mechanism model against the contract monitors, all interleavings
    e1 = vlib.model_check('EchsdE1.tla', 'EchsdE1.cfg', wd, workers=vlib.NCPU, env={'TIER': tier}, timeout=6000, xmx='20g')
    if not e1['ok']:
        raise vlib.Broken('EchsdE1: the daemon mechanism model violates the contract:\n' + e1['out'][-3000:])
    for act in ('Tick', 'Reify', 'DeliverPer', 'Cancel', 'Put'):
        if e1['coverage'].get(act, {}).get('distinct', 0) == 0:
            raise vlib.Broken(f'EchsdE1 vacuous: {act} never taken')
    # E3: the graph of the small configuration, every transition replayed (thorough) / a seeded part of the cover (quick)
    dot = f'{wd}/echsd.dot'
    g = vlib.model_check('EchsdE1.tla', 'EchsdE1.cfg', wd, workers=1, env={'TIER': 'graph'}, extra=['-dump', 'dot,actionlabels', dot], timeout=3000, xmx='12g')
    if not g['ok']:
        raise vlib.Broken('EchsdE1 (graph configuration) failed:\n' + g['out'][-2000:])
    scripts, nedges, ncov = echsd_graph.scripts_from_graph(dot)
    os.unlink(dot)
    total_scripts = len(scripts)
    if tier != 'thorough':
        rnd.shuffle(scripts); scripts = scripts[:9000]
    nmodel = len(scripts)
    # plus seeded random scripts with larger menus: 3..6 tasks, late wake-ups, shared seconds, cancels and replaces
    nrand = 20000 if tier == 'thorough' else 2500
    rs = []
    for k in range(nrand):
        big = rnd.random() < 0.3
        c, m = daemon.random_script(rnd, ntasks=rnd.choice([2, 3, 3, 6]) if big else 3, horizon=14, steps=rnd.choice([25, 40, 70]), big=big,
                                    maxsims=(0, 0, 1, 2, 3) if pid == 'C12' else (0, 0, 0, 1, 2),
                                    calmax=pid == 'C12',
                                    peers=rnd.choice([(1000,), (1000,), (1000, 1001), (1000, 1001, 1002)]))      # whose task it is shows in what the executor is told (run-as)
        rs.append((c, m, None))
    # plus tasks whose occurrences are plain dates, with a clock that moves in hours and days
    nall = 3000 if tier == 'thorough' else 300
    for k in range(nall):
        c, m = daemon.allday_script(rnd, ntasks=rnd.choice([1, 2, 3]))
        rs.append((c, m, None))
    # the clock is found further on than the time that has passed accounts for (set forward, or the machine slept through some
    # occurrences): libev reschedules every periodic then.  What came due meanwhile collapses into one late run as for any hold-up
    njump = 0
    if pid == 'C04':
        njump = 4000 if tier == 'thorough' else 500
        for k in range(njump):
            c, m = daemon.random_script(rnd, ntasks=3, horizon=14, steps=rnd.choice([25, 40]), maxsims=(0, 0, 0, 2), peers=(1000,), jumps=True)
            rs.append((c, m, None))
    # more jobs under supervision at a time than one pool of child watchers holds (256)
    for k in range(3 if tier == 'thorough' else 1):
        c, m = daemon.many_children_script(rnd, n=rnd.choice([270, 300]))
        rs.append((c, m, None))
    allscripts = scripts + rs
    recs = daemon.run_many(drv, [(c, m) for c, m, _ in allscripts], wd)
    # the schedule (C04) and the limits (C12: the limit is the task's own) hold across a restart too.  The adds of a script go to a first daemon life, which saves the queue and
    # shuts down; a second life on the same spool loads the queue file and runs the rest of the script (one user, so that tasks with
    # and without a limit share a queue file)
    ntwo = 0
    if pid in ('C12', 'C04'):
        import concurrent.futures as cf
        two = []
        for k in range(3000 if tier == 'thorough' else 400):
            c, m = daemon.random_script(rnd, ntasks=rnd.choice([2, 3, 4, 6]), horizon=14, steps=rnd.choice([25, 40, 70]), maxsims=(0, 0, 1, 2, 3), peers=rnd.choice([(1000,), (1000,), (1000, 1001)]), cancel=rnd.random() < 0.5)
            if sum(1 for x in c[:6] if x[:2] in ('A\t', 'AC')) >= 2: two.append((c, m))
        for k in range(2000 if tier == 'thorough' else 300):
            two.append(daemon.limit_mix_script(rnd, peers=rnd.choice([(1000,), (1000,), (1000, 1001)])))
        with cf.ThreadPoolExecutor(max_workers=vlib.NCPU) as ex:
            recs2 = list(ex.map(lambda s2: daemon.run_two_lives(drv, s2[0], s2[1], f'{wd}/spool'), two))
        for r2 in recs2:
            allscripts.append((r2['script'], {}, None)); recs.append(r2)
        ntwo = len(recs2)
    trace = f'{wd}/daemon.ndjson'
    with open(trace, 'w') as f:
        for (c, m, model), r in zip(allscripts, recs):
            if model is not None:
                r['model'] = [x if x is not None else {'skip': True} for x in model]
            r.pop('script', None)
            f.write(json.dumps(r) + '\n')
    chunks = vlib.split_lines(trace, vlib.NCPU, wd, 'daemon', min_lines=200)
    v = vlib.validate('TraceDaemon.tla', 'TraceDaemon.cfg', chunks, wd, extra_env={'PROP': pid}, timeout=3000)
    bad = []
    for fn, k, g2 in v['bad'][:300]:
        rec = json.loads(vlib.getline(fn, k))
        rec['script'] = allscripts[g2 - 1][0]
        rec['clock_jump'] = any(x.startswith('TJ\t') for x in rec['script'])
        bad.append((vlib.save_replay(pid, f'run{g2}.json', rec), rec))
    unlisted, listed = vlib.classify(pid, bad)
    ndrift = sum(x.get('ndrift', 0) for x in v['extra'])
    nspawn = sum(1 for r in recs for e in r['ev'] if e['e'] == 'Spawn')
    nnorun = sum(1 for r in recs for e in r['ev'] if e['e'] == 'Spawn' and e.get('norun'))
    cov = {'states': e1['states'], 'transitions': e1['transitions'], 'traces_validated_against_impl': v['n'],
           'samples': [{'script': allscripts[0][0][:8], 'events': [e for e in recs[0]['ev'] if e['e'] != 'State'][:12]}],
           'evaluations': v['n'], 'distinct_nontrivial': len(set('\n'.join(c) for c, _, _ in allscripts)),
           'rule': 'one case = one run of the real daemon code (src/echsd.c included unmodified, virtual clock, explicit bag of pending callbacks): a script of requests, clock ticks, reify, delivery choices and child exits. Model part: paths through the state graph of the small Echsd configuration that together traverse its transitions; random part: 2..6 tasks, late wake-ups, equal seconds, replaces and cancels while runs are alive',
           'model_graph_states': g['states'], 'model_graph_edges': nedges, 'model_cover_scripts_total': total_scripts, 'model_scripts_run': nmodel,
           'model_edges_replayed': ncov if tier == 'thorough' else 'part (%d of %d cover scripts)' % (nmodel, total_scripts), 'random_scripts': nrand, 'clock_jump_scripts': njump, 'two_life_scripts': ntwo, 'all_day_scripts': nall,
           'spawns_observed': nspawn, 'not_run_spawns_observed': nnorun, 'mismatching_runs': v['nbad'], 'model_drift_runs': ndrift,
           'e1_constants': 'quick: 2 tasks, occurrence lists {<<1>>,<<1,1>>,<<1,2>>}, limits {unset,1}, clock 0..4, 1 replace/cancel; thorough: 5 lists incl. <<0,3>> and <<2,4>>, limits {unset,1,2}, clock 0..5 (14 M states)',
           'e1_actions': e1['coverage'], 'exhaustive': tier == 'thorough'}
    if ndrift: cov['model_drift_note'] = 'task table differs from the Echsd.tla state after some step although the contract holds: update the I-model'
    return vlib.finish(pid, tier, seed, 'model_checking', cov, t0, unlisted, listed,
                       ['TLC/SANY, Json/IOUtils', 'harness/evstub/ev.h + the loop in drv_echsd.c implement libev\'s documented watcher contract (reschedule_cb at start and at expiry before the callback is queued, expiry needs at < now, a no-longer-repeating periodic is stopped before its last callback, pending callbacks in any order)',
                        'posix_spawn/getpwuid interposed: no process is created', 'gen/echsd_graph.py derives the script of a model path from state differences (input selection only)'])
