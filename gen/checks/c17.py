"""C17 - BYEASTER and SHIFT extensions mean what the README says"""
import time, json, random, os
import vlib, rrgen, strmrun

PID = 'C17'

def _shiftday(sh, n):
    """README reading of SHIFT on a day number (the same as RRule!ShiftDay); used only to tell which input class a rejected case is in"""
    import datetime as D
    biz = lambda x: D.date.fromordinal(x).weekday() < 5
    def step(x, k):
        while k:
            s = 1 if k > 0 else -1
            x = x + s if biz(x + s) else (x + 2 * s if biz(x + 2 * s) else x + 3 * s); k -= s
        return x
    a = n + sh[0]; d = sh[2]; b = abs(sh[1]); inv = len(sh) >= 4 and sh[3] == 1
    if d == 0: return a
    if biz(a): return step(a, d * b)
    while not biz(a): a += d
    return step(a, d * (b - 1 if b > 0 and not inv else b))

def crosses_two_years(r):
    """does the shift carry some date the rule selects into the year before the previous / after the next one?  Rules whose dates are
    not plain month-and-day lists are taken to (the finding then covers them as before)"""
    import datetime as D, calendar
    sh = r.get('shift', [0, 0, 0, 0])
    if not (sh[0] or sh[2]): return False
    if r.get('easter') or r.get('dow') or r.get('yd') or r.get('wk') or r.get('pos') or not r.get('md'): return True
    mons = r.get('mon') or list(range(1, 13))
    for y in (2019, 2020, 2021, 2023, 2024):
        for m in mons:
            nd = calendar.monthrange(y, m)[1]
            for d in r['md']:
                dd = d if d > 0 else nd + 1 + d
                if not 1 <= dd <= nd: continue
                t = D.date.fromordinal(_shiftday(sh, D.date(y, m, dd).toordinal()))
                if abs(t.year - y) >= 2: return True
    return False

def derive(rec):
    r = rec.get('rule', {}); sh = r.get('shift', [0, 0, 0, 0])
    ea = r.get('easter', [])
    cross = bool(ea) and (min(ea) < -80 or max(ea) > 240)
    return {'crosses_two_years': crosses_two_years(r), 'n_easter': len(ea), 'easter_cross_year': cross, 'displaced': bool(sh[0] or sh[2]) or cross, 'freq': r.get('freq'), 'inter': r.get('inter', 1), 'has_shift': bool(sh[0] or sh[2]), 'dshift': sh[0], 'bshift': sh[1], 'bdir': sh[2], 'binv': sh[3] if len(sh) > 3 else 0,
            'abs_displacement': abs(sh[0]) + abs(sh[1]) * 7 // 5 + (4 if sh[2] else 0) + (max(abs(x) for x in ea) if ea and bool(sh[0] or sh[2]) else 0), 'has_easter': bool(r.get('easter')), 'has_pos': bool(r.get('pos')),
            'has_md': bool(r.get('md')), 'has_dow': bool(r.get('dow')), 'has_mon': bool(r.get('mon')), 'has_yd': bool(r.get('yd')), 'has_wk': bool(r.get('wk')),
            'ntod': max(1, len(r.get('H', []))) * max(1, len(r.get('M', []))) * max(1, len(r.get('S', []))), 'has_count': bool(r.get('count')), 'has_until': bool(r.get('until'))}

def run(tier, seed):
    t0 = time.time()
    wd = vlib.workdir(PID)
    B = vlib.build('plain')
    drv = vlib.driver(B, 'drv_strm', libs='-lltdl -lm -ldl')
    rnd = random.Random(seed)
    th = tier == 'thorough'
    e1 = vlib.model_check('ShiftE1.tla', 'ShiftE1.cfg', wd, workers=8)
    if not e1['ok']:
        raise vlib.Broken('ShiftE1 failed:\n' + e1['out'][-2000:])
    allc = []
    # Easter: every year 1901-2099, every offset (thorough) / a slice incl. the boundaries (quick)
    offs = list(range(-366, 367)) if th else sorted(set(list(range(-366, 367, 9)) + [-366, -365, -1, 0, 1, 39, 49, 50, 60, 365, 366]))
    for n in offs:
        r = rrgen.blank('YEARLY'); r['easter'] = [n]
        allc.append(((1901, 1, 1), r, 'easter-all-years', 260, (2099, 12, 31) if -80 <= n <= 240 else (2098, 12, 31)))
    for _ in range(2000 if th else 60):
        ds, r, tag = rrgen.easter_case(rnd, rnd.sample(range(-366, 367), rnd.randint(1, 3)), shifted=rnd.random() < 0.3)
        allc.append((ds, r, tag, rnd.choice([70, 130]), (2098, 12, 31)))
    # long lists of offsets (a church calendar: 13 to 24 feasts between Septuagesima and Corpus Christi, Easter Sunday itself - offset 0 -
    # among them more often than not): the set of offsets changes its storage with its size
    for _ in range(400 if th else 40):
        ns_ = set(rnd.sample(range(-63, 61), rnd.randint(13, 24)))
        if rnd.random() < 0.7: ns_.add(0)
        ds, r, tag = rrgen.easter_case(rnd, sorted(ns_), shifted=rnd.random() < 0.3)
        allc.append((ds, r, tag + ':long', rnd.choice([130, 200]), (2098, 12, 31)))
    # day shifts: every N (thorough: x 6 base rules; quick: a slice x 1), business day shifts, zero forms, combined
    ns = list(range(-366, 367)) if th else sorted(set(list(range(-366, 367, 11)) + [-366, -365, -60, -59, -31, -30, -29, -28, -1, 1, 28, 29, 30, 31, 59, 60, 365, 366]))
    for n in ns:
        if n == 0: continue
        for _ in range(6 if th else 1):
            ds, r, tag = rrgen.shift_case(rnd, kind='d', n=n)
            allc.append((ds, r, tag, rnd.choice([70, 130]), (2098, 12, 31)))
    for n in (list(range(-70, 71)) if th else list(range(-12, 13)) + [-30, -22, -21, 21, 22, 30, 60]):
        for kind in ('b', 'b+'):
            if n == 0: continue
            for _ in range(4 if th else 1):
                ds, r, tag = rrgen.shift_case(rnd, kind=kind, n=n)
                allc.append((ds, r, tag, rnd.choice([70, 130]), (2098, 12, 31)))
    # business day shifts of up to a year and beyond (the README allows N up to 366)
    for n in ([100, -100, 150, 200, -200, 250, -250, 255, 262, -262, 270, -270, 280, -280, 300, -300, 366, -366] * (4 if th else 1)):
        ds, r, tag = rrgen.shift_case(rnd, kind=rnd.choice(['b', 'b+']), n=n)
        allc.append((ds, r, tag, 70, (2098, 12, 31)))
    # ... from dates in the second half of the year, so that the moved date lies in the year before (one boundary, the adjacent
    # candidate set): every tenth N from 256 to 366 backwards (thorough: every N), both spellings
    for nb in (range(256, 367) if th else list(range(256, 367, 10)) + [276, 277, 365, 366]):
        for kind in ('b', 'b+'):
            r = rrgen.blank('YEARLY'); r['mon'] = [rnd.randint(7, 12)]; r['md'] = [rnd.randint(1, 28)]
            r['shift_text'], r['shift'] = rrgen.shift_variant(rnd, kind, -nb)
            y0 = rnd.randint(1990, 2030)
            allc.append(((y0, r['mon'][0], r['md'][0]), r, 'shift:back-a-year', 70, (2098, 12, 31)))
    for _ in range(6000 if th else 260):
        ds, r, tag = rrgen.shift_case(rnd, kind=rnd.choice(['z', 'z', 'db', 'db', 'b', 'd']))
        allc.append((ds, r, tag, rnd.choice([70, 130, 200]), (2098, 12, 31)))
    # dates at the turn of the year that a shift carries into the neighbouring year: DTSTART in the days around New Year (the
    # carried date is the first occurrence, or just misses being it), and streams of well over 64 occurrences (the carried date as
    # the one kept back at a cache refill)
    import calendar
    for _ in range(1500 if th else 90):
        fwd = rnd.random() < 0.65
        r = rrgen.blank(rnd.choice(['YEARLY', 'YEARLY', 'MONTHLY']))
        while True:
            kind = rnd.choice(['z', 'z', 'b', 'b+', 'd', 'db']); nn = rnd.choice([1, 2, 3, 4]) * (1 if fwd else -1)
            r['shift_text'], r['shift'] = rrgen.shift_variant(rnd, kind, nn if kind in ('d', 'b', 'b+') else None)
            if kind in ('d', 'b', 'b+') or (r['shift'][0] >= 0 and r['shift'][2] >= 0) == fwd or rnd.random() < 0.2: break
        if rnd.random() < 0.5:
            # New Year's Day and New Year's Eve, DTSTART on one of them in a year whose turn is a weekend (DTSTART has to be
            # a date of the unshifted rule for the result to be defined)
            r['mon'] = [1, 12]; r['md'] = rnd.choice([[1, 31], [-1, 1], [1, 2, 30, 31]])
            while True:
                y = rnd.randint(1903, 2090)
                if calendar.weekday(y - 1, 12, 31) >= 5 or calendar.weekday(y, 1, 1) >= 5 or rnd.random() < 0.15: break
            ds = (y, 1, 1) if rnd.random() < 0.6 else (y - 1, 12, 31)
            if rnd.random() < 0.3: ds = ds + (rnd.randint(0, 23), rnd.choice([0, 30]), 0)
            allc.append((ds, r, 'turn-of-year', 70, (2098, 12, 31)))
        else:
            if fwd: r['mon'] = [12]; r['md'] = rnd.choice([[31], [-1], [30, 31], [29], [-2, -1]])
            else: r['mon'] = [1]; r['md'] = rnd.choice([[1], [1, 2], [2], [3]])
            d0 = r['md'][0] if r['md'][0] > 0 else 32 + r['md'][0]
            ds = (rnd.randint(1903, 1960), r['mon'][0], d0)
            allc.append((ds, r, 'turn-of-year-long', 200, (2098, 12, 31)))
    # outside the comfortable region: INTERVAL > 1, sub-monthly FREQ
    for _ in range(2000 if th else 80):
        ds, r, tag = rrgen.shift_case(rnd, freqs=rnd.choice([('YEARLY', 'MONTHLY'), ('WEEKLY', 'DAILY')]), inter1=False)
        allc.append((ds, r, tag, 70, (2098, 12, 31)))
    # the same rules as the daemon gets them: written out by the serialiser (echse merge, the writer echsq and the checkpoints use)
    # and read back, before anything is expanded.  Zero shifts (0B, -0B, 0B+, 0B-) from a DTSTART on a working day, so that the
    # DTSTART written is the DTSTART given and the rule read back has to be the rule given
    nser = 0
    for _ in range(600 if th else 80):
        r = rrgen.blank('MONTHLY'); y = rnd.randint(1990, 2030); mo = rnd.randint(1, 12); dd = rnd.randint(1, 28)
        while calendar.weekday(y, mo, dd) >= 5: dd = dd % 28 + 1
        r['md'] = sorted({dd, rnd.choice([1, 6, 13, 20, 27, 28])}); r['shift_text'], r['shift'] = rrgen.shift_variant(rnd, 'z')
        ds = (y, mo, dd) if rnd.random() < 0.6 else (y, mo, dd, 9, 30, 0)
        allc.append((ds, r, 'serialised-zero', 70, (2098, 12, 31))); nser += 1
    cases = []
    for f in vlib.load_findings(PID):
        w = f.get('witness')
        if w: allc.insert(0, (tuple(w['ds']), w['rule'], 'witness:' + f['id'], w.get('maxpop', 70), (2098, 12, 31)))
    for k, (ds, r, tag, maxpop, hz) in enumerate(allc):
        rt = rrgen.rule_text(r)
        ics = rrgen.event_ics('s%d' % k, ds, [rt])
        if tag == 'serialised-zero':
            import subprocess
            pm = subprocess.run([f'{B}/echse', 'merge'], input=ics, capture_output=True, text=True, timeout=30)
            ics = pm.stdout if pm.returncode == 0 and 'BEGIN:VEVENT' in pm.stdout else 'BEGIN:VCALENDAR\nEND:VCALENDAR\n'      # nothing written: the case ends as "no event"
        cases.append({'uid': 's%d' % k, 'ds': rrgen.inst(ds), 'rule': rrgen.spec_rule(r), 'tag': tag, 'rtext': rt, 'ics': ics, 'maxpop': maxpop, 'hz': hz, 'mode': rnd.choice('np')})
    import concurrent.futures as cf
    nsl = vlib.NCPU; per = -(-len(cases) // nsl)
    with cf.ThreadPoolExecutor(max_workers=nsl) as ex:
        recs = [r for part in ex.map(lambda k: strmrun.run_cases(drv, cases[k * per:(k + 1) * per], wd, 'sh%d' % k, budget=5), range(nsl)) for r in part]
    for r in recs:
        for kk in ('text', 'uid', 'maxpop', 'mode'): r.pop(kk, None)
    trace = f'{wd}/shift.ndjson'
    with open(trace, 'w') as f:
        for r in recs: f.write(json.dumps(r) + '\n')
    chunks = vlib.split_lines(trace, vlib.NCPU * 2, wd, 'shift', min_lines=20)
    v = vlib.validate('TraceShift.tla', 'TraceShift.cfg', chunks, wd, timeout=3400)
    # ---- SHIFT in rules with a calendar scale: two recorded streams per case (the rule without SHIFT from 90 days earlier, the rule as
    # written), TraceShiftScale.tla moves the dates of the first by RRule!ShiftDay and compares
    import datetime as D
    sc_cases = []
    for k in range(3000 if th else 330):
        sc = rnd.choice(rrgen.HIJRI + ['HIJRI.IIC', 'HIJRI.IIIA', 'HIJRI.IVC'])
        fr = rnd.choice(['YEARLY', 'MONTHLY'])
        md = sorted(set(rnd.choice([1, 2, 3, 14, 15, 28, 29, 30, -1, -2, -3]) for _ in range(rnd.randint(1, 4))))
        body = 'BYMONTHDAY=' + ','.join(map(str, md))
        if fr == 'YEARLY': body = 'BYMONTH=' + ','.join(map(str, sorted(set(rnd.randint(1, 12) for _ in range(rnd.randint(1, 3)))))) + ';' + body
        d0 = D.date(rnd.randint(1945, 2040), rnd.randint(1, 12), rnd.randint(1, 28))
        tod = (rnd.randint(0, 23), rnd.choice([0, 15, 30, 59]), rnd.choice([0, 0, 59])) if rnd.random() < 0.5 else ()
        kind = rnd.choice(['d', 'd', 'b', 'b+', 'z', 'db'])
        nn = rnd.choice([1, 2, 3, 5, 10, 29, 30, 31, 40]) * rnd.choice([1, -1]) if kind == 'd' else rnd.choice([1, 2, 3, 4, 5, 6, 10, 21]) * rnd.choice([1, -1])
        stext, sh = rrgen.shift_variant(rnd, kind, nn if kind in ('d', 'b', 'b+') else None)
        if abs(sh[0]) + abs(sh[1]) * 7 // 5 + 4 > 56: continue           # the evaluator's span
        ext = rnd.random(); until = []; count = 0; tail = ''
        if ext < 0.4:
            u = d0 + D.timedelta(rnd.randint(20, 1500 if fr == 'YEARLY' else 400))
            until = rrgen.inst((u.year, u.month, u.day) + tod) if tod else rrgen.inst((u.year, u.month, u.day))
            tail = ';UNTIL=%04d%02d%02d' % (u.year, u.month, u.day) + ('T%02d%02d%02dZ' % tod if tod else '')
        elif ext < 0.7 and not sh[2]:
            # COUNT only where no two dates can be moved onto one (as in the Gregorian cases above)
            count = rnd.randint(1, 40); tail = ';COUNT=%d' % count
        b0 = d0 - D.timedelta(90)
        rt0 = 'FREQ=%s;%s;SCALE=%s' % (fr, body, sc)
        rt = rt0 + ';SHIFT=' + stext + tail
        ds = (d0.year, d0.month, d0.day) + tod; bs = (b0.year, b0.month, b0.day) + tod
        common = {'ds': rrgen.inst(ds), 'rule': {'shift': sh}, 'rtext': rt, 'until': until, 'count': count, 'tag': 'scale-shift'}
        sc_cases.append(dict(common, uid='q%d' % k, ics=rrgen.event_ics('q%d' % k, ds, [rt]), maxpop=rnd.choice([40, 70]), mode=rnd.choice('np'), role='shifted'))
        sc_cases.append(dict(common, uid='qb%d' % k, ics=rrgen.event_ics('qb%d' % k, bs, [rt0]), maxpop=330, mode='n', role='base'))
    nsl2 = vlib.NCPU; per2 = -(-len(sc_cases) // nsl2); per2 += per2 % 2          # pairs stay in one slice
    with cf.ThreadPoolExecutor(max_workers=nsl2) as ex:
        r2 = [r for part in ex.map(lambda k: strmrun.run_cases(drv, sc_cases[k * per2:(k + 1) * per2], wd, 'scs%d' % k, budget=5, maxpop=330), range(nsl2)) for r in part]
    sc_recs = []
    for a, b in zip(r2[0::2], r2[1::2]):
        assert a['role'] == 'shifted' and b['role'] == 'base'
        rec = {kk: vv for kk, vv in a.items() if kk not in ('text', 'uid', 'maxpop', 'mode', 'role', 'hz')}
        rec['e'] = 'ScShift'; rec['base'] = b.get('occ', []); rec['basestop'] = b.get('stop', 'eos')
        if 'crash' in b or 'timeout' in b: rec['crash'] = b.get('crash', -1)
        rec.setdefault('occ', []); rec.setdefault('stop', 'eos'); rec.setdefault('peekmism', 0)
        sc_recs.append(rec)
    trace2 = f'{wd}/scshift.ndjson'
    with open(trace2, 'w') as f:
        for r in sc_recs: f.write(json.dumps(r) + '\n')
    chunks2 = vlib.split_lines(trace2, vlib.NCPU, wd, 'scshift', min_lines=20)
    v2 = vlib.validate('TraceShiftScale.tla', 'TraceShiftScale.cfg', chunks2, wd, timeout=3400)
    bad = []
    for fn, k, g in v['bad'][:3000]:
        rec = json.loads(vlib.getline(fn, k)); rec['nocc'] = len(rec.get('occ', [])); rec['occ'] = rec.get('occ', [])[:6]
        bad.append((vlib.save_replay(PID, f'line{g}.json', rec), rec))
    for fn, k, g in v2['bad'][:1000]:
        rec = json.loads(vlib.getline(fn, k)); rec['nocc'] = len(rec.get('occ', [])); rec['scale_shift'] = True
        bad.append((vlib.save_replay(PID, f'scline{g}.json', rec), rec))
    unlisted, listed = vlib.classify(PID, bad, derive)
    neaster = sum(1 for r in recs if r['tag'] == 'easter-all-years')
    cov = {'states': e1['states'], 'transitions': e1['transitions'], 'traces_validated_against_impl': len(recs),
           'samples': [{'ds': recs[i]['ds'], 'rtext': recs[i]['rtext'], 'nocc': len(recs[i].get('occ', []))} for i in (0, len(offs) + 5, len(recs) - 1)],
           'evaluations': len(recs), 'distinct_nontrivial': len(set((json.dumps(r['ds']), r['rtext']) for r in recs if r.get('occ'))),
           'rule': 'one case = one rule stream followed for 70..260 pops and compared occurrence by occurrence with RRule!RSet: (a) FREQ=YEARLY;BYEASTER=N from 1901-01-01 through 2099 for every N listed (all 199 Easter Sundays per N, against Cal!Easter, the anonymous Gregorian computus); (b) BYEASTER lists with INTERVAL/COUNT/SHIFT; (c) rules whose unshifted result is defined by C01 (YEARLY/MONTHLY, BYMONTHDAY/BYDAY ordinals/BYMONTH/BYYEARDAY/BYSETPOS shapes) with SHIFT=N for the N listed, SHIFT=NB and NB+/NB- for the business day counts listed, 0B/-0B/0B+/0B-, and combined d,bB forms; (d) INTERVAL>1 and WEEKLY/DAILY rules with SHIFT',
           'easter_offsets': len(offs), 'easter_years_each': 199, 'day_shift_values': len(ns), 'mismatching_streams': v['nbad'] + v2['nbad'], 'scaled_shift_cases': len(sc_recs), 'scaled_shift_undecided': v2['nskip'], 'skipped_undefined_or_undecided': v['nskip'], 'exhaustive': th,
           'exhaustive_over': 'BYEASTER offsets -366..366 x years 1901-2099 and day shifts -366..366 (thorough tier); business day counts -70..70' if th else 'years 1901-2099 for each Easter offset tried'}
    return vlib.finish(PID, tier, seed, 'model_checking', cov, t0, unlisted, listed,
                       ['TLC/SANY, Json/IOUtils, SequencesExt', 'Cal.tla Easter (Meeus/Jones/Butcher) and weekday', 'RRule.tla ShiftDay is the reading of README/shift.h/test rrul_50 used: plain NB counts the move off a weekend as the first business day, NB+/NB- does not; selected dates of periods before DTSTART count when their moved date is on or after DTSTART'])
