"""C18 - date-time and duration text forms round-trip"""
import time, json, collections
import vlib

PID = 'C18'

def run(tier, seed):
    t0 = time.time()
    wd = vlib.workdir(PID)
    B = vlib.build('plain')
    drv = vlib.driver(B, 'drv_text')
    e1 = vlib.model_check('TextE1.tla', 'TextE1.cfg', wd, workers=8, env={'TIER': tier})
    if not e1['ok']:
        raise vlib.Broken('TextE1: DtText contract is not self-consistent:\n' + e1['out'][-1500:])
    trace = f'{wd}/text.ndjson'
    with open(trace, 'w') as f:
        vlib.subprocess.run([drv, tier, str(seed)], stdout=f, check=True, timeout=900)
    kinds = collections.Counter(); distinct = set(); samples = {}
    with open(trace) as f:
        for l in f:
            k = l[6:l.index('"', 6)]
            kinds[k] += 1
            distinct.add(hash(l[:l.rfind(',"r"')]))
            if k not in samples or (k == 'DurParse' and 'D' in l and samples[k]['s'].startswith('PT')):
                samples[k] = json.loads(l)
    chunks = vlib.split_lines(trace, vlib.NCPU, wd, 'text')
    v = vlib.validate('TraceText.tla', 'TraceText.cfg', chunks, wd)
    bad = []
    for fn, k, g in v['bad'][:2000]:
        rec = json.loads(vlib.getline(fn, k))
        rec.pop('c', None)
        bad.append((vlib.save_replay(PID, f'line{g}.json', rec), rec))
    unlisted, listed = vlib.classify(PID, bad)
    cov = {'states': e1['states'], 'transitions': e1['transitions'], 'traces_validated_against_impl': len(chunks),
           'samples': [{k: x[k] for k in x if k != 'c'} for x in samples.values()], 'evaluations': v['n'], 'distinct_nontrivial': len(distinct),
           'rule': 'one case = one recorded print->parse or parse call with distinct arguments. Instants: field-boundary grid (7 years x 12 months x boundary days x 7 hours x 4 minutes x 3 seconds x 6 ms forms) + seeded random, both printers, 8 accepted spellings (basic/extended, Z, space, .fff). Durations: unit-boundary grid +-1 s incl. 2^31 and 2^32 ms, seeded random up to 10 years, up to 18 equivalent spellings each incl. weeks combined with days and a time part',
           'lines_by_kind': dict(kinds), 'mismatching_lines': v['nbad'],
           'skipped_undefined': v['nskip'], 'skipped_note': 'durations with a sub-second part (no ISO text form in iCalendar), negative durations and spellings outside the stated grammar are outside the property',
           'exhaustive': False}
    return vlib.finish(PID, tier, seed, 'model_checking', cov, t0, unlisted, listed,
                       ['TLC/SANY, Json/IOUtils', 'DtText.tla grammar (self-checked by TextE1: Parse(Print(i)) = i on the model)', 'printing-only driver; texts travel as ASCII code lists'])
