"""C15 - Hijri <-> Gregorian scale conversion is a consistent bijection"""
import os, time, json, collections, concurrent.futures as cf
import vlib

PID = 'C15'
SCALES = {1: 'HIJRI_IA', 2: 'HIJRI_IC', 3: 'HIJRI_IIA', 4: 'HIJRI_IIC', 5: 'HIJRI_IIIA', 6: 'HIJRI_IIIC', 7: 'HIJRI_IVA', 8: 'HIJRI_IVC', 9: 'HIJRI_UMMULQURA', 10: 'HIJRI_DIYANET'}

def run(tier, seed):
    t0 = time.time()
    wd = vlib.workdir(PID)
    B = vlib.build('plain')
    drv = vlib.driver(B, 'drv_scale')
    e1 = vlib.model_check('ScaleE1.tla', 'ScaleE1.cfg', wd, workers=8)
    if not e1['ok']:
        raise vlib.Broken('ScaleE1 failed:\n' + e1['out'][-1500:])
    chunks = []
    for s in SCALES:
        fn = f'{wd}/scale{s:02d}.ndjson'
        with open(fn, 'w') as f:
            p = vlib.subprocess.run([drv, str(s), tier, str(seed)], stdout=f, timeout=600)
        if p.returncode != 0:
            with open(fn, 'a') as f:
                f.write('\n{"e":"Day","sc":%d,"g":[1901,1,1],"crash":true}\n' % s)
        chunks.append((fn, 0))
    # the same days once more with the conversions of several scales taking turns day by day (both table calendars among them): what a
    # file with rules in different scales does; a conversion must not depend on which scale was asked for before
    pm = vlib.subprocess.run([drv, 'mixed', tier, str(seed), f'{wd}/mixed'], timeout=900)
    for s in (9, 10, 1):
        fn = f'{wd}/mixed.{s}.ndjson'
        if pm.returncode != 0 or not os.path.exists(fn):
            with open(fn, 'a') as f: f.write('\n{"e":"Day","sc":%d,"g":[1901,1,1],"crash":true}\n' % s)
        chunks.append((fn, 0))
    v = vlib.validate('TraceScale.tla', 'TraceScale.cfg', chunks, wd)
    accepted = {s: x.get('accepted', 0) for s, x in zip(SCALES.values(), v['extra'])}
    bad = []
    perfile = collections.Counter()
    for fn, k, g in v['bad']:
        perfile[fn] += 1
        if perfile[fn] > 400:
            continue
        rec = json.loads(vlib.getline(fn, k))
        prev = json.loads(vlib.getline(fn, k - 1)) if k > 1 else None
        rec['_prev'] = prev
        rec['scale'] = SCALES[rec['sc']]
        bad.append((vlib.save_replay(PID, f"{SCALES[rec['sc']]}_line{k}.json", rec), rec))
    unlisted, listed = vlib.classify(PID, bad)
    samples = [json.loads(vlib.getline(chunks[0][0], 400)), json.loads(vlib.getline(chunks[8][0], 40000 if tier == 'thorough' else 9000))]
    cov = {'states': e1['states'], 'transitions': e1['transitions'], 'traces_validated_against_impl': len(chunks),
           'samples': samples, 'evaluations': v['n'], 'distinct_nontrivial': sum(accepted.values()),
           'rule': 'one case = (scale, Gregorian day); non-trivial = the day is accepted (converted), so all five relations are evaluated on it. Thorough: every day of 1901-2099 for all 10 scales; quick: every 5th year completely plus 4 days around every Gregorian month boundary',
           'accepted_days_per_scale': accepted, 'mismatching_lines': v['nbad'], 'rejected_days_outside_coverage': v['nskip'],
           'exhaustive': tier == 'thorough'}
    return vlib.finish(PID, tier, seed, 'model_checking', cov, t0, unlisted, listed,
                       ['TLC/SANY, Json/IOUtils', 'Cal.tla weekday', 'printing-only driver; no reference Hijri table is assumed, only relations between consecutive observations'])
