"""C03 - merged event stream is chronological, complete and duplicate-free; peek is pure"""
import time, json, random, collections, subprocess, os
import vlib, tlagraph

PID = 'C03'

def cons_text(cons):
    # the uid of an empty constituent is immaterial
    return '|'.join((c[0][1] if c else 'e') + ':' + ','.join(str(x[0]) for x in c) for c in cons)

def run(tier, seed):
    t0 = time.time()
    wd = vlib.workdir(PID)
    B = vlib.build('plain')
    drv = vlib.driver(B, 'drv_mux', libs='-lltdl -lm -ldl')
    rnd = random.Random(seed)
    # E1 + graph dump (single worker so that the dump is well-formed)
    dot = f'{wd}/mux.dot'
    e1 = vlib.model_check('MuxE1.tla', 'MuxE1.cfg', wd, workers=1 if tier == 'quick' else 1, env={'TIER': tier}, extra=['-dump', 'dot,actionlabels', dot], timeout=3000, xmx='12g')
    if not e1['ok']:
        raise vlib.Broken('MuxE1: the lookahead-merge model violates the merge contract:\n' + e1['out'][-2500:])
    for act in ('Peek', 'Pop'):
        if e1['coverage'].get(act, {}).get('distinct', 0) == 0:
            raise vlib.Broken(f'MuxE1 vacuous: {act} never taken')
    # E3: every transition of the model graph is replayed on the real merge
    nodes, edges, init = tlagraph.read_dot(dot)
    paths, ncov = tlagraph.cover_paths(edges, init)
    nedges = sum(len(v) for v in edges.values())
    scripts = []
    conscache = {}
    for root, p in paths:
        if root not in conscache:
            conscache[root] = tlagraph.parse_tla(tlagraph.state_vars(nodes[root])['cons'])
        ops = ''.join('N' if a == 'Peek' else 'P' for a, _ in p)
        scripts.append(cons_text(conscache[root]) + '\t' + ops)
    os.unlink(dot)
    nmodel = len(scripts)
    # plus seeded random larger merges, judged by the contract only
    nrand = 50000 if tier == 'thorough' else 4000
    for _ in range(nrand):
        ns = rnd.randint(2, 12 if rnd.random() < 0.3 else 4)
        mixed = rnd.random() < 0.3
        cons = []
        for k in range(ns):
            u = rnd.choice('abcdef'[:rnd.randint(1, 6)])
            n = rnd.randint(0, 40 if rnd.random() < 0.1 else 6)
            ts = sorted(rnd.randint(1, rnd.choice([3, 8, 50, 3000])) for _ in range(n))
            if mixed:
                # all-day constituents (DTSTART;VALUE=DATE, code day * 100000) among timed ones over the same days: an all-day occurrence goes before every timed one of its day
                if rnd.random() < 0.45: ts = sorted(rnd.randint(1, 4) * 100000 for _ in range(n))
                else: ts = sorted(rnd.randint(1, 4) * 100000 + rnd.choice([1, 2, 3600, 43200, 86399, rnd.randint(1, 86399)]) for _ in range(n))
            if not mixed and rnd.random() < 0.04:
                # 70..150 occurrences one minute apart: written as a rule, the constituent refills its cache while it is merged
                m0 = rnd.randint(1, 3000); ts = [m0 + 60 * j for j in range(rnd.randint(70, 150))]
            if ts and ts[0] % 100000 and len(ts) < 66 and not mixed and rnd.random() < 0.1: u = 'z'         # the same instants on two RDATE lines, UTC and wall-clock time of a zone far off
            elif ts and ts[0] % 100000 and rnd.random() < 0.15 and len(ts) < 66: u = u.upper()     # an event of two RRULEs plus RDATEs with these occurrences (a merge inside the event)
            cons.append([[t, u] for t in ts])
        tot = sum(len(c) for c in cons)
        ops = ''.join(rnd.choice('NPPP') for _ in range(tot + rnd.randint(0, 4))) + 'PP'
        if rnd.random() < 0.25:
            # the merged stream is cloned on the way (once or twice), the clone is consumed from there on
            for _c in range(rnd.choice([1, 1, 2])):
                i = rnd.randint(0, len(ops)); ops = ops[:i] + 'C' + ops[i:]
        scripts.append(cons_text(cons) + '\t' + ops)
    # an event of several RRULEs is a merge of the streams of its rules: the constituents are what each rule delivers in an event of
    # its own (recorded), the merge is the stream of the event with all the rules.  Zoned, UTC and floating DTSTARTs, date-time
    # UNTILs at and around the last occurrence (a UTC value for zoned events), COUNTs, sub-daily steps; all inside January 2030
    nrule = 6000 if tier == 'thorough' else 500
    for _ in range(nrule):
        zn, off = rnd.choice([(None, 0), ('Z', 0), ('Europe/Berlin', 1), ('America/New_York', -5), ('Asia/Tokyo', 9), ('Australia/Sydney', 11), ('Asia/Kolkata', 5.5)])
        d0 = rnd.randint(3, 9); h0 = rnd.randint(0, 23); m0 = rnd.choice([0, 0, 30, 59])
        dtl = ('DTSTART;TZID=%s:203001%02dT%02d%02d00' % (zn, d0, h0, m0)) if zn not in (None, 'Z') else 'DTSTART:203001%02dT%02d%02d00%s' % (d0, h0, m0, zn or '')
        rules = []
        for _k in range(rnd.choice([2, 2, 3, 4])):
            kind = rnd.random()
            if kind < 0.3: body, step, n = 'FREQ=DAILY', 86400, rnd.randint(1, 12)
            elif kind < 0.55: iv = rnd.choice([1, 2, 3, 5, 7, 12]); body, step, n = 'FREQ=HOURLY;INTERVAL=%d' % iv, 3600 * iv, rnd.randint(1, 70)
            elif kind < 0.7: iv = rnd.choice([20, 45, 90, 600]); body, step, n = 'FREQ=MINUTELY;INTERVAL=%d' % iv, 60 * iv, rnd.randint(1, 130)
            elif kind < 0.85: body, step, n = 'FREQ=WEEKLY', 7 * 86400, rnd.randint(1, 3)
            else: iv = rnd.choice([2, 3]); body, step, n = 'FREQ=DAILY;INTERVAL=%d' % iv, 86400 * iv, rnd.randint(1, 6)
            if rnd.random() < 0.3: rules.append(body + ';COUNT=%d' % n); continue
            # UNTIL: the n-th occurrence (local d0 h0:m0 + (n-1) steps) as a UTC value for zoned events, give or take
            last = (d0 - 1) * 86400 + h0 * 3600 + m0 * 60 + (n - 1) * step
            u = last - (int(off * 3600) if zn not in (None,) else 0) + rnd.choice([0, 0, 0, -1, 1, -60, 60, -3600, 3600, 1800, -1800, step // 2])
            u = max(u, 2 * 86400); u = min(u, 27 * 86400)
            rules.append(body + ';UNTIL=203001%02dT%02d%02d%02d%s' % (1 + u // 86400, u % 86400 // 3600, u % 3600 // 60, u % 60, '' if zn is None else 'Z'))
        ops = ''.join(rnd.choice('NPPP') for _ in range(rnd.choice([40, 150, 260]))) + 'PP'
        scripts.append('R\t' + dtl + '\t' + '|'.join(rules) + '\t' + ops)
    trace = f'{wd}/mux.ndjson'
    p = subprocess.run([drv], input='\n'.join(scripts) + '\n', capture_output=True, text=True, timeout=1800)
    outl = [l for l in p.stdout.split('\n') if l]
    with open(trace, 'w') as f:
        for l in outl: f.write(l + '\n')
        if len(outl) < len(scripts):
            f.write(json.dumps({'e': 'MuxRun', 'cons': [], 'ops': [], 'res': [], 'crash': p.returncode, 'script': scripts[len(outl)]}) + '\n')
    chunks = vlib.split_lines(trace, vlib.NCPU, wd, 'mux', min_lines=500)
    v = vlib.validate('TraceMux.tla', 'TraceMux.cfg', chunks, wd)
    bad = []
    for fn, k, g in v['bad'][:500]:
        rec = json.loads(vlib.getline(fn, k))
        bad.append((vlib.save_replay(PID, f'run{g}.json', rec), rec))
    unlisted, listed = vlib.classify(PID, bad)
    ndrift = sum(x.get('ndrift', 0) for x in v['extra'])
    distinct = len(set(scripts))
    cov = {'states': e1['states'], 'transitions': e1['transitions'], 'traces_validated_against_impl': v['n'],
           'samples': [json.loads(outl[len(outl) // 3]), json.loads(outl[-1])] if outl else [],
           'evaluations': v['n'], 'distinct_nontrivial': distinct,
           'rule': 'one case = one run of the real echs_evstrm_vmux merge: constituent streams (each a parsed VEVENT with an RDATE list and its UID) plus an op string of peeks/pops. Model part: a set of paths through the MuxE1 state graph that traverses every edge (every reachable transition of the bounded model is executed on the real code). Random part: 2..12 constituents, up to 40 occurrences, shared UIDs, ties; one constituent in seven is an event of two RRULEs plus RDATEs, one in twenty-five a rule of 70..150 occurrences (it refills its cache while merged); in three of ten all-day constituents (VALUE=DATE) are merged with timed ones over the same days',
           'model_graph_edges': nedges, 'model_graph_edges_replayed': ncov, 'model_scripts': nmodel, 'random_scripts': nrand,
           'mismatching_runs': v['nbad'], 'skipped': v['nskip'], 'model_drift_runs': ndrift,
           'e1_constants': 'up to 3 constituents x up to %d occurrences over times 1..3 x uids {a,b}; <= 2 peeks in a row; until 2 end-of-stream pops' % (3 if tier == 'thorough' else 2),
           'e1_actions': e1['coverage'], 'exhaustive': ncov == nedges}
    if ndrift:
        cov['model_drift_note'] = 'results differ from the deterministic I-model MuxRun although the merge contract holds: update Streams.tla'
    return vlib.finish(PID, tier, seed, 'model_checking', cov, t0, unlisted, listed,
                       ['TLC/SANY, Json/IOUtils', 'constituents are real parsed VEVENTs; the driver prints results only', 'gen/tlagraph.py only selects which model behaviours are replayed'])
