"""C11 - queue is a per-user map by UID; users cannot touch others' tasks"""
import time, json, random, os
import vlib, daemon

PID = 'C11'

def run(tier, seed):
    t0 = time.time()
    wd = vlib.workdir(PID)
    B = vlib.build('plain')
    drv = daemon.build_driver(B)
    rnd = random.Random(seed)
    # the connection table: the repaired slot search holds, the search as found is told apart (33rd connection takes the slot of the first)
    ct = vlib.model_check('ConnTable.tla', 'ConnTableE1.cfg', wd, workers=4)
    if not ct['ok']:
        raise vlib.Broken('ConnTable: the slot search does not keep connections apart:\n' + ct['out'][-2500:])
    if vlib.model_check('ConnTable.tla', 'ConnTableE1_asfound.cfg', wd, workers=1)['ok']:
        raise vlib.Broken('ConnTable: the as-found slot search is not told apart from the repaired one (the model lost its bite)')
    apa = 'not run at this tier'
    if tier == 'thorough':
        # unbounded: SlotsSound /\ TypeOK is an inductive invariant of the repaired search at the real table size (2 x 32 slots, any
        # number of connections coming and going), shown symbolically; the as-found search is not inductive
        a0 = vlib.apalache('ConnTableA.tla', ['--cinit=ConstInit', '--init=Init', '--inv=IndInv', '--length=0'], wd)
        a1 = vlib.apalache('ConnTableA.tla', ['--cinit=ConstInit', '--init=IndInit', '--inv=IndInv', '--length=1'], wd)
        a2 = vlib.apalache('ConnTableA.tla', ['--cinit=ConstInitAsFound', '--init=IndInit', '--inv=IndInv', '--length=1'], wd)
        if (a0, a1) != ('ok', 'ok'): raise vlib.Broken(f'ConnTableA: IndInv is not inductive for the repaired slot search (base {a0}, step {a1})')
        if a2 != 'violated': raise vlib.Broken('ConnTableA: the as-found slot search is not told apart')
        apa = 'Apalache: Init => IndInv, IndInv /\\ Next => IndInv\' for H = 32 (64 slots), unbounded number of connections; violated for the as-found search'
    e1 = vlib.model_check('InjectE1.tla', 'InjectE1.cfg', wd, workers=8)
    if not e1['ok']:
        raise vlib.Broken('InjectE1: the credential decision model does not match the map contract:\n' + e1['out'][-2500:])
    col, keyof = daemon.colliding_uids(drv, wd, 150000 if tier != 'thorough' else 600000)
    blocked = daemon.blocked_uids(drv, wd, rnd, k=40 if tier == 'thorough' else 8)
    plain = ['a', 'b', 'c', 'job@host', 'x' * 200]
    scripts = []
    n = 20000 if tier == 'thorough' else 2500
    for k in range(n):
        if rnd.random() < 0.5 and col:
            bits, g = rnd.choice(col)
            pool = list(g) + rnd.sample(plain, 1)
        else:
            pool = rnd.sample(plain, 3) + (list(rnd.choice(col)[1][:2]) if col else [])
        peers = rnd.choice([(1000, 1001), (1000, 1001, 1002, 0, 4242), tuple(2000 + i for i in range(8)) + (1000,)])
        if k % 50 == 47:
            scripts.append(daemon.reply_burst_script(rnd, pool)); continue
        if k % 50 == 48:
            scripts.append(daemon.burst_script(rnd, pool)); continue
        if k % 50 == 49:
            scripts.append(daemon.table_script(rnd)); continue
        if k % 8 == 7:
            # long histories of few users in which every other request is a listing, the checkpoint timer in between
            scripts.append(daemon.map_script(rnd, pool, peers=rnd.choice([(1000, 1001), (1000, 2063), (2000, 2063), (1000, 2001, 2002, 2035), (1001, 2047, 2048)]), nreq=rnd.choice([25, 40, 60]), listy=True))     # user ids of different magnitudes: the daemon keeps its set of users with unsaved changes in a bitwise trie
            continue
        scripts.append(daemon.map_script(rnd, pool, peers=peers, nreq=rnd.choice([3, 5, 8, 14])))
    for t, blk in blocked:
        scripts.append(daemon.overflow_script(rnd, t, blk))
    for _ in range(12 if tier == 'thorough' else 2):
        scripts.append(daemon.many_uids_script(rnd))
    recs = daemon.run_many(drv, scripts, wd)
    trace = f'{wd}/map.ndjson'
    with open(trace, 'w') as f:
        for r in recs:
            r.pop('script', None); f.write(json.dumps(r) + '\n')
    chunks = vlib.split_lines(trace, vlib.NCPU, wd, 'map', min_lines=100)
    v = vlib.validate('TraceDaemon.tla', 'TraceDaemon.cfg', chunks, wd, extra_env={'PROP': PID})
    bad = []
    for fn, k, g in v['bad'][:300]:
        rec = json.loads(vlib.getline(fn, k)); rec['script'] = scripts[g - 1][0]
        # input class of the run: do two different UID strings of its requests have the same 32-bit key?
        us = sorted(set(it['uid'] for e in rec['ev'] if e['e'] == 'Req' for it in e.get('items', [])))
        ks = [keyof[u] for u in us if u in keyof]
        rec['equal_key_uids'] = len(ks) != len(set(ks))
        bad.append((vlib.save_replay(PID, f'run{g}.json', rec), rec))
    unlisted, listed = vlib.classify(PID, bad)
    nreq = sum(1 for r in recs for e in r['ev'] if e['e'] == 'Req'); nhttp = sum(1 for r in recs for e in r['ev'] if e['e'] == 'Http')
    nitems = sum(len(e.get('items', [])) for r in recs for e in r['ev'] if e['e'] == 'Req')
    cov = {'states': e1['states'], 'transitions': e1['transitions'], 'traces_validated_against_impl': v['n'],
           'samples': [{'events': [e for e in recs[0]['ev'] if e['e'] != 'State']}], 'evaluations': v['n'], 'distinct_nontrivial': len(set('\n'.join(c) for c, _ in scripts)),
           'rule': 'one case = one history of requests against the real cmd_ical()/cmd_http() with chosen peer credentials: adds (1..3 events per request, optional X-ECHS-OWNER by uid or name, own/other/unknown), cancels, GET /sched, /queue (UIDs and the DTSTART each task is shown with) and /u/<other>/...; every request occupies a slot of the connection table of the daemon (make_conn/free_conn), in one history in eight other peers hold 30..63 connections open meanwhile, one in fifty is a burst of 14..20 changes by one user followed by a change and a listing of another user, one in fifty is a request of 55..120 items whose replies exceed the 4 KiB write buffer, one in fifty is connections coming and going only (up to and beyond 64); one history in eight is long (25..60 requests, half of them listings, the checkpoint timer in between); peers incl. root, a uid without passwd entry and up to 9 users; UID strings chosen with the real hash so that groups of 2..4 share 4..22 low bits of their table key, and so that the nine places the UID table probes first for the UID of one user are taken by UIDs of another user (the UID lives in the overflow area of the table)',
           'requests': nreq, 'request_items': nitems, 'listings': nhttp, 'colliding_uid_groups': len(col), 'uid_groups_with_equal_keys': sum(1 for b, _ in col if b == 32), 'mismatching_runs': v['nbad'],
           'apalache': apa, 'e1_conn': 'ConnTable.tla (2 x 2 slots, 7 connections): SlotsSound, NoTakeover, RefusedOnlyWhenFull hold for the repaired search and fail for the as-found one', 'e1': 'InjectE1: credential case analysis of _inject_task1/_eject_task1 equals the map contract for 4 peers x 4 owner fields x every reachable 2-UID map (histories <= 3)', 'exhaustive': False}
    return vlib.finish(PID, tier, seed, 'model_checking', cov, t0, unlisted, listed,
                       ['TLC/SANY, Json/IOUtils', 'getpwuid/getpwnam interposed with a fixed user table (root, alice, bob, carol, u2000..u2063); daemon runs as root', 'the administrator\'s (uid 0) own listings are outside the property and not generated',
                        'table keys sharing more than 16 low bits are not generated (the table would grow beyond 2^17 entries)'])
