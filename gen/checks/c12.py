"""C12 - X-ECHS-MAX-SIMUL bounds concurrent runs of a task, and only of that task (machinery shared with C04)"""
from checks import c04
def run(tier, seed):
    return c04.run(tier, seed, pid='C12')
