"""C09 - every rule terminates and stays in bounds; empty sets end the stream"""
import time, json, random, os, subprocess, concurrent.futures as cf
import vlib, rrgen, strmrun

PID = 'C09'
ASAN = 'detect_leaks=0:abort_on_error=0:exitcode=99'


def fill_calls(drv, calls, wd, name, budget):
    """run drv_fill over calls [(ds, nti, rule text)]; a dead driver = crash record for the call it was working on"""
    out = {}; start = 0; rnd_i = 0
    lines = ['%d\t%s\t%d\t%s' % (i, ('%04d%02d%02dT%02d%02d%02d' % tuple(ds[:6]) if len(ds) > 3 else '%04d%02d%02d' % tuple(ds)), nti, rt) for i, (ds, nti, rt) in enumerate(calls)]
    while start < len(calls):
        rnd_i += 1
        of = f'{wd}/{name}.out.{rnd_i}'
        with open(of, 'w') as fo, open(of + '.err', 'w') as fe:
            p = subprocess.Popen(['bash', '-c', f'ulimit -f 2000000; exec {drv} {budget}'], stdin=subprocess.PIPE, stdout=fo, stderr=fe, text=True)
            try:
                p.communicate('\n'.join(lines[start:]) + '\n', timeout=max(120, (len(calls) - start) * budget // 8 + 60)); rc = p.returncode
            except subprocess.TimeoutExpired:
                p.kill(); p.communicate(); rc = -99
        got = start
        for l in open(of):
            try: r = json.loads(l)
            except Exception: break
            out[r['id']] = r; got = r['id'] + 1
        rep = ' | '.join(l.strip() for l in open(of + '.err', errors='replace') if 'ERROR: AddressSanitizer' in l or 'runtime error' in l or 'SUMMARY:' in l)[:600]
        os.unlink(of); os.unlink(of + '.err')
        if got >= len(calls): break
        out[got] = {'id': got, 'crash': rc, 'report': rep}
        start = got + 1
    recs = []
    for i, (ds, nti, rt) in enumerate(calls):
        r = {'e': 'Fill', 'ds': rrgen.inst(ds), 'rule': rt, 'scaled': 'SCALE=' in rt, 'nti': nti}
        r.update(out.get(i, {'id': i, 'crash': -1}))
        recs.append(r)
    return recs


def run(tier, seed):
    t0 = time.time()
    wd = vlib.workdir(PID)
    B = vlib.build('asan')
    drv = vlib.driver(B, 'drv_strm', libs='-lltdl -lm -ldl'); drf = vlib.driver(B, 'drv_fill', libs='-lltdl -lm -ldl')
    os.environ['ASAN_OPTIONS'] = ASAN
    rnd = random.Random(seed)
    e1 = vlib.model_check('RuleStreamE1.tla', 'RuleStreamE1_corr.cfg', wd, workers=4)
    if not e1['ok']:
        raise vlib.Broken('RuleStreamE1 failed:\n' + e1['out'][-2000:])
    n = 400000 if tier == 'thorough' else 16000
    budget = 4
    cases = []
    for k in range(n):
        c = rrgen.hostile_event(rnd, 'h%d' % k) if rnd.random() < 0.8 else rrgen.full_event(rnd, 'h%d' % k)
        c['maxpop'] = 2000 if rnd.random() < 0.02 else rnd.choice([70, 130, 200]); c['mode'] = rnd.choice('np'); cases.append(c)
    # exceptions next to the rules: EXDATE lists, EXRULEs that take out some, most or every occurrence of the rule (an EXRULE equal to a
    # sub-daily RRULE leaves nothing: the walk to the end of the stream is the open finding C09-exrule-covers-rule)
    for k, (fr, xfr, ds) in enumerate([('DAILY', 'DAILY', (2020, 1, 1, 9, 0, 0)), ('HOURLY', 'DAILY', (2020, 1, 1, 9, 0, 0)), ('WEEKLY', 'DAILY', (2020, 1, 1)), ('MONTHLY', 'YEARLY', (2020, 1, 31)),
                                       ('MINUTELY', 'MINUTELY', (2024, 1, 1, 0, 0, 0)), ('SECONDLY', 'SECONDLY', (2024, 1, 1, 0, 0, 0)), ('SECONDLY', 'MINUTELY', (2024, 1, 1, 0, 0, 0)), ('HOURLY', 'HOURLY', (2000, 1, 1, 0, 0, 0))]):
        rt = 'FREQ=' + fr; xt = 'FREQ=' + xfr
        c = {'uid': 'x%d' % k, 'ds': rrgen.inst(ds), 'tz': False, 'rtext': rt + ' EX ' + xt, 'count': 0, 'until': [], 'ics': rrgen.event_ics('x%d' % k, ds, [rt], exrules=[xt]), 'maxpop': 70, 'mode': 'p',
             'exrule_covers': fr == xfr, 'freq': fr}
        cases.append(c)
    # BYDAY lists of 15 to 40 different members, negative ordinals among them (the container of BYDAY changes its form with the number
    # of members): every FREQ that reads BYDAY
    for k in range(600 if tier == 'thorough' else 60):
        fr = rnd.choice(['MONTHLY', 'MONTHLY', 'YEARLY', 'WEEKLY', 'DAILY'])
        top = 53 if fr == 'YEARLY' and rnd.random() < 0.5 else 5
        mem = set()
        while len(mem) < rnd.randint(15, 40):
            o = rnd.choice([0, 1, 2, 3, 4, 5, -1, -2, -1, rnd.randint(-top, top)]) if fr in ('MONTHLY', 'YEARLY') else 0
            mem.add(('%d' % o if o else '') + rnd.choice(['MO', 'TU', 'WE', 'TH', 'FR', 'SA', 'SU']))
            if fr not in ('MONTHLY', 'YEARLY') and len(mem) == 7: break
        mem = sorted(mem); rnd.shuffle(mem)
        rt = 'FREQ=%s;BYDAY=%s' % (fr, ','.join(mem)) + rnd.choice(['', ';COUNT=90', ';BYMONTH=3,10', ';INTERVAL=2'])
        ds = (rnd.choice([2019, 2020, 2024]), rnd.randint(1, 12), rnd.randint(1, 28)) + rnd.choice([(), (8, 30, 0)])
        cases.append({'uid': 'w%d' % k, 'ds': rrgen.inst(ds), 'tz': False, 'rtext': rt, 'count': 0, 'until': [], 'ics': rrgen.event_ics('w%d' % k, ds, [rt]), 'maxpop': 130, 'mode': rnd.choice('np')})
    # day shifts that carry a date of a table calendar beyond the table (forward at its end, backward at its beginning): the date is
    # dropped, the stream ends, within the work budget
    for k in range(400 if tier == 'thorough' else 48):
        sc, (y0, y1) = rnd.choice([('HIJRI.UMMULQURA', (2076, 2077)), ('HIJRI.DIYANET', (2021, 2022)), ('HIJRI.UMMULQURA', (1937, 1938)), ('HIJRI.DIYANET', (1937, 1938))])
        fwd = y0 > 2000
        ds = (rnd.randint(y0, y1), rnd.randint(1, 12), rnd.randint(1, 28)) + rnd.choice([(), (7, 0, 0)])
        rt = 'FREQ=%s;SCALE=%s;BYMONTHDAY=%s;SHIFT=%d' % (rnd.choice(['YEARLY;BYMONTH=%d' % rnd.choice([1, 6, 11, 12]), 'MONTHLY']), sc, rnd.choice(['20', '1,29', '-1', '15,30']), rnd.choice([1, 5, 15, 40, 100, 366]) * (1 if fwd else -1))
        cases.append({'uid': 'e%d' % k, 'ds': rrgen.inst(ds), 'tz': False, 'rtext': rt, 'count': 0, 'until': [], 'ics': rrgen.event_ics('e%d' % k, ds, [rt]), 'maxpop': 130, 'mode': rnd.choice('np')})
    # more zones in one process than the reader keeps open at a time (16), an event whose TZID names no zone among them, then again
    # events of the zones before (consecutive cases stay in one process)
    ZN = ['Europe/Berlin', 'America/New_York', 'Asia/Tokyo', 'Australia/Sydney', 'America/Sao_Paulo', 'Asia/Kolkata', 'Pacific/Auckland', 'America/Los_Angeles', 'Europe/London', 'Africa/Cairo',
          'America/Chicago', 'Asia/Shanghai', 'Europe/Moscow', 'America/Denver', 'Asia/Dubai', 'Europe/Paris', 'Asia/Seoul', 'America/Toronto']
    for rep in range(6 if tier == 'thorough' else 2):
        seq = rnd.sample(ZN, rnd.choice([15, 16, 16, 17, 18]))
        seq = seq + [rnd.choice(['Atlantis/Lost_City', 'Nowhere', 'Europe/Atlantis'])] + seq[-3:] + [seq[0]]
        for j, zn in enumerate(seq):
            ds = (2021, rnd.randint(1, 12), rnd.randint(1, 28), rnd.randint(0, 23), 0, 0)
            rt = 'FREQ=DAILY;COUNT=150'
            cases.append({'uid': 'z%d_%d' % (rep, j), 'ds': rrgen.inst(ds), 'tz': True, 'rtext': rt + ' @' + zn, 'count': 0, 'until': [], 'ics': rrgen.event_ics('z%d_%d' % (rep, j), ds, [rt], tzid=zn), 'maxpop': 200, 'mode': 'p'})
    # weekly rules (and daily ones with BYDAY) of a table calendar that run off the end of the table, every weekday named: the stream
    # ends there, within the work budget
    for k in range(120 if tier == 'thorough' else 24):
        sc, (y0, m0) = rnd.choice([('HIJRI.UMMULQURA', (2077, 10)), ('HIJRI.DIYANET', (2022, 11)), ('HIJRI.UMMULQURA', (2077, 11)), ('HIJRI.DIYANET', (2022, 12))])
        ds = (y0, m0, rnd.randint(1, 16)) + rnd.choice([(), (6, 30, 0)])
        wdl = rnd.choice(['MO,TU,WE,TH,FR,SA,SU', 'SA,SU', 'FR', 'MO,WE,FR,SU', 'TU,TH,SA'])
        rt = '%s;SCALE=%s;BYDAY=%s' % (rnd.choice(['FREQ=WEEKLY', 'FREQ=WEEKLY', 'FREQ=DAILY', 'FREQ=WEEKLY;INTERVAL=2']), sc, wdl)
        cases.append({'uid': 'te%d' % k, 'ds': rrgen.inst(ds), 'tz': False, 'rtext': rt, 'count': 0, 'until': [], 'ics': rrgen.event_ics('te%d' % k, ds, [rt]), 'maxpop': 130, 'mode': rnd.choice('np')})
    calls = []
    for k in range(n):
        y = rnd.choice([1900, 1901, 1902, 1970, 2000, 2037, 2038, 2077, 2097, 2098, 2099] + rrgen.year_types()); m = rnd.randint(1, 12); d = rnd.choice([1, 28, 29, 30, 31]); d = min(d, rrgen.dim(y, m))
        ds = (y, m, d, rnd.choice([0, 12, 23]), rnd.choice([0, 30, 59]), rnd.choice([0, 59])) if rnd.random() < 0.7 else (y, m, d)
        calls.append((ds, rnd.choice([64, 64, 64, 63, 1, 2, 3, 17]), rrgen.hostile_rule_text(rnd, ds) if rnd.random() < 0.8 else rrgen.ext_rule_text(rnd, ds)[0]))
    nsl = vlib.NCPU; per = -(-n // nsl); perc = -(-len(cases) // nsl)
    with cf.ThreadPoolExecutor(max_workers=nsl) as ex:
        recs = [r for part in ex.map(lambda k: strmrun.run_cases(drv, cases[k * perc:(k + 1) * perc], wd, 'h%d' % k, budget=budget), range(nsl)) for r in part]
        frecs = [r for part in ex.map(lambda k: fill_calls(drf, calls[k * per:(k + 1) * per], wd, 'f%d' % k, budget), range(nsl)) for r in part]
    nocc = sum(len(r.get('occ', [])) for r in recs)
    for r in recs:
        r['nocc'] = len(r.get('occ', []))
        for kk in ('text', 'uid', 'maxpop', 'mode', 'hz', 'occ'): r.pop(kk, None)
        r['occ'] = []
    trace = f'{wd}/hostile.ndjson'
    with open(trace, 'w') as f:
        for r in recs: f.write(json.dumps(r) + '\n')
    ftrace = f'{wd}/fill.ndjson'
    with open(ftrace, 'w') as f:
        for r in frecs: f.write(json.dumps(r) + '\n')
    v = vlib.validate('TraceOrder.tla', 'TraceOrder.cfg', vlib.split_lines(trace, vlib.NCPU, wd, 'hostile', min_lines=200), wd, timeout=3000, extra_env={'PROP': 'C09'})
    vf = vlib.validate('TraceFill.tla', 'TraceFill.cfg', vlib.split_lines(ftrace, vlib.NCPU, wd, 'fill', min_lines=200), wd, timeout=3000)
    bad = []
    for fn, k, g in v['bad'][:1000]:
        rec = json.loads(vlib.getline(fn, k)); rec.pop('occ', None)
        bad.append((vlib.save_replay(PID, f'event{g}.json', rec), rec))
    for fn, k, g in vf['bad'][:1000]:
        rec = json.loads(vlib.getline(fn, k)); rec['occ'] = rec.get('occ', [])[:4]
        bad.append((vlib.save_replay(PID, f'fill{g}.json', rec), rec))
    unlisted, listed = vlib.classify(PID, bad)
    cov = {'states': e1['states'], 'transitions': e1['transitions'], 'traces_validated_against_impl': len(recs) + len(frecs),
           'samples': [{'ds': recs[i]['ds'], 'rtext': recs[i]['rtext'][:300], 'nocc': recs[i]['nocc'], 'stop': recs[i].get('stop')} for i in (0, 1, 2)] + [{k: frecs[0][k] for k in ('ds', 'rule', 'nti', 'n', 'touched') if k in frecs[0]}],
           'evaluations': len(recs) + len(frecs), 'distinct_nontrivial': len(set(r['rtext'] for r in recs if r['nocc'])) + len(set(r['rule'] for r in frecs if r.get('n'))),
           'rule': 'sanitizer build (ASan + bounds).  Event level: one case = one event of 1..3 semantically odd RRULEs (INTERVAL 0, huge and beyond 32 bits, incongruent with BYxxx; maximal BYHOUR x BYMINUTE x BYSECOND; out-of-range ordinals and values; BYMONTHDAY beyond the month; extreme SHIFT/BYEASTER/BYSETPOS; all SCALEs; DTSTART 1600..9999 with emphasis on 1900-1902, 2037-2039, 2076-2078 (table ends), 2096-2100) parsed by the real code and popped 70..2000 times under a per-call budget of 4 s.  Filler level: one case = one call of rrul_fill_<freq> on a heap buffer of exactly 128 instants with sentinel slots.  Non-trivial = at least one occurrence came out',
           'hostile_events': len(recs), 'events_with_occurrences': sum(1 for r in recs if r['nocc']), 'events_ending_in_eos': sum(1 for r in recs if r.get('stop') == 'eos'), 'occurrences_popped': nocc,
           'filler_calls': len(frecs), 'filler_calls_full_cache': sum(1 for r in frecs if r.get('n') == 64), 'rules_not_accepted': vf['nskip'], 'events_not_accepted': v['nskip'],
           'bad_events': v['nbad'], 'bad_filler_calls': vf['nbad'], 'build': 'asan', 'exhaustive': False}
    return vlib.finish(PID, tier, seed, 'model_checking', cov, t0, unlisted, listed,
                       ['TLC/SANY, Json/IOUtils', 'AddressSanitizer + -fsanitize=bounds see every out-of-bounds access on heap, stack and globals, not within one allocation (the cache inside struct evrrul_s is covered by the filler-level calls on an exact-size buffer)',
                        'bounded amount of work is observed as: every next/pop and every filler call returns within 4 s on this machine (normal calls take microseconds)'])
