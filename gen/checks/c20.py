"""C20 - instant and event sorting is a stable ordering permutation"""
import time, json, collections
import vlib

PID = 'C20'

def run(tier, seed):
    t0 = time.time()
    wd = vlib.workdir(PID)
    B = vlib.build('plain')
    drv = vlib.driver(B, 'drv_sort')
    e1 = vlib.model_check('SortE1.tla', 'SortE1.cfg', wd, workers=8)
    if not e1['ok']:
        raise vlib.Broken('SortE1: contract self-check failed:\n' + e1['out'][-1500:])
    trace = f'{wd}/sort.ndjson'
    with open(trace, 'w') as f:
        p = vlib.subprocess.run([drv, tier, str(seed)], stdout=f, timeout=900)
    if p.returncode != 0:
        # the driver died although it guards each call: report as a crash line so that the spec rejects it
        with open(trace, 'a') as f:
            f.write('\n{"e":"Sort","kind":"event","keys":[],"in":[],"crash":true}\n')
    # every length 0..4200 on the sanitizer build (events and instants, two input shapes each): the buffers and block sizes of the
    # merge change with the length; only whether each call came back is recorded (a sanitizer report ends the process)
    import os
    B2 = vlib.build('asan'); drv2 = vlib.driver(B2, 'drv_sort')
    env = dict(os.environ, ASAN_OPTIONS='detect_leaks=0:abort_on_error=0:exitcode=99')
    nlen = 0
    with open(trace, 'a') as f:
        parts = [(0, 1400), (1401, 2400), (2401, 3100), (3101, 3700), (3701, 4200)]
        procs = [vlib.subprocess.Popen([drv2, 'lengths', str(seed), str(a), str(b)], stdout=vlib.subprocess.PIPE, stderr=vlib.subprocess.DEVNULL, env=env, text=True) for a, b in parts]
        for (a, b), pr in zip(parts, procs):
            out, _ = pr.communicate(timeout=1500)
            ls = [l for l in out.split('\n') if l.startswith('{')]
            ok = [l for l in ls if l.endswith('}')]
            for l in ok: f.write(l + '\n')
            nlen += len(ok)
            if pr.returncode != 0 or len(ok) != (b - a + 1) * 4:
                # the process ended before its last length (sanitizer report, crash): the call it was in did not come back
                m = (ls[-1] if ls and not ls[-1].endswith('}') else '{"e":"Sort","kind":"event","keys":[],"in":[],"n":-1')
                f.write(m + ',"crash":true}\n')
    lens = collections.Counter(); distinct = set(); samples = []; nontriv = 0; elems = 0
    good = []
    with open(trace, 'rb') as f:
        for raw in f:
            try:
                l = raw.decode('ascii'); r = json.loads(l)
            except Exception:
                # memory corruption in the sorted process garbled the output: count as crash
                good.append('{"e":"Sort","kind":"event","keys":[],"in":[],"crash":true}\n'); continue
            good.append(l)
            n = len(r['in']); lens[n] += 1; elems += n
            key = hash(l[:l.find('"out"')])
            if key not in distinct:
                distinct.add(key)
                if n >= 2: nontriv += 1
            if len(samples) < 3 and 3 <= n <= 8:
                samples.append(r)
    with open(trace, 'w') as f:
        f.writelines(good)
    chunks = vlib.split_lines(trace, vlib.NCPU, wd, 'sort', min_lines=20)
    v = vlib.validate('TraceSort.tla', 'TraceSort.cfg', chunks, wd)
    bad = []
    for fn, k, g in v['bad'][:200]:
        rec = json.loads(vlib.getline(fn, k))
        bad.append((vlib.save_replay(PID, f'line{g}.json', rec), rec))
    unlisted, listed = vlib.classify(PID, bad)
    cov = {'states': e1['states'], 'transitions': e1['transitions'], 'traces_validated_against_impl': len(chunks),
           'samples': samples, 'evaluations': v['n'], 'distinct_nontrivial': nontriv,
           'rule': 'one case = one sort call (kind, key table, input order); non-trivial = length >= 2. Every length 0..70 (quick) / 0..300 (thorough) x key alphabets {1,2,3,sqrt n,n} x {random, ascending, descending, organ pipe, nearly sorted, sawtooth}; lengths around 256/512/1024/2048/4096; seeded random arrays; 60 (thorough 700) arrays of seeded random length 1200..5000',
           'elements_sorted': elems, 'calls_on_sanitizer_build_every_length_0_4200': nlen, 'max_length': max(lens) if lens else 0, 'distinct_lengths': len(lens),
           'mismatching_lines': v['nbad'], 'skipped_undefined': v['nskip'],
           'e1': 'SortE1: for every permutation-with-ties input of length <= 5 over 3 keys (incl. all-day/timed/whole-second of one day) exactly one output satisfies IsStableSortedPerm, and it is the insertion-sort result',
           'exhaustive': False}
    return vlib.finish(PID, tier, seed, 'model_checking', cov, t0, unlisted, listed,
                       ['TLC/SANY, Json/IOUtils', 'Instant.tla ordering (checked against the code by C08)', 'the printing-only driver; instants carry no id so stability is judged on events'])
