"""C07 - TZID events occur at the stated local wall-clock time"""
import time, json, random, collections, subprocess, os
import vlib, tzif, rrgen, strmrun, datetime as D

PID = 'C07'
QUICK_ZONES = ['Africa/Casablanca', 'Europe/Berlin', 'Europe/London', 'America/New_York', 'America/St_Johns', 'Australia/Lord_Howe', 'Australia/Sydney',
               'Asia/Kathmandu', 'Asia/Kolkata', 'Pacific/Chatham', 'America/Sao_Paulo', 'Africa/Cairo', 'Asia/Tehran', 'Pacific/Apia', 'Europe/Dublin',
               'America/Santiago', 'Asia/Gaza', 'Africa/El_Aaiun', 'Antarctica/Troll', 'America/Havana', 'Pacific/Kiritimati', 'Asia/Pyongyang',
               'America/Caracas', 'Europe/Moscow', 'Atlantic/Azores', 'America/Godthab', 'Asia/Amman', 'Europe/Istanbul', 'Pacific/Fiji', 'Africa/Windhoek',
               'America/Asuncion', 'Asia/Dhaka', 'Pacific/Norfolk', 'Australia/Adelaide', 'America/Scoresbysund', 'Asia/Yangon', 'UTC', 'Etc/GMT+12', 'CET', 'EST5EDT']

def samples(z, rnd, tier):
    """epoch seconds to probe for zone table z (input selection)"""
    us = set()
    for t in z['trans']:
        for d in (-86400, -3600, -1, 0, 1, 3600, 86400):
            us.add(t + d)
    import calendar
    for y in (1902, 1919, 1943, 1969, 1970, 1987, 2000, 2007, 2016, 2024, 2026, 2030, 2036, 2037):
        for m in range(1, 13):
            for d in (1, 15):
                us.add(calendar.timegm((y, m, d, 12, 0, 0)))
    # the second before and the first second of every month of a leap year, ordinary years and the century year: with either sign of
    # the offset one of the two is carried across the month boundary, in one direction by ToLoc and in the other by ToUTC
    for y in (1999, 2000, 2023, 2024, 2026, 2037):
        for m in range(1, 13):
            b = calendar.timegm((y, m, 1, 0, 0, 0))
            us.add(b - 1); us.add(b)
    for _ in range(400 if tier == 'thorough' else 60):
        us.add(rnd.randint(tzif.LO + 86400, tzif.HI - 86400))
    return sorted(u for u in us if tzif.LO + 2 * 86400 < u < tzif.HI - 2 * 86400)

def run(tier, seed):
    t0 = time.time()
    wd = vlib.workdir(PID)
    B = vlib.build('plain')
    drv = vlib.driver(B, 'drv_tz', libs='-lltdl -lm -ldl')
    e1 = vlib.model_check('TZE1.tla', 'TZE1.cfg', wd, workers=8)
    if not e1['ok']:
        raise vlib.Broken('TZE1 failed:\n' + e1['out'][-1500:])
    rnd = random.Random(seed)
    allz = tzif.zones()
    if tier == 'thorough':
        names = allz
    else:
        names = [z for z in QUICK_ZONES if z in allz]
        names += rnd.sample([z for z in allz if z not in names], min(10, len(allz)))
    excluded = 0
    # one driver process per <= 50 zones: the code interns at most 64 zones per process by design
    groups = [names[i:i + 50] for i in range(0, len(names), 50)]
    chunks = []; nzones = 0; nsamp = 0; sample_lines = []
    for gi, g in enumerate(groups):
        inp = []; recs = []
        for zn in g:
            z = tzif.read('/usr/share/zoneinfo/' + zn)
            if z is None:
                excluded += 1; continue
            nzones += 1
            inp.append('Z ' + zn)
            recs.append(('Z', zn, z))
            for u in samples(z, rnd, tier):
                inp.append('U %d' % u); recs.append(('S',))
                # the same number read as a wall-clock time
                inp.append('L %d' % u); recs.append(('S',))
            # wall-clock times at the images of the transitions (just before the gap / overlap, its first and last second, just
            # behind it), in shuffled order so that the zone's range cache is not always primed by the conversion before
            edges = []
            offs = [z['off0']] + list(z['offs'])
            tl = list(enumerate(z['trans']))
            if tier != 'thorough' and len(tl) > 24: tl = rnd.sample(tl, 24)
            for i, t in tl:
                for o in (offs[i], offs[i + 1]):
                    for dlt in (-1, 0, 1, -3600, 3600):
                        w = t + o + dlt
                        if tzif.LO + 2 * 86400 < w < tzif.HI - 2 * 86400: edges.append(w)
            rnd.shuffle(edges)
            for w in edges:
                inp.append('L %d' % w); recs.append(('S',))
        # cache stress: revisit every zone of the group round-robin
        for rep in range(2):
            for zn in g:
                z = tzif.read('/usr/share/zoneinfo/' + zn)
                if z is None: continue
                inp.append('Z ' + zn); recs.append(('Zre', zn, z))
                u = rnd.randint(tzif.LO + 3 * 86400, tzif.HI - 3 * 86400)
                inp.append('U %d' % u); recs.append(('S',)); inp.append('L %d' % u); recs.append(('S',))
        p = subprocess.run([drv], input='\n'.join(inp) + '\n', capture_output=True, text=True, timeout=600)
        outl = [l for l in p.stdout.split('\n') if l]
        fn = f'{wd}/tz{gi:02d}.ndjson'
        zline = {}
        with open(fn, 'w') as f:
            k = 0; ln = 0
            for rc in recs:
                if rc[0] in ('Z', 'Zre'):
                    if rc[1] not in zline:
                        ln += 1; zline[rc[1]] = ln
                        f.write(json.dumps({'e': 'Zone', 'name': rc[1], 'off0': rc[2]['off0'], 'trans': rc[2]['trans'], 'offs': rc[2]['offs']}) + '\n')
                    cur = zline[rc[1]]
                else:
                    if k >= len(outl):
                        f.write(json.dumps({'e': 'ToLoc', 'z': cur, 'crash': True}) + '\n'); ln += 1; continue
                    r = json.loads(outl[k]); k += 1
                    r['z'] = cur
                    f.write(json.dumps(r) + '\n'); ln += 1; nsamp += 1
                    if len(sample_lines) < 3 and r['e'] == 'ToUTC' and ln % 97 == 0: sample_lines.append(r)
        chunks.append((fn, 0))
    v = vlib.validate('TraceTZ.tla', 'TraceTZ.cfg', chunks, wd)
    # ---- event level: DTSTART;TZID=... with a rule, through the real parser and rule expander
    drs = vlib.driver(B, 'drv_strm', libs='-lltdl -lm -ldl')
    evz = [z for z in names if tzif.read('/usr/share/zoneinfo/' + z) is not None]
    if tier != 'thorough': evz = evz[:40]
    ecases = []
    for zn in evz:
        z = tzif.read('/usr/share/zoneinfo/' + zn)
        tyears = sorted(set(time.gmtime(t).tm_year for t in z['trans'] if 1972 < time.gmtime(t).tm_year < 2036)) or [2000]
        for _ in range(6 if tier == 'thorough' else 3):
            y = rnd.choice(tyears); m = rnd.randint(1, 12); d = rnd.randint(1, 28)
            hms = rnd.choice([(9, 0, 0), (12, 30, 0), (18, 45, 30), (23, 30, 0), (6, 15, 59), (0, 30, 0), (2, 30, 0)])
            ds = (y, m, d) + hms
            kind = rnd.choice(['daily', 'daily', 'dailyN', 'weekly', 'monthly', 'tod'])
            if kind == 'daily': r = rrgen.blank('DAILY'); maxpop = 400
            elif kind == 'dailyN': r = rrgen.blank('DAILY', rnd.choice([2, 7, 10])); maxpop = 130
            elif kind == 'weekly':
                r = rrgen.blank('WEEKLY', rnd.choice([1, 1, 2])); wd_ = D.date(y, m, d).weekday() + 1
                r['dow'] = [[0, w] for w in sorted(set([wd_] + rnd.sample(range(1, 8), rnd.randint(0, 3))))]; maxpop = 130
            elif kind == 'monthly': r = rrgen.blank('MONTHLY'); r['md'] = sorted(set([d, rnd.choice([1, 15, 28])])); maxpop = 70
            else:
                # time-of-day parts given in the zone's wall-clock time
                r = rrgen.blank('DAILY'); r['H'] = sorted(set([hms[0], rnd.choice([1, 8, 12, 20])])); maxpop = 130
            rt = rrgen.rule_text(r)
            ecases.append({'zone': zn, 'ds': rrgen.inst(ds), 'rule': rrgen.spec_rule(r), 'rtext': rt, 'kind': kind, 'ics': rrgen.event_ics('z', ds, [rt], tzid=zn), 'maxpop': maxpop, 'hz': (2037, 6, 30), 'mode': 'p'})
    egroups = {}
    for c in ecases: egroups.setdefault(evz.index(c['zone']) // 50, []).append(c)
    echunks = []; erecs_all = []
    for gi, grp in sorted(egroups.items()):
        recs = strmrun.run_cases(drs, grp, wd, 'tzev%d' % gi, budget=5)
        fn = f'{wd}/tzev{gi:02d}.ndjson'; zline = {}; ln = 0
        with open(fn, 'w') as f:
            for c, r in zip(grp, recs):
                if c['zone'] not in zline:
                    z = tzif.read('/usr/share/zoneinfo/' + c['zone']); ln += 1; zline[c['zone']] = ln
                    f.write(json.dumps({'e': 'Zone', 'name': c['zone'], 'off0': z['off0'], 'trans': z['trans'], 'offs': z['offs']}) + '\n')
                for kk in ('text', 'uid', 'maxpop', 'mode'): r.pop(kk, None)
                r['e'] = 'Ev'; r['z'] = zline[c['zone']]; ln += 1
                f.write(json.dumps(r) + '\n'); erecs_all.append(r)
        echunks.append((fn, 0))
    ve = vlib.validate('TraceTZEv.tla', 'TraceTZEv.cfg', echunks, wd, timeout=3000)
    bad = []
    for fn, k, g in v['bad'][:1000]:
        rec = json.loads(vlib.getline(fn, k))
        bad.append((vlib.save_replay(PID, f'{os.path.basename(fn)}_line{k}.json', rec), rec))
    for fn, k, g in ve['bad'][:1000]:
        rec = json.loads(vlib.getline(fn, k)); rec['nocc'] = len(rec.get('occ', [])); rec['occ'] = rec.get('occ', [])[:6]
        bad.append((vlib.save_replay(PID, f'{os.path.basename(fn)}_line{k}.json', rec), rec))
    unlisted, listed = vlib.classify(PID, bad, lambda rec: {'has_tod': bool(rec.get('rule', {}).get('H') or rec.get('rule', {}).get('M') or rec.get('rule', {}).get('S')), 'is_event': rec.get('e') == 'Ev'})
    cov = {'states': e1['states'], 'transitions': e1['transitions'], 'traces_validated_against_impl': len(chunks),
           'samples': sample_lines or [json.loads(vlib.getline(chunks[0][0], 5))], 'evaluations': nsamp, 'distinct_nontrivial': nsamp - v['nskip'] + nzones,
           'rule': 'one case = (zone, instant, direction). Instants: both sides (+-1 s, +-1 h, +-1 d) of every transition of the zone 1902-2037, 1st and 15th of every month of 14 years, seeded random; each number is used as a UTC instant (-> local, offset) and as a wall-clock time (-> UTC). Non-trivial = unambiguous (gap/overlap wall-clock times are skipped by the spec). Event level: DTSTART;TZID=<zone> in a year in which the zone has transitions, with FREQ=DAILY (400 pops), DAILY;INTERVAL=n, WEEKLY;BYDAY, MONTHLY;BYMONTHDAY or DAILY;BYHOUR, parsed and unrolled by the real code; every UTC instant handed out is compared with the zone-table conversion of the wall-clock time the rule selects',
           'event_level': {'events': len(erecs_all), 'zones': len(evz), 'occurrences': sum(len(r.get('occ', [])) for r in erecs_all), 'mismatching': ve['nbad'], 'skipped_gap_overlap_or_undecided': ve['nskip'] - len(evz), 'kinds': dict(collections.Counter(r['kind'] for r in erecs_all))}, 'zones': nzones, 'zone_files_not_tzif': excluded, 'mismatching_lines': v['nbad'], 'skipped_gap_or_overlap_or_zone_lines': v['nskip'],
           'exhaustive': False}
    return vlib.finish(PID, tier, seed, 'model_checking', cov, t0, unlisted, listed,
                       ['TLC/SANY, Json/IOUtils', 'gen/tzif.py: independent RFC 8536 reader of the installed zone files (64-bit block, clipped to 1902..2037)',
                        'at most 50 zones per driver process (the code interns at most 64 zones per process by design)', 'posix/ and right/ subtrees excluded'])
