"""C01 - RRULE expansion equals the RFC 5545 recurrence set (library pops and CLI)"""
import time, json, random, os, subprocess, collections
import vlib, rrgen, strmrun

PID = 'C01'

def derive(rec):
    r = rec.get('rule', {})
    return {'has_yd_or_wk': bool(r.get('yd') or r.get('wk')), 'has_mon_or_md': bool(r.get('mon') or r.get('md')), 'freq': r.get('freq'), 'inter': r.get('inter', 1), 'has_mon': bool(r.get('mon')), 'has_wk': bool(r.get('wk')), 'has_yd': bool(r.get('yd')), 'has_md': bool(r.get('md')),
            'has_dow': bool(r.get('dow')), 'has_ord': any(p[0] for p in r.get('dow', [])), 'has_tod': bool(r.get('H') or r.get('M') or r.get('S')), 'has_pos': bool(r.get('pos')), 'ntod': max(1, len(r.get('H', []))) * max(1, len(r.get('M', []))) * max(1, len(r.get('S', []))),
            'has_count': bool(r.get('count')), 'has_until': bool(r.get('until')), 'timed': rec.get('ds', [0] * 7)[3] != 255, 'via': rec.get('via')}

def cli_cases(B, wd, cases, rnd, nfiles):
    """second observation path: echse unroll --from/--till on files holding many events; one record per event and window"""
    recs = []
    per = max(1, len(cases) // nfiles)
    for fi in range(nfiles):
        grp = cases[fi * per:(fi + 1) * per]
        if not grp: break
        fn = f'{wd}/cli{fi}.ics'
        with open(fn, 'w') as f:
            f.write('BEGIN:VCALENDAR\nVERSION:2.0\n')
            for k, c in enumerate(grp):
                f.write('\n'.join(c['ics'].split('\n')[2:-2]).replace('UID:' + c['uid'], 'UID:c%d' % k) + '\n')
            f.write('END:VCALENDAR\n')
        y0 = min(c['ds'][0] for c in grp)
        hz = (min(2098, y0 + rnd.choice([1, 2, 5])), 12, 31)
        try:
            of = fn + '.out'
            with open(of, 'w') as g:
                p = subprocess.Popen(['timeout', '60', 'sh', '-c', 'ulimit -f 80000; exec "$0" "$@"', f'{B}/echse', 'unroll', '--till', '%04d-%02d-%02dT23:59:59' % hz, '--format', '%b\t%u', fn], stdout=g, stderr=subprocess.DEVNULL)
                rc = p.wait()
            out = open(of).read(); os.unlink(of)
        except subprocess.TimeoutExpired:
            out = ''; rc = -99
        by = collections.defaultdict(list)
        for l in out.split('\n'):
            if '\t' not in l: continue
            t, u = l.split('\t')[:2]
            try:
                if 'T' in t: by[u].append([int(t[0:4]), int(t[5:7]), int(t[8:10]), int(t[11:13]), int(t[14:16]), int(t[17:19]), 1023])
                else: by[u].append([int(t[0:4]), int(t[5:7]), int(t[8:10]), 255, 0, 0, 0])
            except ValueError:
                by[u].append([0, 0, 0, 0, 0, 0, 0])
        for k, c in enumerate(grp):
            r = {'e': 'Unroll', 'via': 'cli', 'ds': c['ds'], 'rule': c['rule'], 'tag': c['tag'], 'rtext': c['rtext'], 'hz': list(hz), 'occ': by.get('c%d' % k, []), 'stop': 'hz', 'peekmism': 0, 'id': k}
            if rc != 0: r['crash'] = rc
            recs.append(r)
        os.unlink(fn)
    return recs

def make_cases(rnd, tier, n_cat=None, n_rand=None, freqs=rrgen.FREQS, pid=PID):
    cat = rrgen.catalogue(rnd, tier)
    if n_cat: cat = cat[:n_cat]
    nr = n_rand if n_rand is not None else (60000 if tier == 'thorough' else 1200)
    allc = cat + [rrgen.random_case(rnd, freqs) for _ in range(nr)]
    cases = []
    # the witnesses of the open known findings always run first
    for f in vlib.load_findings(pid):
        w = f.get('witness')
        if not w or 'rule' not in w: continue
        ds = tuple(w['ds'][:3]) if w['ds'][3] == 255 else tuple(w['ds'][:6])
        uid = 'w%d' % len(cases)
        cases.append({'uid': uid, 'ds': w['ds'], 'rule': w['rule'], 'tag': 'witness:' + f['id'], 'rtext': w['rtext'],
                      'ics': rrgen.event_ics(uid, ds, [w['rtext']]), 'maxpop': 140, 'mode': 'n'})
    for k, (ds, r, tag) in enumerate(allc):
        uid = 'u%d' % k
        cases.append({'uid': uid, 'ds': rrgen.inst(ds), 'rule': rrgen.spec_rule(r), 'tag': tag, 'rtext': rrgen.rule_text(r), 'ics': rrgen.event_ics(uid, ds, [r]),
                      'maxpop': rnd.choice([70, 140, 140, 330]), 'mode': rnd.choice('np')})
    return cases

def run(tier, seed, pid=PID):
    t0 = time.time()
    wd = vlib.workdir(pid)
    B = vlib.build('plain')
    drv = vlib.driver(B, 'drv_strm', libs='-lltdl -lm -ldl')
    rnd = random.Random(seed)
    e1 = None
    for c in (2, 3, 4):
        x = vlib.model_check('RuleStreamE1.tla', f'RuleStreamE1_{c}.cfg', wd, workers=4, timeout=2400)
        if not x['ok']:
            raise vlib.Broken(f'RuleStreamE1 (cache size {c}): the refill protocol model loses or duplicates members:\n' + x['out'][-2500:])
        if e1 is None: e1 = x
        else: e1['states'] += x['states']; e1['transitions'] += x['transitions']
    cases = make_cases(rnd, tier, n_cat=None if tier == 'thorough' else 1300, pid=pid)
    if pid == PID:
        # combinations beyond the shape catalogue (own generator state: the populations above stay as they were)
        rx = random.Random(seed * 7919 + 17)
        for k in range(6000 if tier == 'thorough' else 400):
            ds, r, tag = rrgen.extra_case(rx); uid = 'x%d' % k
            cases.append({'uid': uid, 'ds': rrgen.inst(ds), 'rule': rrgen.spec_rule(r), 'tag': tag, 'rtext': rrgen.rule_text(r), 'ics': rrgen.event_ics(uid, ds, [r]), 'maxpop': rx.choice([70, 140]), 'mode': rx.choice('np')})
    # library path, in parallel slices
    nsl = vlib.NCPU; per = -(-len(cases) // nsl)
    import concurrent.futures as cf
    def sl(k):
        return strmrun.run_cases(drv, cases[k * per:(k + 1) * per], wd, 'lib%d' % k)
    with cf.ThreadPoolExecutor(max_workers=nsl) as ex:
        recs = [r for part in ex.map(sl, range(nsl)) for r in part]
    for r in recs:
        r.pop('text', None); r.pop('uid', None); r.pop('maxpop', None); r.pop('mode', None)
    ncli = len(cases) // (3 if tier == 'thorough' else 2)
    # the CLI prints every occurrence up to --till: keep to rules that yield at most a few per day
    clipool = [c for c in cases if c['rule']['freq'] in ('YEARLY', 'MONTHLY', 'WEEKLY', 'DAILY') and len(c['rule']['H'] or [0]) * len(c['rule']['M'] or [0]) * len(c['rule']['S'] or [0]) <= 12]
    crecs = cli_cases(B, wd, rnd.sample(clipool, min(ncli, len(clipool))), rnd, max(4, ncli // 25))
    allrecs = recs + crecs
    # the families differ a lot in what their evaluation costs (the combinations beyond the catalogue most): mixed, every chunk gets its share
    random.Random(seed + 17).shuffle(allrecs)
    trace = f'{wd}/rrule.ndjson'
    with open(trace, 'w') as f:
        for r in allrecs: f.write(json.dumps(r) + '\n')
    chunks = vlib.split_lines(trace, vlib.NCPU * (4 if tier == 'thorough' else 1), wd, 'rr', min_lines=50)
    v = vlib.validate('TraceRRule.tla', 'TraceRRule.cfg', chunks, wd, timeout=9000)
    bad = []
    for fn, k, g in v['bad'][:3000]:
        rec = json.loads(vlib.getline(fn, k))
        bad.append((vlib.save_replay(pid, f'line{g}.json', rec), rec))
    unlisted, listed = vlib.classify(pid, bad, derive)
    tags = collections.Counter(r['tag'] for r in allrecs)
    nocc = sum(len(r.get('occ', [])) for r in allrecs)
    cov = {'states': e1['states'], 'transitions': e1['transitions'], 'traces_validated_against_impl': len(allrecs),
           'samples': [{k: allrecs[i][k] for k in ('via', 'ds', 'rtext', 'stop') if k in allrecs[i]} | {'first_occ': allrecs[i].get('occ', [])[:3]} for i in (0, len(recs) // 2, len(allrecs) - 1)],
           'evaluations': len(allrecs), 'distinct_nontrivial': len(set((json.dumps(r['ds']), r['rtext'], r['via']) for r in allrecs)) - v['nskip'],
           'rule': 'one case = (DTSTART, RRULE, observation path). Catalogue: FREQ x BY-shape x INTERVAL in {1,2,3,4,5,7,10,12,13,24,30,60,90} x 14 year types x calendar phases (month ends, leap day, year ends) x {DATE, 00:00:00, 23:59:59, mid-day}, with COUNT in {1,2,3,5,10,62..65,126..128,200} or UNTIL; seeded random rules with negative values, ordinals, time-of-day products straddling the 64-slot cache. Paths: library (parse, then next/pop one occurrence at a time up to 70..330 pops = several refills) and CLI (echse unroll --till of files holding many events). Non-trivial = well-formed, synchronised, decided within the work budget',
           'occurrences_compared': nocc, 'library_cases': len(recs), 'cli_cases': len(crecs), 'shapes': len(tags), 'mismatching_cases': v['nbad'],
           'skipped_undefined_or_undecided': v['nskip'], 'e1': 'RuleStreamE1: the 64-slot cache/refill protocol of evical.c (seed hold-back, COUNT accounting) over an ideal filler: popped sequence = prefix of the set, never more than COUNT, for cache sizes 2..4',
           'exhaustive': False}
    return vlib.finish(pid, tier, seed, 'model_checking', cov, t0, unlisted, listed,
                       ['TLC/SANY, Json/IOUtils, SequencesExt', 'spec/RRule.tla is the RFC 5545 reading used (weeks start on Monday, ISO 8601 week numbers, invalid dates dropped, BYSETPOS per period); gen/rrgen.py renders the same rule as text and as the record the spec reads',
                        'rules the RFC leaves undefined (DTSTART not in its own set, MUST NOT combinations) are skipped by the spec and counted'])
