"""C19 - small-integer set containers behave as sets"""
import time, json, collections
import vlib

PID = 'C19'

def run(tier, seed):
    t0 = time.time()
    wd = vlib.workdir(PID)
    B = vlib.build('plain')
    drv = vlib.driver(B, 'drv_bitint')
    e1 = vlib.model_check('BitintE1.tla', 'BitintE1.cfg', wd, workers=8)
    if not e1['ok']:
        raise vlib.Broken('BitintE1: mechanism model does not refine the abstract set:\n' + e1['out'][-1500:])
    for act in ('InsertU', 'InsertS'):
        if e1['coverage'].get(act, {}).get('distinct', 0) == 0:
            raise vlib.Broken(f'BitintE1 vacuous: action {act} never taken')
    trace = f'{wd}/bitint.ndjson'
    with open(trace, 'w') as f:
        vlib.subprocess.run([drv, tier, str(seed)], stdout=f, check=True, timeout=900)
    kinds = collections.Counter(); distinct = set(); samples = {}; nontriv = 0
    with open(trace) as f:
        for l in f:
            i = l.index('"t":"') + 5
            t = l[i:l.index('"', i)]
            kinds[t] += 1
            j = l.index('"ins":') + 6
            key = (t, l[j:l.index(']', j)])
            if key not in distinct:
                distinct.add(key)
                if key[1].count(',') >= 1:
                    nontriv += 1
            if t not in samples and key[1].count(',') >= 2:
                samples[t] = json.loads(l)
    chunks = vlib.split_lines(trace, vlib.NCPU, wd, 'bitint')
    v = vlib.validate('TraceBitint.tla', 'TraceBitint.cfg', chunks, wd)
    bad = []
    for fn, k, g in v['bad'][:2000]:
        rec = json.loads(vlib.getline(fn, k))
        bad.append((vlib.save_replay(PID, f'line{g}.json', rec), rec))
    unlisted, listed = vlib.classify(PID, bad)
    ndrift = sum(x.get('ndrift', 0) for x in v['extra'])
    cov = {'states': e1['states'], 'transitions': e1['transitions'], 'traces_validated_against_impl': len(chunks),
           'samples': list(samples.values()), 'evaluations': v['n'], 'distinct_nontrivial': nontriv,
           'rule': 'one case = (container type, insertion sequence); distinct by both; non-trivial = at least two insertions. All singletons; all ordered pairs (small types and bi63; all six in thorough); all ordered triples of bui31/bui63/bi31 (thorough) and of a 28-value boundary set; seeded random sequences up to 40 insertions incl. repeats, non-positive-only, clustered',
           'lines_by_type': dict(kinds), 'mismatching_lines': v['nbad'], 'skipped_undefined': v['nskip'],
           'model_drift_lines': ndrift,
           'e1_actions': e1['coverage'], 'e1_constants': 'W=4 (values -4..4 / 0..4), native capacity K=2, all insertion sequences of length <= 5',
           'exhaustive': False}
    if ndrift:
        cov['model_drift_note'] = 'representation or iteration order differs from spec/BitintRep.tla on some lines although the set contract holds: update the I-model'
    return vlib.finish(PID, tier, seed, 'model_checking', cov, t0, unlisted, listed,
                       ['TLC/SANY, Json/IOUtils modules', 'the C driver prints inserted values, iteration output, has() results and the decoded representation words; it computes no expectation'])
