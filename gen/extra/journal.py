"""growth item: the journal shared by concurrent executors (Journal.tla): E1 + runs of N real echsx processes on one journal file"""
import os, sys, json, time, subprocess, tempfile, shutil, random, concurrent.futures as cf
import vlib, execrun

NAME = 'journal'

def one_round(B, shim, wd, nproc, rnd, rnd_id):
    d = tempfile.mkdtemp(prefix='j', dir=wd)
    jf = d + '/journal'
    open(jf, 'w').close()
    uids = ['r%dp%d-%s' % (rnd_id, i, 'x' * rnd.choice([1, 40, 200])) for i in range(nproc)]
    procs = []
    start_at = time.time() + 0.3
    for i, u in enumerate(uids):
        # a long command line makes the entry span more than one 4 KiB flush of the buffered writer
        cmd = 'true ' + ' '.join('a%d' % k for k in range(rnd.choice([1, 300, 900])))
        v = '\n'.join(['BEGIN:VCALENDAR', 'VERSION:2.0', 'BEGIN:VTODO', 'UID:' + u, 'SUMMARY:sleep %.2f; %s' % (max(0.0, start_at - time.time()), cmd[:900]), 'X-ECHS-SETUID:%d' % os.getuid(), 'X-ECHS-SETGID:%d' % os.getgid(),
                       'X-ECHS-SHELL:/bin/sh', 'LOCATION:' + d, 'X-ECHS-MAIL-RUN:0', 'X-ECHS-MAIL-OUT:0', 'X-ECHS-MAIL-ERR:0', 'ORGANIZER:echse', 'END:VTODO', 'END:VCALENDAR', ''])
        # like echsd: the journal is opened anew for every executor and positioned at its end
        fd = os.open(jf, os.O_RDWR | os.O_CREAT, 0o600); os.lseek(fd, 0, os.SEEK_END)
        p = subprocess.Popen([f'{B}/echsx', '-v'], stdin=subprocess.PIPE, stdout=fd, stderr=subprocess.DEVNULL, env=dict(os.environ, XSHIM_DIR=d, XSHIM_MAILER=execrun.MAILER, LD_PRELOAD=shim))
        os.close(fd); p.stdin.write(v.encode()); p.stdin.close(); procs.append(p)
    rcs = []
    for p in procs:
        try: rc = p.wait(timeout=60)
        except subprocess.TimeoutExpired: p.kill(); rc = -99
        if rc != 0: rcs.append(rc)
    toks = []
    for l in open(jf, errors='replace').read().split('\n'):
        if l.startswith('BEGIN:V'): toks.append(['B'])
        elif l.startswith('END:V'): toks.append(['E'])
        elif l.startswith('UID:'): toks.append(['U', l[4:]])
        elif l: toks.append(['X'])
    shutil.rmtree(d, ignore_errors=True)
    return {'e': 'Journal', 'nproc': nproc, 'toks': toks, 'expect': uids, 'rcs': rcs}

def run(tier, seed):
    t0 = time.time()
    wd = vlib.workdir('X-' + NAME)
    B = vlib.build('plain'); shim = execrun.build_shim(B)
    rnd = random.Random(seed)
    e1 = vlib.model_check('JournalE1.tla', 'JournalE1.cfg', wd, workers=4)
    if not e1['ok']: raise vlib.Broken('JournalE1 failed:\n' + e1['out'][-1500:])
    e1n = vlib.model_check('JournalE1.tla', 'JournalE1_nolock.cfg', wd, workers=4)
    if e1n['ok']: raise vlib.Broken('Journal.tla does not discriminate: the variant without locking satisfies the contract')
    rounds = 60 if tier == 'thorough' else 10
    recs = []
    for r in range(rounds):
        recs.append(one_round(B, shim, wd, rnd.choice([4, 8, 12]), rnd, r))
    trace = f'{wd}/journal.ndjson'
    with open(trace, 'w') as f:
        for r in recs: f.write(json.dumps(r) + '\n')
    v = vlib.validate('TraceJournal.tla', 'TraceJournal.cfg', [(trace, 0)], wd)
    for fn, k, g in v['bad']:
        print('EXTRA-VIOLATION item=%s replay=%s' % (NAME, vlib.save_replay('X-' + NAME, f'round{g}.json', json.loads(vlib.getline(fn, k)))))
    print('extra %s: E1 %d states (lock) / violation found without lock; %d rounds, %d executors, %d bad, %.0f s' % (NAME, e1['states'], len(recs), sum(r['nproc'] for r in recs), v['nbad'], time.time() - t0))
    return 1 if v['nbad'] else 0
