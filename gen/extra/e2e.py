"""growth item: the whole path user file -> echsq -> echsd -> echsx with the real binaries in real time, judged by TraceE2E.tla"""
import os, json, time, random, subprocess, shutil, re
import vlib

NAME = 'e2e'

def plan(rnd, k, wd):
    tasks = []
    for i in range(rnd.randint(4, 7)):
        uid = 's%dt%d' % (k, i); kind = rnd.choice(['rdate', 'rule', 'limit', 'maxsim', 'rule'])
        t = {'uid': uid, 'jobsecs': 0, 'limit': 0, 'maxsim': 0, 'cwd': wd, 'umask': 0o22}
        if rnd.random() < 0.4: t['cwd'] = wd + '/dir%d' % rnd.randint(1, 3)
        if rnd.random() < 0.4: t['umask'] = rnd.choice([0o77, 0o27, 0o2])
        if kind == 'rdate':
            occ = sorted(set(rnd.randint(0, 9) for _ in range(rnd.randint(1, 4)))); t.update(start=occ[0], rdates=occ, occ=occ)
        elif kind == 'rule':
            st = rnd.randint(0, 3); iv = rnd.randint(1, 3); n = rnd.randint(2, 4); t.update(start=st, rrule='FREQ=SECONDLY;INTERVAL=%d;COUNT=%d' % (iv, n), occ=[st + j * iv for j in range(n)])
        elif kind == 'limit':
            st = rnd.randint(0, 5); L = rnd.choice([1, 2]); js = rnd.choice([L + 3, L + 5, 0]); t.update(start=st, rdates=[st], occ=[st], limit=L, jobsecs=js)
        else:
            st = rnd.randint(0, 2); n = rnd.choice([1, 2]); t.update(start=st, rrule='FREQ=SECONDLY;INTERVAL=2;COUNT=4', occ=[st + 2 * j for j in range(4)], maxsim=n, jobsecs=rnd.choice([3, 5]))
        tasks.append(t)
    return {'lead': 3, 'horizon': 16, 'tasks': tasks}

def restart_plan(rnd, k, wd):
    """a session across a crash of the daemon: it is killed outright at +63 s (its periodic checkpoint is at about +57 s) and
    started again at +65 s; occurrences before, and well after, the down time"""
    tasks = []
    for i in range(4):
        uid = 's%dr%d' % (k, i)
        t = {'uid': uid, 'jobsecs': 0, 'limit': 0, 'maxsim': 0, 'cwd': wd, 'umask': 0o22}
        if i % 2 == 0:
            occ = sorted(set([rnd.randint(1, 12), rnd.randint(72, 80), rnd.randint(81, 86)])); t.update(start=occ[0], rdates=occ, occ=occ)
        else:
            st = rnd.randint(1, 8); iv = rnd.choice([37, 38, 39]); t.update(start=st, rrule='FREQ=SECONDLY;INTERVAL=%d;COUNT=3' % iv, occ=[st + j * iv for j in range(3)])
        tasks.append(t)
    return {'lead': 3, 'horizon': 92, 'kill_at': 63, 'restart_at': 65, 'tasks': tasks}


def run(tier, seed):
    t0 = time.time()
    wd = vlib.workdir('X-' + NAME)
    B = vlib.build('plain')
    rnd = random.Random(seed)
    if subprocess.run(['unshare', '-n', '-m', 'true']).returncode != 0:
        raise vlib.Broken('private namespaces are not available here (needs root): the end-to-end session cannot be isolated')
    nsess = 8 if tier == 'thorough' else 2
    recs = []
    for k in range(nsess):
        w = f'{wd}/s{k}'; os.makedirs(w)
        p = restart_plan(rnd, k, w) if (tier == 'thorough' and k == nsess - 1) else plan(rnd, k, w)
        json.dump(p, open(w + '/plan.json', 'w'))
        r = subprocess.run(['unshare', '-n', '-m', 'python3', f'{vlib.VERIF}/harness/e2e/inner.py', B, w, w + '/plan.json', w + '/out.json'], capture_output=True, text=True, timeout=240)
        if not os.path.exists(w + '/out.json'):
            raise vlib.Broken('end-to-end session did not complete:\n' + r.stderr[-1500:])
        o = json.load(open(w + '/out.json'))
        t0s = o.get('t0', 0)
        log = []
        for f in o['log']:
            e = {'k': f[0], 'uid': f[1], 'pid': int(f[2]), 'at': int(round((float(f[3]) - t0s) * 1000)), 'cwd': f[4] if len(f) > 4 else '', 'umask': int(f[5], 8) if len(f) > 5 else 0}
            log.append(e)
        log.sort(key=lambda e: e['at'])
        left = []
        for fn, txt in o['files'].items():
            if fn.startswith('echsq_'): left += re.findall(r'^UID:(.*)$', txt, re.M)
        recs.append({'e': 'Session', 'ready': o['ready'], 'daemon_rc': o['daemon_rc'], 'submit': [{'uid': s['uid'], 'rc': s['rc']} for s in o['submit']], 'log': log, 'left_in_queue': left,
                     'tasks': [{'uid': t['uid'], 'occ': [x * 1000 for x in t['occ']], 'jobms': t['jobsecs'] * 1000, 'limit': t['limit'], 'maxsim': t['maxsim'], 'cwd': t['cwd'], 'umask': t['umask']} for t in p['tasks']]})
    trace = f'{wd}/e2e.ndjson'
    with open(trace, 'w') as f:
        for r in recs: f.write(json.dumps(r) + '\n')
    v = vlib.validate('TraceE2E.tla', 'TraceE2E.cfg', [(trace, 0)], wd)
    for fn, k, g in v['bad']:
        print('EXTRA-VIOLATION item=%s replay=%s' % (NAME, vlib.save_replay('X-' + NAME, f'session{g}.json', json.loads(vlib.getline(fn, k)))))
    print('extra %s: %d sessions of real echsd/echsq/echsx, %d tasks, %d job starts, %d bad, %.0f s' % (NAME, len(recs), sum(len(r['tasks']) for r in recs), sum(1 for r in recs for e in r['log'] if e['k'] == 'S'), v['nbad'], time.time() - t0))
    return 1 if v['nbad'] else 0
