"""growth item: the UID intern table (Intern.tla): E1 on the probing-stack model + a long session of the real intern()"""
import os, json, time, random, subprocess
import vlib

NAME = 'intern'

def run(tier, seed):
    t0 = time.time()
    wd = vlib.workdir('X-' + NAME)
    B = vlib.build('asan')
    drv = vlib.driver(B, 'drv_intern', libs='-lltdl -lm -ldl')
    rnd = random.Random(seed)
    st = 0
    for cfg in ('InternE1.cfg', 'InternE1_w.cfg'):
        e1 = vlib.model_check('InternE1.tla', cfg, wd, workers=4)
        if not e1['ok']: raise vlib.Broken('InternE1 failed:\n' + e1['out'][-1500:])
        st += e1['states']
    n = 400000 if tier == 'thorough' else 60000
    alpha = 'abcdefghijklmnopqrstuvwxyz0123456789-_@.'
    strs = []
    for i in range(n):
        x = rnd.random()
        if x < 0.15 and strs: strs.append(rnd.choice(strs[-300:]))                # again
        elif x < 0.17: strs.append(rnd.choice(['', 'x' * 255, 'y' * 256, 'z' * 300]) + ('' if rnd.random() < 0.5 else ''))
        else:
            L = rnd.choice([1, 2, 3, 4, 5, 7, 8, 9, 12, 15, 16, 17, 31, 32, 33, 36, 63, 64, 100, 128, 200, 254, 255])
            strs.append('%x' % i + ''.join(rnd.choice(alpha) for _ in range(max(0, L - len('%x' % i)))))
    p = subprocess.run([drv], input='\n'.join(strs) + '\n', capture_output=True, text=True, timeout=1200, env=dict(os.environ, ASAN_OPTIONS='detect_leaks=0:exitcode=99'))
    if p.returncode != 0:
        print('EXTRA-VIOLATION item=%s replay=%s' % (NAME, vlib.save_replay('X-' + NAME, 'crash.txt', p.stderr[-3000:]))); return 1
    I = {}; Nn = {}
    for l in p.stdout.split('\n'):
        if not l: continue
        r = json.loads(l)
        (I if r['op'] == 'I' else Nn)[r['k']] = r
    # strings whose 32-bit hash coincides with that of another string of the session are one object by design
    # ("super-collision" in intern.c); they are set aside and counted, not judged
    by = {}
    for k, r in I.items():
        if 1 <= len(strs[k - 1]) <= 255: by.setdefault(r['id'], set()).add(r['s'])
    superc = {i for i, ss in by.items() if len(ss) > 1}
    win = 250; recs = []
    for a in range(1, len(strs) + 1, win):
        ops = []
        for k in range(a, min(a + win, len(strs) + 1)):
            if k not in I or I[k]['id'] in superc: continue
            ops.append({'s': I[k]['s'], 'len': len(strs[k - 1]), 'id': I[k]['id'], 'name': I[k]['name'], 'late': Nn.get(k, {}).get('name', '?')})
        recs.append({'e': 'Intern', 'ops': ops})
    trace = f'{wd}/intern.ndjson'
    with open(trace, 'w') as f:
        for r in recs: f.write(json.dumps(r) + '\n')
    v = vlib.validate('TraceIntern.tla', 'TraceIntern.cfg', vlib.split_lines(trace, vlib.NCPU, wd, 'intern', min_lines=4), wd, timeout=3000)
    for fn, k, g in v['bad'][:20]:
        print('EXTRA-VIOLATION item=%s replay=%s' % (NAME, vlib.save_replay('X-' + NAME, f'window{g}.json', json.loads(vlib.getline(fn, k)))))
    print('extra %s: E1 %d states; %d strings interned in one session (sanitizer build), %d windows, %d hash values shared by different strings (set aside), %d bad, %.0f s' % (NAME, st, len(strs), len(recs), len(superc), v['nbad'], time.time() - t0))
    return 1 if v['nbad'] else 0
