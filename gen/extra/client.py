"""growth item: the queue as its users see it through the real client echsq (add / cancel / list / next / edit / --dry-run, several users,
root looking into other queues) against a real echsd; Client.tla is the state machine, TraceClient.tla consumes one recorded invocation per state"""
import os, json, time, random, subprocess, re
import vlib

NAME = 'client'
USERS = ['nobody', 'daemon']
UIDNAME = {'65534': 'nobody', '1': 'daemon', '0': 'root'}
STARTS = [('20301001T120000Z', '2030-10-01T12:00:00'), ('20310115T063000Z', '2031-01-15T06:30:00'), ('20290704T235959Z', '2029-07-04T23:59:59'), ('20320229T000000Z', '2032-02-29T00:00:00')]
DIRS = ['d0', 'd1', 'd2']

def mkplan(rnd, k, ncmd):
    pool = ['s%dk%d' % (k, i) for i in range(6)]
    cmds = []
    def ev():
        ds, st = rnd.choice(STARTS)
        e = {'uid': rnd.choice(pool), 'cmd': '/bin/true c%d' % rnd.randint(0, 30), 'dtstart': ds, 'start': st}
        if rnd.random() < 0.3: e['rrule'] = rnd.choice(['FREQ=DAILY;COUNT=5', 'FREQ=WEEKLY', 'FREQ=MONTHLY;COUNT=3', 'FREQ=YEARLY;INTERVAL=2'])
        return e
    def files():
        return [[ev() for _ in range(rnd.randint(1, 3))] for _ in range(rnd.choice([1, 1, 2]))]
    for i in range(ncmd):
        peer = rnd.choice(USERS)
        x = rnd.random()
        if x < 0.30 or i < 2:
            cmds.append({'op': 'add', 'peer': peer, 'cwd': rnd.choice(DIRS), 'umask': rnd.choice([0o22, 0o22, 0o77, 0o27, 0o2]), 'files': files()})
        elif x < 0.42:
            cmds.append({'op': 'cancel', 'peer': peer, 'ids': rnd.sample(pool, rnd.randint(1, 3))})
        elif x < 0.52:
            cmds.append({'op': 'edit', 'peer': peer, 'uid': rnd.choice(pool), 'cmd': '/bin/true e%d' % rnd.randint(0, 99)})
        elif x < 0.58:
            cmds.append({'op': 'dry', 'peer': peer, 'cwd': rnd.choice(DIRS), 'umask': rnd.choice([0o22, 0o77, 0o7]), 'files': files()})
        else:
            mode = rnd.choice(['brief', 'brief', 'ical', 'next'])
            c = {'op': 'list', 'peer': peer, 'whose': peer, 'mode': mode, 'ids': rnd.sample(pool, rnd.randint(1, 3)) if rnd.random() < 0.35 else []}
            y = rnd.random()
            if y < 0.25: c.update(peer='root', whose=rnd.choice(USERS), numeric=rnd.random() < 0.5)       # root looks into a user's queue
            elif y < 0.40: c.update(whose=[u for u in USERS if u != peer][0])                               # a user tries to look into another one's
            if mode == 'brief' and not c['ids'] and c['whose'] == c['peer'] and rnd.random() < 0.4: c['bare'] = True   # plain `echsq`
            cmds.append(c)
    if rnd.random() < 0.6:
        # meanwhile other peers open 33..45 connections and keep them for a while (the daemon's table has 64 slots in two halves)
        a = rnd.randint(1, len(cmds) - 6); b = a + rnd.randint(3, 5)
        cmds.insert(b, {'op': 'crowd', 'peer': 'root', 'n': 0}); cmds.insert(a, {'op': 'crowd', 'peer': 'root', 'n': rnd.choice([33, 34, 40, 45])})
    return {'dirs': DIRS, 'cmds': cmds}

def pretty(dt):
    m = re.match(r'(\d{4})(\d\d)(\d\d)T(\d\d)(\d\d)(\d\d)Z?$', dt)
    return '%s-%s-%sT%s:%s:%s' % m.groups() if m else dt

def parse_ical(txt, with_owner):
    rows = []; owner = ''
    cur = None
    for ln in txt.splitlines():
        ln = ln.rstrip('\r')
        if ln.startswith('X-ECHS-OWNER:') and cur is None: owner = UIDNAME.get(ln[13:], ln[13:])
        elif ln == 'BEGIN:VEVENT': cur = {'uid': '', 'cmd': '', 'cwd': '', 'umask': -1, 'start': ''}
        elif ln == 'END:VEVENT' and cur is not None:
            rows.append(cur); cur = None
        elif cur is not None:
            if ln.startswith('UID:'): cur['uid'] = ln[4:]
            elif ln.startswith('SUMMARY:'): cur['cmd'] = ln[8:]
            elif ln.startswith('LOCATION:'): cur['cwd'] = ln[9:]
            elif ln.startswith('X-ECHS-UMASK:'): cur['umask'] = int(ln[13:], 8)
            elif ln.startswith('DTSTART:'): cur['start'] = pretty(ln[8:])
    return (rows, owner) if with_owner else rows

def project(c, s):
    """one plan command + what the client printed -> one trace line"""
    out = s['out']
    if c['op'] == 'crowd': return {'e': 'Crowd', 'peer': 'root', 'rc': s['rc'], 'n': c['n'], 'open': int(out or 0)}
    if c['op'] in ('add', 'dry'):
        evs = [{'uid': e['uid'], 'cmd': e['cmd'], 'cwd': s['cwd'], 'umask': c['umask'], 'start': e['start']} for f in c['files'] for e in f]
        if c['op'] == 'add': return {'e': 'Add', 'peer': c['peer'], 'rc': s['rc'], 'evs': evs, 'replies': out.split()}
        return {'e': 'Dry', 'peer': c['peer'], 'rc': s['rc'], 'evs': evs, 'rows': parse_ical(out, False)}
    if c['op'] == 'cancel': return {'e': 'Cancel', 'peer': c['peer'], 'rc': s['rc'], 'ids': c['ids'], 'replies': out.split()}
    if c['op'] == 'edit': return {'e': 'Edit', 'peer': c['peer'], 'rc': s['rc'], 'uid': c['uid'], 'cmd': c['cmd'], 'replies': out.split()}
    hdr = ''
    if c['mode'] == 'ical': rows, hdr = parse_ical(out, True)
    elif c['mode'] == 'brief': rows = [{'uid': l.split('\t')[0], 'cmd': l.split('\t', 1)[1] if '\t' in l else ''} for l in out.splitlines() if l]
    else: rows = [{'uid': l.split('\t')[0], 'next': (l.split('\t', 1)[1] if '\t' in l else '').split('/')[0]} for l in out.splitlines() if l]
    return {'e': 'List', 'peer': c['peer'], 'whose': c['whose'], 'rc': s['rc'], 'mode': c['mode'], 'ids': c.get('ids', []), 'rows': rows, 'owner_hdr': hdr}

def run(tier, seed):
    t0 = time.time()
    wd = vlib.workdir('X-' + NAME)
    B = vlib.build('plain')
    rnd = random.Random(seed)
    e1 = vlib.model_check('ClientE1.tla', 'ClientE1.cfg', wd, workers=4)
    if not e1['ok']:
        print('EXTRA-VIOLATION item=%s replay=spec/ClientE1.tla (the design-level properties of Client.tla do not hold)' % NAME); return 1
    if subprocess.run(['unshare', '-n', '-m', 'true']).returncode != 0:
        raise vlib.Broken('private namespaces are not available here (needs root)')
    nsess, ncmd = (24, 60) if tier == 'thorough' else (6, 40)
    chunks = []; nlines = 0; plans = []
    for k in range(nsess):
        w = f'{wd}/s{k}'; os.makedirs(w)
        p = mkplan(rnd, k, ncmd); plans.append(p)
        json.dump(p, open(w + '/plan.json', 'w'))
        r = subprocess.run(['unshare', '-n', '-m', 'python3', f'{vlib.VERIF}/harness/e2e/client.py', B, w, w + '/plan.json', w + '/out.json'], capture_output=True, text=True, timeout=600)
        if not os.path.exists(w + '/out.json'):
            raise vlib.Broken('client session did not complete:\n' + r.stderr[-1500:])
        o = json.load(open(w + '/out.json'))
        if not o['ready'] or len(o['steps']) != len(p['cmds']):
            raise vlib.Broken('client session: the daemon did not come up or steps are missing:\n' + o.get('echsd_err', '')[-800:])
        with open(w + '/trace.ndjson', 'w') as f:
            for c, s in zip(p['cmds'], o['steps']):
                f.write(json.dumps(project(c, s)) + '\n'); nlines += 1
        chunks.append((w + '/trace.ndjson', 0))
    nbad = 0
    jobs = [('TraceClient.tla', 'TraceClient.cfg', fn, wd, 'c%d' % k, 600, None) for k, (fn, _) in enumerate(chunks)]
    import concurrent.futures as cf
    with cf.ThreadPoolExecutor(max_workers=8) as ex:
        verdicts = list(ex.map(vlib.validate_file, jobs))
    for k, v in enumerate(verdicts):
        if v.get('nbad'):
            nbad += 1
            line = v['reached'] + 1
            rec = {'session': k, 'rejected_line': line, 'record': json.loads(vlib.getline(chunks[k][0], line) or '{}'), 'trace': chunks[k][0]}
            print('EXTRA-VIOLATION item=%s replay=%s' % (NAME, vlib.save_replay('X-' + NAME, f'session{k}.json', rec)))
    print('extra %s: ClientE1 %d states; %d sessions, %d invocations of the real echsq consumed by TraceClient.tla, %d sessions rejected, %.0f s' % (NAME, e1['states'], nsess, nlines, nbad, time.time() - t0))
    return 1 if nbad else 0
