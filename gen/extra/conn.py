"""growth item: what a connection is taken for (ConnProto.tla): E1 over all cuts of a listing request and of calendar data into up
to three reads; E2: listing requests and calendar requests sent to the real sock_data_cb in one piece and cut at every position"""
import os, json, time, random, subprocess
import vlib, daemon

NAME = 'conn'

def cut(text, sizes):
    """the reads the harness hands over for AC/HC: sizes in turn, the last one again and again, never more than 4096"""
    out = []; off = 0; k = 0; sz = 4096
    while off < len(text):
        if k < len(sizes): sz = sizes[k] or 1; k += 1
        w = min(sz, len(text) - off, 4096); out.append(text[off:off + w]); off += w
    return out

def run(tier, seed):
    t0 = time.time()
    wd = vlib.workdir('X-' + NAME)
    B = vlib.build('plain')
    drv = daemon.build_driver(B)
    rnd = random.Random(seed)
    e1 = vlib.model_check('ConnProtoE1.tla', 'ConnProtoE1.cfg', wd, workers=4)
    if not e1['ok']: raise vlib.Broken('ConnProtoE1 failed:\n' + e1['out'][-1500:])
    cmds, plan = [], []
    def listing(p, path, sizes):
        line = 'GET /%s HTTP/1.1' % path; text = line + '\r\n\r\n'
        if sizes is None: cmds.append('H\t%d\t%s' % (p, line)); plan.append(('Http', [text]))
        else: cmds.append('HC\t%d\t%s\t%s' % (p, ','.join(map(str, sizes)), line)); plan.append(('Http', cut(text, sizes)))
    def ical(p, uid, sizes):
        text = daemon.request([{'kind': 'add', 'uid': uid, 'occ': [5000], 'maxsim': 0, 'peer': p}])
        if sizes is None: cmds.append('A\t%d\t%s' % (p, daemon.rrgen.esc(text))); plan.append(('Req', [text]))
        else: cmds.append('AC\t%d\t%s\t%s' % (p, ','.join(map(str, sizes)), daemon.rrgen.esc(text))); plan.append(('Req', cut(text, sizes)))
    ical(1000, 'c0', None)
    full = len('GET /queue HTTP/1.1\r\n\r\n')
    for path in ('queue', 'sched', 'u/1000/queue', 'nosuch'):
        listing(1000, path, None)
        n = len('GET /%s HTTP/1.1\r\n\r\n' % path)
        for i in (range(1, n) if tier == 'thorough' or path == 'queue' else rnd.sample(range(1, n), 8)):
            listing(1000, path, [i, n])                       # two reads, cut at i
            if rnd.random() < 0.5: listing(1000, path, None)  # a whole one in between leaves its bytes in the buffer of the slot
        for _ in range(30 if tier == 'thorough' else 8):
            listing(rnd.choice([1000, 1001]), path, [rnd.randint(1, 9) for _ in range(rnd.randint(1, 4))] + [n])
    for k in range(60 if tier == 'thorough' else 15):
        ical(rnd.choice([1000, 1001]), 'c%d' % k, rnd.choice([None, [1], [5, 200], [rnd.randint(1, 80), 4096]]))
        if rnd.random() < 0.4: listing(1000, 'queue', [rnd.randint(1, full - 1), full])
    # calendar data that begins like a listing request, and a listing request behind calendar data
    cmds.append('AC\t1000\t%s\t%s' % ('400', daemon.rrgen.esc('GET /not a calendar\nBEGIN:VCALENDAR\nEND:VCALENDAR\n'))); plan.append(('Req', ['GET /not a calendar\nBEGIN:VCALENDAR\nEND:VCALENDAR\n']))
    cmds.append('Q')
    sp = f'{wd}/spool'; os.makedirs(sp, exist_ok=True)
    p = subprocess.run([drv, sp], input='\n'.join(cmds) + '\n', capture_output=True, text=True, timeout=600)
    evs = []
    for l in p.stdout.split('\n'):
        if not l: continue
        try: e = json.loads(l)
        except Exception: continue
        if e.get('e') in ('Req', 'Http'): evs.append(e)
    recs = []
    for (kind, reads), e in zip(plan, evs):
        recs.append({'e': 'Conn', 'kind': kind, 'reads': [[ord(c) for c in r] for r in reads], 'answered': e.get('reply', '').startswith('HTTP/1.1 '), 'lingering': bool(e.get('lingering')), 'same_kind': e['e'] == kind})
    if p.returncode != 0 or len(evs) != len(plan):
        recs.append({'e': 'Conn', 'kind': 'none', 'reads': [], 'answered': False, 'lingering': False, 'died': p.returncode})
    trace = f'{wd}/conn.ndjson'
    with open(trace, 'w') as f:
        for r in recs: f.write(json.dumps(r) + '\n')
    v = vlib.validate('TraceConn.tla', 'TraceConn.cfg', vlib.split_lines(trace, vlib.NCPU, wd, 'conn', min_lines=20), wd, timeout=1200)
    for fn, k, g in v['bad'][:20]:
        r = json.loads(vlib.getline(fn, k)); r['reads_text'] = [''.join(map(chr, x)) for x in r['reads']]
        print('EXTRA-VIOLATION item=%s replay=%s' % (NAME, vlib.save_replay('X-' + NAME, f'conn{g}.json', r)))
    na = sum(1 for r in recs if r['answered'])
    print('extra %s: E1 %d states; %d connections (%d listing requests answered, %d taken for calendar data), %d bad, %.0f s' % (NAME, e1['states'], len(recs), na, len(recs) - na, v['nbad'], time.time() - t0))
    return 1 if v['nbad'] else 0
