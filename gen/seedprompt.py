#!/usr/bin/env python3
"""print the sub-agent prompt for a seeded-change request: property text + scratch worktree only"""
import json,sys
pid=sys.argv[1]; wt=sys.argv[2]; out=sys.argv[3]; hint=sys.argv[4] if len(sys.argv)>4 else ""
p=[json.loads(l) for l in open('/verif/properties.jsonl') if json.loads(l)['id']==pid][0]
print(f"""You are helping evaluate a verification effort for the open-source project hroptatyr/echse (a cron-like daemon that schedules tasks from RFC 5545 iCalendar files; C code, autotools).

You have your own scratch git worktree of the project at {wt} (already configured and built in-tree; `make -C {wt} -j16` rebuilds in ~15 s, `make -C {wt} check -j16` runs the 84-test suite in a few seconds). Work ONLY inside {wt} and {out}. Do not read or touch /repo or /verif.

Here is a semantic property the project is supposed to satisfy:

  [{p['id']}] {p['title']}
  Statement: {p['statement']}
  Quantified over: {p['quantifier']['text']}

Your job: produce ONE realistic source change to the project (the kind of slip a maintainer could plausibly make in a refactoring, optimisation or feature commit: 1-15 changed lines in src/) that BREAKS this property while
  (a) the project still compiles without new errors, and
  (b) the existing test suite (`make check`) still passes 84/84, and
  (c) the breakage needs something specific to manifest - a particular interleaving, a crash or fault at a particular point, a multi-step sequence of operations, an unusual input class, a boundary (e.g. crossing an internal cache refill), or two cooperating sites that each look fine alone - NOT something ordinary use would expose at once (so not "every rule is wrong").
{hint}
Read the relevant code first so that the change is subtle and targeted. Then demonstrate it: write a demonstration (a shell script and/or small C program using the built objects/binaries in the worktree; C programs may link {wt}/src/.libs/libechse.a and include headers from {wt}/src; for daemon-internal code you may #include the .c file in a harness or start the real binaries) that FAILS (non-zero exit, printing what went wrong) with your change applied and PASSES (exit 0) on the unchanged code. Verify both directions yourself (save `git diff > {out}/patch.diff`, revert with `git checkout -- src/`, re-apply with `git apply {out}/patch.diff`; NEVER use `git stash`, it is shared between worktrees; rebuild each time), and verify `make check` still passes with the change.

Deliverables, all written into {out}/ :
  - patch.diff   : `git -C {wt} diff` of your change (source files only, no generated/binary files)
  - demo.sh      : executable; usage `demo.sh <path-to-built-echse-tree>`; exit 0 = property holds on what it tries, non-zero = broken; include any helper .c files next to it and compile them inside demo.sh into a temp dir
  - meta.json    : {{"property": "{p['id']}", "summary": "...what was changed...", "needs": "...what is required for the breakage to manifest...", "ran": ["commands you ran and their outcome"]}}
Leave the worktree with your change applied at the end. Final answer: a 5-line summary (what you changed, what triggers it, demo result with/without, make check result).
""")
