#!/usr/bin/env python3
"""regenerate /verif/MANIFEST.json from the table below (single source of truth)"""
import json, os, subprocess
props = [json.loads(l) for l in open('/verif/properties.jsonl')]
MC = 'model_checking'
CHECKS = {
 'C08': dict(level=MC, tech='TLA+ contract model (Instant.tla) checked by TLC for its algebraic laws; trace validation of recorded library calls against it',
   text='E1: TLC checks the laws the property states (add/diff inverse, antisymmetry, elapsed time, fixup keeps the point in time, epoch round trip, ordering) on the TLA+ instant model for every pair of instants in a window with leap day and year end. E2: every recorded call of echs_instant_diff/add/fixup/to_epoch, epoch_to_echs_instant, the ordering predicates (and echsd instant_to_tstamp) on a day-exhaustive grid 1901-2099 x 14 anchors plus seeded second/ms pairs is evaluated by TLC against that model; any mismatch is a violation.',
   note='trusted: TLC, Cal.tla/Instant.tla (self-checked by the E1 laws), the printing-only C driver. Thorough tier enumerates every day of 1901-2099; the second/ms level is sampled.', ref='3/C08'),

 'C19': dict(level=MC, tech='TLA+ mechanism model of the three container representations model-checked against the abstract set; trace validation of recorded insert/iterate/has sequences',
   text='E1: TLC explores every insertion sequence (length <= 5, width 4, native capacity 2) of the mechanism model BitintRep (inline single value / bitset / sorted native array with degrade) and checks it refines the abstract set, incl. the iterator protocol. E2: recorded sequences on the six real containers (all singletons, ordered pairs, triples, seeded random up to 40 inserts) are judged by TLC: members = inserted values, iteration = each member exactly once and terminates, has() exact; the decoded representation words and iteration order are additionally compared with the mechanism model at full width (drift report).',
   note='trusted: TLC, the printing-only driver. Ranges as documented in the property (0..30, 0..62, +-31, +-63, +-383, +-447); larger types sampled beyond pairs.', ref='3/C19'),

 'C20': dict(level=MC, tech='TLA+ contract IsStableSortedPerm (Sort.tla) model-checked for uniqueness/non-vacuity; trace validation of recorded echs_event_sort/echs_instant_sort calls',
   text='E1: TLC shows for every input of length <= 4 over a 5-key table (all-day, whole-second, .000, .001 of one day, next day) that the contract accepts exactly the stable insertion-sort result and rejects every adjacent transposition, loss and duplication. E2: recorded sorts of the real WikiSort instantiations (all lengths 0..70/300, thresholds up to 4096, 6 order patterns x 5 key alphabets, seeded random) are judged by TLC: permutation, non-decreasing under the instant order (all-day first), ties keep input order.',
   note='trusted: TLC, Instant.tla ordering (bound to the code by C08), printing-only driver. Memory corruption by the sort shows up as a garbled/crash record which the spec rejects; lengths > 4096 not explored.', ref='3/C20'),

 'C18': dict(level=MC, tech='TLA+ grammar/printer model (DtText.tla) model-checked for Parse(Print(i)) = i; trace validation of recorded dt_strf/dt_strf_ical/dt_strp/idiff_strf/idiff_strp calls',
   text='E1: TLC checks on the model that both print forms parse back to the same instant for a field-boundary grid and that equivalent duration spellings denote one value. E2: every recorded print->parse round trip and every parse of an accepted spelling made by the real code is judged by TLC: the printed text is the grammar text of the instant, the parsed instant/duration is what the grammar says, round trips are identities (second resolution for the iCalendar form).',
   note='trusted: TLC, DtText.tla, printing-only driver. Sub-second durations, negative durations and spellings outside the stated grammar are skipped as outside the property (counted).', ref='3/C18'),

 'C15': dict(level=MC, tech='relational TLA+ contract (Scale.tla: round trip, successor, month length, weekday) model-checked for discrimination; exhaustive trace validation of every (scale, day) conversion of the real code',
   text='E1: TLC shows on a synthetic lunar calendar that the step relation accepts exactly the true successor date. E2: for each of the 10 scales every Gregorian day of 1901-2099 (thorough: all 72 684; quick: every 5th year plus all month boundaries) is converted by the real echs_instant_rescale and back, with echs_scale_ndim/echs_scale_wday recorded; TLC checks on consecutive lines: G(H(d)) = d, H(d+1) = Succ(H(d)) (which with day <= ndim makes ndim the distance between firsts), weekday equality against Cal.tla, month in 1..12, and that rejected days never lie inside the accepted span.',
   note='trusted: TLC, Cal.tla weekday, printing-only driver. No external Hijri reference is used (none exists offline): the data tables themselves are not audited, only their consistency.', ref='3/C15'),

 'C07': dict(level=MC, tech='TLA+ zone-table contract (TZ.tla: OffAt, LocalToUTC as the unique solution of u + OffAt(u) = l) model-checked for inverse/gap/overlap behaviour; trace validation of echs_instant_utc/loc/echs_tzob_offs against tables read by an independent TZif reader',
   text='E1: TLC checks on a synthetic zone with a gap and an overlap that LocalToUTC inverts UTCToLocal on unambiguous times, gap times have no and overlap times two solutions. E2: for every zone (quick: 50 incl. 30/45-minute, southern, Jan/Feb-transition zones; thorough: all ~430 installed TZif files) the real conversions are recorded on both sides (+-1 s/h/d) of every transition 1902-2037, on the 1st/15th of each month of 14 years and at seeded random instants, in both directions, and judged by TLC against the zone table that gen/tzif.py reads from the same file; ambiguous wall-clock times are skipped by the spec.',
   note='trusted: TLC, the RFC 8536 reader gen/tzif.py, printing-only driver. At most 50 zones per driver process (the code interns 64 zones per process by design). The event-level path (DTSTART;TZID through the rule expander) is covered through C01/C16 drivers, not here.', ref='3/C07'),

 'C03': dict(level=MC, tech='TLA+ mechanism model of the k-way lookahead merge (Streams.tla MuxNext) model-checked against the merge contract; every transition of the model graph replayed on the real echs_evstrm_vmux and validated',
   text='E1: TLC explores the I-level model of next_evmux (unprimed sentinel, first-non-nul scan, lt-replace / eq-pop-and-refill, refill on pop, release at exhaustion) for all choices of <= 3 constituents x <= 2 (thorough 3) occurrences x times 1..3 x uids {a,b} and all peek/pop interleavings, with the merge contract (sorted, complete, each occurrence 1..multiplicity times, ends only when all ended, peek pure) as invariant. E3: a path cover of the dumped state graph executes every model transition on the real merge built from parsed VEVENTs; E2: each recorded run is judged by TLC against the contract (violation) and against the deterministic model run (drift). Plus seeded random merges of up to 12 constituents.',
   note='trusted: TLC, dot-graph path cover (selects behaviours only), printing-only driver. Constituents are RDATE-list events; merges of rule streams are exercised through C01/C02 drivers.', ref='3/C03'),

 'C10': dict(level=MC, tech='TLA+ mechanism model of the parser line assembly (IcalLines.tla) model-checked for partition independence; metamorphic trace validation of the real pull parser over byte strings x chunkings in a sanitizer build, with model-vs-code binding on the model strings',
   text='E1: TLC explores the I-level model of esccpy/_ical_pull (chop at LF not followed by SP/HT, bounded stash, carried state for a pending escape / possible fold / over-long line, end-of-input pull) for every byte string of length <= 6 (thorough 7) over {a CR LF SP \\ n} and every chunking, invariant: handed-on logical lines equal the single-chunk feed. E2/E3: the real parser (address+bounds sanitizer build, exact-size heap chunks) is fed every string of length <= 4/5 over a 7-byte alphabet embedded as a SUMMARY value under ALL partitions, plus repository and generated calendars (folds at many columns, CRLF/LF, escapes, ~1 KiB lines, truncations, garbage) under 1-byte, every-single-split, boundary-pair, 4096 and random partitions; TLC judges each run equal to the single-chunk run of the same bytes (violation) and, for model strings, equal to the model prediction (drift). Crashes, sanitizer reports and timeouts are records the spec rejects.',
   note='trusted: TLC, the dumping driver (prints every task field and 20 occurrences). Both sides of the relation are runs of the real parser. Memory safety is observed through the sanitizer build only on explored inputs. One slack byte follows each chunk (callers always pass a larger read buffer).', ref='3/C10'),
}
NA_REASON = 'check not built yet (construction in progress, see DESIGN.md section 10)'
hooks = {'guard': 'HROPTATYR_ECHSE_VERIF', 'enable': 'no hooks in /repo: checks compile /repo/src as it is (harness/build.sh) and observe through existing seams', 'baseline_off_cmd': 'make -C /repo check', 'source_commits': [], 'add_only': True}
m = {'version': 1, 'setup_cmd': 'true', 'hooks': hooks,
     'engines': [
        {'name': 'E1-tlc-model-check', 'path': 'spec/*.tla + spec/*.cfg', 'serves_properties': sorted(CHECKS), 'kind_free_text': 'TLC exhaustive model checking of the TLA+ specifications (contract and mechanism level)'},
        {'name': 'E2-trace-validation', 'path': 'spec/Trace*.tla, harness/drv/*.c, gen/vlib.py', 'serves_properties': sorted(CHECKS), 'kind_free_text': 'ndjson traces recorded from the code built from /repo/src, judged by TLC against the TLA+ contract'},
        {'name': 'E3-behaviour-replay', 'path': 'gen/graph2scripts.py, harness/drv/*.c', 'serves_properties': [], 'kind_free_text': 'TLC state graph of the mechanism model replayed transition by transition into the real code'}],
     'checks': [], 'not_applicable': [], 'notes': 'see DESIGN.md; known_findings.json lists repaired (fixed:) and open findings'}
for p in props:
    pid = p['id']
    if pid in CHECKS:
        c = CHECKS[pid]
        m['checks'].append({'property_id': pid, 'quick_cmd': f'bin/check {pid} quick', 'thorough_cmd': f'bin/check {pid} thorough',
            'evidence_file': f'/verif/evidence/{pid}.json', 'replay_cmd_template': 'bin/replay ' + pid + ' {path}', 'engine': 'E1-tlc-model-check + E2-trace-validation',
            'level_claimed': {'category': c['level'], 'text': c['text'], 'design_ref': c['ref']}, 'level_note': c['note'], 'technique': c['tech']})
    else:
        m['not_applicable'].append({'property_id': pid, 'reason': NA_REASON})
json.dump(m, open('/verif/MANIFEST.json', 'w'), indent=1)
subprocess.run(['python3-vt', '-c', "import json,jsonschema; jsonschema.validate(json.load(open('/verif/MANIFEST.json')),json.load(open('/root/.vp/MANIFEST.schema.json'))); print('manifest valid')"], check=True)
