"""run the stream driver over a list of cases and merge its output into trace records (plumbing only)"""
import json, subprocess, os
import rrgen


def run_cases(drv, cases, wd, name, budget=10, maxpop=330, hz=(2098, 12, 31)):
    """cases: list of dicts with keys ics, and any extra fields (ds, rule, tag, ...) copied into the trace record.
    returns list of trace records (dict)"""
    work = f'{wd}/{name}.work.tsv'
    with open(work, 'w') as f:
        for i, c in enumerate(cases):
            f.write('%d\t%d\t%04d%02d%02d\t%s\t%s\n' % (i, c.get('maxpop', maxpop), *c.get('hz', hz), c.get('mode', 'n'), rrgen.esc(c['ics'])))
    lines = open(work).read().split('\n')
    out = {}
    start = 0
    while start < len(cases):
        p = subprocess.run([drv, str(budget)], input='\n'.join(lines[start:len(cases)]) + '\n', capture_output=True, text=True)
        got = 0
        for l in p.stdout.split('\n'):
            if not l.strip():
                continue
            try:
                r = json.loads(l)
            except Exception:
                break
            out[r['id']] = r
            got = r['id'] + 1
        if got >= len(cases):
            break
        # the driver died on case `got` (abort / uncatchable): record it and go on behind it
        died = max(got, start)
        out[died] = {'id': died, 'crash': p.returncode}
        start = died + 1
    recs = []
    for i, c in enumerate(cases):
        r = {'e': 'Unroll', 'via': 'lib'}
        r.update({k: v for k, v in c.items() if k not in ('ics',)})
        r['hz'] = list(c.get('hz', hz))
        r['text'] = c['ics']
        r.update(out.get(i, {'id': i, 'crash': -1}))
        recs.append(r)
    return recs
