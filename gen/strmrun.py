"""run the stream driver over a list of cases and merge its output into trace records (plumbing only)"""
import json, subprocess, os
import rrgen


def run_cases(drv, cases, wd, name, budget=10, maxpop=330, hz=(2098, 12, 31)):
    """cases: list of dicts with keys ics, and any extra fields (ds, rule, tag, ...) copied into the trace record.
    returns list of trace records (dict)"""
    work = f'{wd}/{name}.work.tsv'
    with open(work, 'w') as f:
        for i, c in enumerate(cases):
            f.write('%d\t%d\t%04d%02d%02d\t%s\t%s\n' % (i, c.get('maxpop', maxpop), *c.get('hz', hz), c.get('mode', 'n'), rrgen.esc(c['ics'])))
    lines = open(work).read().split('\n')
    out = {}
    start = 0
    rnd_i = 0
    while start < len(cases):
        # the driver's output goes to a size-limited file and the process has a wall-clock limit: code under test that
        # runs away (endless output, corrupted alarm) ends up as a crash/timeout record for the case it was working on
        rnd_i += 1
        of = f'{wd}/{name}.out.{rnd_i}'
        rest = len(cases) - start
        tmo = max(60, min(3600, rest * budget // 4 + 60))
        with open(of, 'w') as fo:
            p = subprocess.Popen(['bash', '-c', f'ulimit -f 2000000; exec {drv} {budget}'], stdin=subprocess.PIPE, stdout=fo, stderr=open(of + '.err', 'w'), text=True)
            try:
                p.communicate('\n'.join(lines[start:len(cases)]) + '\n', timeout=tmo)
                rc = p.returncode
            except subprocess.TimeoutExpired:
                p.kill(); p.communicate(); rc = -99
        got = 0
        with open(of) as fi:
            for l in fi:
                if not l.strip():
                    continue
                try:
                    r = json.loads(l)
                except Exception:
                    break
                out[r['id']] = r
                got = r['id'] + 1
        os.unlink(of)
        rep = ''
        try:
            for l in open(of + '.err', errors='replace'):
                if 'ERROR: AddressSanitizer' in l or 'runtime error' in l or 'SUMMARY:' in l:
                    rep = (rep + ' | ' + l.strip())[:600]
            os.unlink(of + '.err')
        except Exception:
            pass
        if got >= len(cases):
            break
        # the driver died on case `got` (abort / uncatchable / runaway): record it and go on behind it
        died = max(got, start)
        out[died] = {'id': died, 'crash': rc, 'report': rep}
        start = died + 1
    recs = []
    for i, c in enumerate(cases):
        r = {'e': 'Unroll', 'via': 'lib'}
        r.update({k: v for k, v in c.items() if k not in ('ics',)})
        r['hz'] = list(c.get('hz', hz))
        r['text'] = c['ics']
        r.update(out.get(i, {'id': i, 'crash': -1}))
        recs.append(r)
    return recs
