"""run the real echsx binary on generated execution requests (C13, C14); observation + re-encoding only"""
import os, re, subprocess, shutil, tempfile, json, time
import vlib

SHIM_SRC = f'{vlib.VERIF}/harness/shim/xshim.c'
MAILER = f'{vlib.VERIF}/harness/shim/mailrec.sh'


def build_shim(B):
    so = f'{B}/xshim.so'
    if not os.path.exists(so) or os.path.getmtime(so) < os.path.getmtime(SHIM_SRC):
        p = subprocess.run(['gcc', '-shared', '-fPIC', '-O1', '-o', so + '.tmp', SHIM_SRC, '-ldl'], capture_output=True, text=True)
        if p.returncode: raise vlib.Broken('cannot build xshim.so: ' + p.stderr)
        os.replace(so + '.tmp', so)
    return so


def job_script(d, bursts, exitcode=0, sig=0, pad=0, linger=0, pipeline=False, stopcont=False):
    """sh script writing numbered tokens: bursts = [(stream, count)...]; token line = 'O00001' + pad x 'x'"""
    L = ['#!/bin/sh', 'echo start >> %s/starts' % d, 'pwd > %s/pwd; umask > %s/umask; echo "$0" > %s/shell' % (d, d, d), 'cat > %s/stdin' % d,
         'P=$(printf "%%%ds" "" | tr " " x)' % pad if pad else 'P=', 'o=0; e=0']
    for bi, (s, n) in enumerate(bursts):
        # the job is stopped and continued (job control, a debugger) before its last burst: it goes on and ends as it would have
        if stopcont and bi == len(bursts) - 1: L.append('( sleep 0.3; kill -CONT $$ ) > /dev/null 2>&1 & kill -STOP $$')
        if s == 1: L.append('i=0; while [ $i -lt %d ]; do o=$((o+1)); printf "O%%05d%%s\\n" $o "$P"; i=$((i+1)); done' % n)
        else: L.append('i=0; while [ $i -lt %d ]; do e=$((e+1)); printf "E%%05d%%s\\n" $e "$P" >&2; i=$((i+1)); done' % n)
    if pipeline: L.append('yes | head -n 2 > /dev/null; seq 1 200000 | sed 2q > /dev/null')   # producers ended by their consumers going away, quietly
    if linger: L.append('sleep %d' % linger)          # the job outlives its time limit: the deadline ends it
    elif sig: L.append('kill -%d $$; sleep 5' % sig)
    L.append('exit %d' % exitcode)
    return '\n'.join(L) + '\n'


TOK = re.compile(r'^([OE])(\d{5})(x*)$')


def tokens(path):
    if path is None or not os.path.exists(path): return []
    out = []
    for l in open(path, 'rb').read().decode('latin1').split('\n'):
        if l == '': continue
        m = TOK.match(l)
        if m: out.append([1 if m.group(1) == 'O' else 2, int(m.group(2)), len(l) + 1])
        else: out.append([0, 0, len(l) + 1])   # anything that is not a token line
    return out


def mail_tokens(path):
    if not os.path.exists(path): return []
    b = open(path, 'rb').read().decode('latin1')
    body = b.split('\n\n', 1)[1] if '\n\n' in b else ''
    tmp = path + '.body'; open(tmp, 'w').write(body)
    return tokens(tmp)


def run_one(B, shim, wd, rq, bursts, exitcode=0, sig=0, pad=0, timeout=60, extra_vtodo=(), noalarm=False, linger=0, pipeline=False, stopcont=False):
    d = tempfile.mkdtemp(prefix='x', dir=wd)
    os.makedirs(d + '/cwd')
    open(d + '/job.sh', 'w').write(job_script(d, bursts, exitcode, sig, pad, linger, pipeline, stopcont))
    open(d + '/in.txt', 'w').write(rq.get('stdin', ''))
    if rq.get('mailrc'): open(d + '/mailrc', 'w').write('%d\n' % rq['mailrc'])
    sh = rq.get('shell', '/bin/sh') if not rq.get('nospawn') else '/nonexistent/sh'
    L = ['BEGIN:VCALENDAR', 'VERSION:2.0']
    if rq.get('warmup'):
        # another task of the same request goes first (one echsx takes them in turn): a short job whose output is mailed too
        L += ['BEGIN:VTODO', 'UID:warmup-%s' % os.path.basename(d), 'SUMMARY:echo w', 'X-ECHS-SETUID:%d' % os.getuid(), 'X-ECHS-SETGID:%d' % os.getgid(), 'X-ECHS-SHELL:/bin/sh', 'LOCATION:' + d + '/cwd',
              'X-ECHS-MAIL-RUN:0', 'X-ECHS-MAIL-OUT:1', 'X-ECHS-MAIL-ERR:1', 'ORGANIZER:echse', 'ATTENDEE:root', 'END:VTODO']
    L += ['BEGIN:VTODO', 'UID:job-%s' % os.path.basename(d), 'SUMMARY:. %s/job.sh' % d,
         'X-ECHS-SETUID:%d' % os.getuid(), 'X-ECHS-SETGID:%d' % os.getgid(), 'X-ECHS-SHELL:' + sh, 'LOCATION:' + d + '/cwd',
         ] + (['X-ECHS-UMASK:0%o' % rq['umask']] if not rq.get('noumask') else []) + ['X-ECHS-MAIL-RUN:0', 'X-ECHS-MAIL-OUT:%d' % int(rq['mo']), 'X-ECHS-MAIL-ERR:%d' % int(rq['me']),
         'X-ECHS-IFILE:' + d + '/in.txt']
    files = {'F1': d + '/f1.txt', 'F2': d + '/f2.txt'}
    if rq.get('relfiles'):
        # the output files are named relative to the working directory of the job (echsx itself is started elsewhere)
        files = {'F1': d + '/cwd/f1.txt', 'F2': d + '/cwd/f2.txt'}
    rel = (lambda f: os.path.basename(f)) if rq.get('relfiles') else (lambda f: f)
    if rq['so']: L.append('X-ECHS-OFILE:' + rel(files[rq['so']]))
    if rq['se']: L.append('X-ECHS-EFILE:' + rel(files[rq['se']]))
    L += ['ORGANIZER:echse', 'ATTENDEE:root'] + list(extra_vtodo) + ['END:VTODO', 'END:VCALENDAR', '']
    env = dict(os.environ, XSHIM_DIR=d, XSHIM_MAILER=MAILER, LD_PRELOAD=shim)
    if noalarm: env['XSHIM_NOALARM'] = '1'
    args = [f'{B}/echsx', '-v'] + (['-n'] if rq.get('norun') else [])
    t0 = time.time()
    try:
        p = subprocess.run(args, input='\n'.join(L), capture_output=True, text=True, timeout=timeout, env=env)
        jr = p.stdout; died = None if p.returncode == 0 else p.returncode
    except subprocess.TimeoutExpired:
        jr = ''; died = -99
    wall = time.time() - t0
    rd = lambda f: open(d + '/' + f).read().strip() if os.path.exists(d + '/' + f) else ''
    entries = [x for x in jr.split('BEGIN:VTODO\n')[1:]]
    jhead_ok = all(x.startswith('DTSTAMP:') for x in entries)          # every journal entry begins with its time stamp
    mine = [x for x in entries if ('UID:job-' in x)] or entries[-1:]
    jr1 = mine[-1] if mine else jr
    m = re.search(r'^X-EXIT-STATUS:(\d+)', jr1, re.M); ms = re.search(r'^X-SIGNAL:(\d+)', jr1, re.M)
    tmpl = [l.split()[0] for l in rd('mkstemp.log').split('\n') if l]
    # the mails of the job (not the warm-up task's, whose body is the single line w)
    def is_warm(f):
        b = open(f, 'rb').read().decode('latin1'); return (b.split('\n\n', 1)[1] if '\n\n' in b else '').strip() == 'w'
    mails = sorted(d + '/' + f for f in os.listdir(d) if re.match(r'mail\.\d+$', f))
    nwarm = len([f for f in mails if is_warm(f)]); mails = [f for f in mails if not is_warm(f)]
    alarms = [int(x) for x in rd('alarm.log').split('\n') if x]
    obs = {'starts': len([l for l in rd('starts').split('\n') if l]), 'pwd': rd('pwd'), 'umask': int(rd('umask') or '0', 8), 'stdin': rd('stdin'), 'shell': rd('shell'),
           'ofile': tokens(files[rq['so']]) if rq['so'] else [], 'efile': tokens(files[rq['se']]) if rq['se'] and rq['se'] != rq['so'] else [],
           'nmail': len(mails), 'mail': mail_tokens(mails[0]) if mails else [],
           'jexit': int(m.group(1)) if m else -1, 'jsig': int(ms.group(1)) if ms else 0, 'cancelled': 'STATUS:CANCELLED' in jr1, 'jhead_ok': jhead_ok, 'jentries': len(entries),
           'tmpleft': [t for t in tmpl if os.path.exists(t)], 'alarms': alarms, 'wall': round(wall, 2)}
    rq2 = dict(rq, mo=bool(rq['mo']), me=bool(rq['me']), wd=d + '/cwd', stdin=rq.get('stdin', '').strip(), shell=sh, norun=bool(rq.get('norun')), nospawn=bool(rq.get('nospawn')))
    out = [[1, i + 1, 7 + pad] for i in range(sum(n for s, n in bursts if s == 1))]
    err = [[2, i + 1, 7 + pad] for i in range(sum(n for s, n in bursts if s == 2))]
    obs['warm_ok'] = (nwarm == 1 and len(entries) == 2) if rq.get('warmup') else True
    rec = {'e': 'Exec', 'rq': rq2, 'job': {'out': out, 'err': err, 'exit': exitcode, 'sig': sig}, 'obs': obs}
    if died is not None: rec['died'] = died
    for t in obs['tmpleft']:
        try: os.unlink(t)
        except OSError: pass
    shutil.rmtree(d, ignore_errors=True)
    return rec


def run_request(B, shim, wd, tasks, timeout=90):
    """one execution request with several VTODOs, run by ONE real echsx process (its main loop takes them in turn).
    tasks: [{'L': limit s or 0, 'W': seconds the job sleeps, 'prep': bool (False: input file missing), 'spawn': bool (False: shell missing)}]
    returns per task: started?, marker (job ran to its end)?, journal signal/exit, and echsx's own exit status"""
    d = tempfile.mkdtemp(prefix='q', dir=wd)
    L = ['BEGIN:VCALENDAR', 'VERSION:2.0']
    for k, t in enumerate(tasks):
        L += ['BEGIN:VTODO', 'UID:t%d' % k, 'SUMMARY:date +%%s.%%N > %s/start%d; (sleep %d\\; date +%%s.%%N > %s/end%d) & wait' % (d, k, t['W'], d, k),      # the work is done by a child of the shell: a limit must reach it too
              'X-ECHS-SETUID:%d' % os.getuid(), 'X-ECHS-SETGID:%d' % os.getgid(),
              'X-ECHS-SHELL:' + ('/bin/sh' if t.get('spawn', True) else '/nonexistent/sh'), 'LOCATION:' + d]
        if not t.get('prep', True): L.append('X-ECHS-IFILE:%s/missing-input' % d)
        if t.get('due'): L.append('DUE:' + time.strftime('%Y%m%dT%H%M%SZ', time.gmtime(int(time.time()) + t['due'])))      # an absolute time, 'due' seconds from now
        elif t['L'] > 0: L.append('DURATION:PT%dS' % t['L'])
        L += ['X-ECHS-UMASK:022', 'X-ECHS-MAIL-RUN:0', 'X-ECHS-MAIL-OUT:0', 'X-ECHS-MAIL-ERR:0', 'ORGANIZER:echse', 'END:VTODO']
    L += ['END:VCALENDAR', '']
    env = dict(os.environ, XSHIM_DIR=d, XSHIM_MAILER=MAILER, LD_PRELOAD=shim)
    t0 = time.time()
    try:
        p = subprocess.run([f'{B}/echsx', '-v'], input='\n'.join(L), capture_output=True, text=True, timeout=timeout, env=env, start_new_session=True)
        rc, jr = p.returncode, p.stdout
    except subprocess.TimeoutExpired:
        rc, jr = -99, ''
    # jobs orphaned by a dead executor may still be sleeping: give them the time to leave their marker
    time.sleep(max([t['W'] for t in tasks]) + 0.5 if rc not in (0,) else 0)
    res = []
    js = {}
    for blk in re.findall(r'BEGIN:(?:VTODO|VJOURNAL)\n(.*?)END:(?:VTODO|VJOURNAL)\n', jr, re.S):
        m = re.search(r'^UID:(t\d+)$', blk, re.M)
        if m: js[m.group(1)] = blk
    for k, t in enumerate(tasks):
        def rd(fn):
            try: return float(open(fn).read().strip())
            except Exception: return None
        s, e = rd(f'{d}/start{k}'), rd(f'{d}/end{k}')
        j = js.get('t%d' % k)
        ms = re.search(r'^X-SIGNAL:(\d+)', j or '', re.M); mx = re.search(r'^X-EXIT-STATUS:(\d+)', j or '', re.M)
        mr = re.search(r'^X-REAL-TIME:(\d+)\.(\d{3})', j or '', re.M)
        res.append({'jrealms': int(mr.group(1)) * 1000 + int(mr.group(2)) if mr else -1, 'started': s is not None, 'marker': e is not None, 'runms': int((e - s) * 1000) if (s is not None and e is not None) else -1,
                    'journal': j is not None, 'jsig': int(ms.group(1)) if ms else 0, 'jexit': int(mx.group(1)) if mx else -1})
    shutil.rmtree(d, ignore_errors=True)
    return {'rc': rc, 'wallms': int((time.time() - t0) * 1000), 'tasks': res, 'journal_text': jr[-1500:] if rc != 0 else ''}
