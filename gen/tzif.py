"""independent TZif reader (RFC 8536), 64-bit block when present, clipped to the 32-bit range 1902..2037"""
import struct, os
LO, HI = -2**31 + 86400, 2**31 - 1 - 86400

def read(fn):
    b = open(fn, 'rb').read()
    if b[:4] != b'TZif':
        return None
    def block(b, tsz):
        isut, isstd, leap, timecnt, typecnt, charcnt = struct.unpack('>6l', b[20:44])
        o = 44
        tr = struct.unpack('>%d%s' % (timecnt, 'q' if tsz == 8 else 'l'), b[o:o + tsz * timecnt]); o += tsz * timecnt
        idx = struct.unpack('>%dB' % timecnt, b[o:o + timecnt]); o += timecnt
        tt = [struct.unpack('>lBB', b[o + 6 * i:o + 6 * i + 6]) for i in range(typecnt)]; o += 6 * typecnt
        o += charcnt + leap * (tsz + 4) + isstd + isut
        return tr, idx, tt, o
    tr, idx, tt, end = block(b, 4)
    if b[4:5] >= b'2' and b[end:end + 4] == b'TZif':
        tr, idx, tt, _ = block(b[end:], 8)
    if not tt:
        return None
    off0 = tt[0][0]
    trans, offs = [], []
    for t, i in zip(tr, idx):
        if t < LO:
            off0 = tt[i][0]
            continue
        if t > HI:
            break
        trans.append(t); offs.append(tt[i][0])
    return {'off0': off0, 'trans': trans, 'offs': offs}

def zones(root='/usr/share/zoneinfo'):
    out = []
    for d, ds, fs in os.walk(root):
        ds[:] = [x for x in ds if x not in ('posix', 'right')]
        for f in sorted(fs):
            p = os.path.join(d, f)
            try:
                if open(p, 'rb').read(4) == b'TZif':
                    out.append(os.path.relpath(p, root))
            except OSError:
                pass
    return sorted(out)
