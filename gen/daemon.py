"""daemon harness plumbing: build drv_echsd, run scripts (one fresh process + spool dir per run), group events into run records.
Script generation and result grouping only; the contracts are judged by TLC (spec/TraceDaemon.tla)."""
import json, os, re, subprocess, shutil, tempfile, random, concurrent.futures as cf
import vlib, rrgen

WRAP = '-Wl,--wrap=posix_spawn,--wrap=getpwuid,--wrap=getpwnam,--wrap=openat,--wrap=write,--wrap=close,--wrap=renameat,--wrap=unlinkat,--wrap=pipe,--wrap=waitpid,--wrap=realloc'


def build_driver(B):
    return vlib.driver(B, 'drv_echsd', extra_flags=f'-I{vlib.VERIF}/harness/evstub -I{B}/gen ' + WRAP, libs=f'{B}/obj/logger.o -lltdl -lm -ldl')


def tstamp_trace(B, wd, tier, seed):
    drv = build_driver(B)
    fn = f'{wd}/tstamp.ndjson'
    with open(fn, 'w') as f:
        subprocess.run([drv, wd, 'tstamp', str(seed), tier], stdout=f, check=True, timeout=300)
    return fn


def secs(t):
    """seconds after 2030-01-01T00:00:00Z -> DATE-TIME text"""
    import datetime as _D
    return (_D.datetime(2030, 1, 1) + _D.timedelta(seconds=t)).strftime('%Y%m%dT%H%M%SZ')       # t < 0: December 2029, the past of every run


def days(t):
    """whole days after 2030-01-01 -> DATE text"""
    return '203001%02d' % (1 + t // 86400)


def task_ics(uid, occ, maxsim=0, owner=None, dur=None, method='PUBLISH', extra=(), allday=False, past_rule=False):
    """one VEVENT whose occurrences are exactly occ (seconds after T0), as an RDATE list; allday: occ are whole days, written as DATEs"""
    if allday:
        L = ['BEGIN:VEVENT', 'UID:' + uid, 'SUMMARY:echo ' + uid, 'DTSTART;VALUE=DATE:' + days(min(occ) if occ else 0)]
        if occ: L.append('RDATE;VALUE=DATE:' + ','.join(days(t) for t in occ))
    elif past_rule and len(occ) == 1 and 0 <= occ[0] < 86400:
        # the same single occurrence as the last one of a daily rule that started in 1997
        if past_rule == 'M':
            # ... or of a rule that has come round every minute since 2018 (more than six million occurrences to be passed over)
            L = ['BEGIN:VEVENT', 'UID:' + uid, 'SUMMARY:echo ' + uid, 'DTSTART:20180101T0000%02dZ' % (occ[0] % 60), 'RRULE:FREQ=MINUTELY;UNTIL=' + secs(occ[0])]
        else:
            L = ['BEGIN:VEVENT', 'UID:' + uid, 'SUMMARY:echo ' + uid, 'DTSTART:19970101T' + secs(occ[0])[9:], 'RRULE:FREQ=DAILY;UNTIL=' + secs(occ[0])]
    else:
        L = ['BEGIN:VEVENT', 'UID:' + uid, 'SUMMARY:echo ' + uid, 'DTSTART:' + secs(min(occ) if occ else 0)]
        if occ: L.append('RDATE:' + ','.join(secs(t) for t in occ))
    if dur is not None: L.append('DURATION:' + dur)
    if maxsim: L.append('X-ECHS-MAX-SIMUL:%d' % maxsim)
    if owner is not None: L.append('X-ECHS-OWNER:%s' % owner)
    L += list(extra)
    L.append('END:VEVENT')
    return L


def request(items, method='PUBLISH', cal_maxsim=0, cal_extra=()):
    """items: list of dicts kind=add|cancel ...; cal_maxsim: a limit stated for the whole calendar (an event's own statement goes first)"""
    L = ['BEGIN:VCALENDAR', 'VERSION:2.0'] + (['METHOD:' + method] if method else []) + (['X-ECHS-MAX-SIMUL:%d' % cal_maxsim] if cal_maxsim else []) + list(cal_extra)      # no METHOD: add / replace
    for it in items:
        if it['kind'] == 'add':
            L += task_ics(it['uid'], it['occ'], it.get('text_maxsim', it.get('maxsim', 0)), it.get('owner_uid', it.get('owner_name')), it.get('dur'), extra=it.get('extra', ()), allday=it.get('allday', False), past_rule=it.get('past_rule', False))
        elif it['uid'] == '':
            L += ['BEGIN:VEVENT', 'DTSTART:' + secs(0), 'END:VEVENT']          # a cancel that names no UID at all
        else:
            L += ['BEGIN:VEVENT', 'UID:' + it['uid'], 'DTSTART:' + secs(0), 'END:VEVENT']
    L += ['END:VCALENDAR', '']
    return '\n'.join(L)


REPLY_RE = re.compile(r'BEGIN:VEVENT\nUID:([^\n]*)\n(?:[^\n]*\n)*?REQUEST-STATUS:(\d)\.(\d)')


def run_script(drv, cmds, metas, spool_parent, keep_spool=False, mode='root', pre=None):
    """cmds: list of script lines; metas: {index of an 'A' command: [items]}.  Returns the run record."""
    spool = tempfile.mkdtemp(prefix='sp', dir=spool_parent)
    if pre:
        pre(spool)
    try:
        p = subprocess.run([drv, spool] + ([mode] if mode != 'root' else []), input='\n'.join(cmds) + '\n', capture_output=True, text=True, timeout=120)
        rc = p.returncode; out = p.stdout
    except subprocess.TimeoutExpired as e:
        rc = -99; out = (e.stdout or b'').decode() if isinstance(e.stdout, bytes) else (e.stdout or '')
    ev = []
    for l in out.split('\n'):
        if not l: continue
        try: ev.append(json.loads(l))
        except Exception: ev.append({'e': 'Garbled'})
    # attach request metadata in order
    ai = sorted(i for i in metas if isinstance(metas[i], list))
    hi = [metas[i] for i in sorted(metas) if isinstance(metas[i], dict)]
    hk = 0
    k = 0
    cur = 0
    for e in ev:
        if e['e'] in ('Tick', 'State') and 'now' in e: cur = int(e['now'])
        e.setdefault('now', cur)
        if e['e'] == 'Req' and k < len(ai):
            e['items'] = metas[ai[k]]; k += 1
            e['replies'] = [[m.group(1), int(m.group(2))] for m in REPLY_RE.finditer(e.get('reply', ''))]
            e['nfooter'] = e.get('reply', '').count('END:VCALENDAR')
            e.pop('reply', None)
        elif e['e'] == 'Refused':
            # the connection table was full: that request was never read
            if e.get('kind') == 'Req': k += 1
            else: hk += 1
        elif e['e'] == 'Http':
            if hk < len(hi): e.update(hi[hk]); hk += 1
            body = e.get('reply', '')
            e['status'] = int(body[9:12]) if body.startswith('HTTP/1.1 ') else 0
            b = body.split('\r\n\r\n', 1)[1] if '\r\n\r\n' in body else ''
            e['uids'] = sorted(set(re.findall(r'^UID:([^\n\r]*)', b, re.M))) if 'BEGIN:V' in b else sorted(l.split('\t')[0] for l in b.split('\n') if '\t' in l)
            e['starts'] = sorted(set((u, d) for u, d in re.findall(r'^UID:([^\n\r]*)\r?\n(?:(?!END:VEVENT)[^\n]*\n)*?DTSTART:([^\n\r]*)', b, re.M))) if 'BEGIN:V' in b else []
            e['complete'] = (b == '' or not ('BEGIN:VCALENDAR' in b) or b.rstrip().endswith('END:VCALENDAR'))
            e.pop('reply', None)
        elif e['e'] == 'Spawn':
            m = re.search(r'^DURATION:([^\n]*)', e.get('vtodo', ''), re.M)
            e['durline'] = m.group(1) if m else ''
            # what the executor is told to run, and as whom
            vt = e.get('vtodo', '')
            # the request is iCalendar text: values are TEXT (escaped), and of a property given twice the executor takes the last
            unesc_ = lambda x: re.sub(r'\\(.)', lambda m: '\n' if m.group(1) in 'nN' else m.group(1), x)
            mu = re.search(r'^UID:([^\n]*)', vt, re.M); ms = re.search(r'^SUMMARY:([^\n]*)', vt, re.M); mi = re.findall(r'^X-ECHS-SETUID:([^\n]*)$', vt, re.M)
            e['vuid'] = unesc_(mu.group(1)) if mu else ''; e['vsummary'] = unesc_(ms.group(1)) if ms else ''; e['vsetuid'] = (int(mi[-1]) if mi[-1].isdigit() else -2) if mi else -1
            e['vnsetuid'] = len(mi)
            e.pop('vtodo', None); e.pop('argv', None)
        for kk in ('now',):
            if kk in e: e[kk] = int(e[kk])
        if e['e'] == 'State':
            for t in e['tasks']: t['at'] = int(min(t['at'], 10 ** 9))
    if rc != 0:
        ev.append({'e': 'Died', 'rc': rc})
    files = {}
    for fn in sorted(os.listdir(spool)):
        if fn.startswith('echsq_') or fn.startswith('.echsq_'):
            files[fn] = open(os.path.join(spool, fn), 'rb').read().decode('latin1')
    if not keep_spool:
        shutil.rmtree(spool, ignore_errors=True)
    rec = {'e': 'Run', 'script': cmds, 'ev': ev}
    return rec, files, spool


def run_two_lives(drv, cmds, metas, spool_parent):
    """the leading add requests of a script go to a first daemon process, which saves its queues and shuts down; the rest of the
    script is run by a second process started on the same spool (it loads the queue files).  One run record, the events of both lives
    one after the other (the clock of the first life does not move)."""
    split = 0
    while split < len(cmds) and cmds[split][:2] in ('A\t', 'AC'): split += 1
    m1 = {i: v for i, v in metas.items() if i < split}; m2 = {i - split + 1: v for i, v in metas.items() if i >= split}
    rec1, files, spool1 = run_script(drv, cmds[:split] + ['K', 'S'], m1, spool_parent, keep_spool=True)
    def pre(sp):
        for fn in os.listdir(spool1):
            if fn.startswith('echsq_'): shutil.copy(os.path.join(spool1, fn), os.path.join(sp, fn))
    rec2, _, _ = run_script(drv, ['L'] + cmds[split:], m2, spool_parent, pre=pre)          # L: the daemon reads its spool, as at every start
    shutil.rmtree(spool1, ignore_errors=True)
    return {'e': 'Run', 'script': cmds[:split] + ['K', 'S', '# second life', 'L'] + cmds[split:], 'ev': rec1['ev'] + rec2['ev'], 'lives': 2}


def many_children_script(rnd, n=300):
    """n tasks of one occurrence each, all due within a few seconds, none of the jobs ends before all are started: more children
    under supervision at a time than one pool of child watchers holds"""
    cmds, metas = [], {}
    for a0 in range(0, n, 25):
        items = [{'kind': 'add', 'uid': 'kid%d' % i, 'occ': [1 + i % 3], 'maxsim': 0, 'peer': 1000} for i in range(a0, min(n, a0 + 25))]
        metas[len(cmds)] = items; cmds.append('A\t1000\t%s' % rrgen.esc(request(items)))
    cmds += ['T\t5', 'R', 'DA', 'T\t1', 'R', 'DA']
    for _ in range(n // 8 + 4): cmds += ['XI\t0'] * 8 + ['DA']
    cmds += ['T\t30', 'R', 'DA', 'Q']
    return cmds, metas


def limit_mix_script(rnd, peers=(1000,)):
    """tasks with a limit and tasks without one, all with several occurrences a second or two apart, jobs that take long: the
    unlimited ones overlap themselves, the limited ones hit their limit (for run_two_lives: the adds come first)"""
    cmds, metas = [], {}
    uids = ['m%d' % i for i in range(rnd.choice([2, 3, 4]))]
    lim = rnd.sample(uids, rnd.randint(1, len(uids) - 1))
    for u in rnd.sample(uids, len(uids)):
        t0 = rnd.randint(1, 4)
        it = {'kind': 'add', 'uid': u, 'occ': sorted(set(t0 + rnd.randint(0, 6) for _ in range(rnd.randint(2, 5)))), 'maxsim': rnd.choice([1, 1, 2, 3]) if u in lim else 0, 'peer': rnd.choice(peers)}
        metas[len(cmds)] = [it]; cmds.append(areq(rnd, it['peer'], request([it])))
    for _ in range(14):
        cmds += ['T\t1', 'R']
        if rnd.random() < 0.5: cmds.append('D\t%d' % rnd.randint(0, 5))
        if rnd.random() < 0.15: cmds += ['XI\t%d' % rnd.randint(0, 5), 'DA']
    for _ in range(3):
        cmds += ['T\t20', 'R', 'DA'] + ['XI\t0', 'DA'] * 8
    cmds.append('Q')
    return cmds, metas


def run_many(drv, scripts, wd, par=vlib.NCPU):
    """scripts: list of (cmds, metas).  Returns run records in order."""
    sp = f'{wd}/spool'
    os.makedirs(sp, exist_ok=True)
    def one(s):
        return run_script(drv, s[0], s[1], sp)[0]
    with cf.ThreadPoolExecutor(max_workers=par) as ex:
        return list(ex.map(one, scripts))


# ------------------------------------------------------------------ script generators
def areq(rnd, peer, text):
    """an 'A' command; in about a third of the cases the request arrives in pieces ('AC'), like a request that needs several
    recv() calls (anything above the connection buffer of 4 KiB always does)"""
    if rnd.random() < 0.3: text = text.replace('\n', '\r\n')        # line ends as RFC 5545 prescribes them (a piece may end between CR and LF)
    if rnd.random() < 0.65:
        return 'A\t%d\t%s' % (peer, rrgen.esc(text))
    sizes = rnd.choice([[1], [2], [7], [16, 3], [64], [100], [4096], [rnd.randint(1, 300) for _ in range(rnd.randint(1, 6))], [max(1, len(text) // 2)], [max(1, len(text) - 1)]])
    return 'AC\t%d\t%s\t%s' % (peer, ','.join(map(str, sizes)), rrgen.esc(text))


def random_script(rnd, ntasks=3, peers=(1000,), horizon=14, maxsims=(0, 0, 1, 2), steps=40, cancel=True, big=False, jumps=False, calmax=False):
    uids = ['t%d' % (i + 1) for i in range(ntasks)]
    cmds, metas = [], {}
    def add(uid):
        n = rnd.choice([1, 1, 1, 2, 3, 4, 6])
        pool = list(range(0, horizon + 1)) if not big else list(range(0, horizon * 3))
        occ = sorted(rnd.choice(pool) for _ in range(n))
        if rnd.random() < 0.7: occ = sorted(set(occ))
        it = {'kind': 'add', 'uid': uid, 'occ': occ, 'maxsim': rnd.choice(maxsims), 'peer': rnd.choice(peers)}
        if len(occ) == 1 and rnd.random() < 0.35: it['past_rule'] = rnd.choice([True, True, 'M'])     # written as a rule that has been going since 1997 and ends with this occurrence
        if rnd.random() < 0.1:
            # file names (and a mail address) with an escaped line break in them, the rest of the value looking like a line of the request
            # the daemon writes for the executor: they stay values
            it['extra'] = [rnd.choice(['X-ECHS-IFILE:/tmp/in\\nX-ECHS-SETUID:0\\nX-ECHS-SETGID:0', 'X-ECHS-OFILE:/tmp/out\\nX-ECHS-SETUID:0', 'X-ECHS-EFILE:e\\nX-ECHS-SETUID:1001', 'ORGANIZER:me\\nX-ECHS-SETUID:0', 'ATTENDEE:you\\nX-ECHS-SETUID:0\\nEND:VTODO'])]
        cal = 0
        if calmax and rnd.random() < 0.3:
            # the request states a limit for the whole calendar; the event states its own (which then counts), or none
            cal = rnd.choice([1, 2, 3]); it['text_maxsim'] = it['maxsim']; it['maxsim'] = it['maxsim'] or cal
        # other things stated for the whole calendar (a umask, a shell) say nothing about the limit
        cx = [rnd.choice(['X-ECHS-UMASK:002', 'X-ECHS-UMASK:022', 'X-ECHS-UMASK:0100', 'X-ECHS-UMASK:077', 'X-ECHS-SHELL:/bin/sh'])] if calmax and rnd.random() < 0.3 else []
        metas[len(cmds)] = [it]
        cmds.append(areq(rnd, it['peer'], request([it], cal_maxsim=cal, cal_extra=cx)))
    for u in uids:
        if rnd.random() < 0.8: add(u)
    for _ in range(steps):
        x = rnd.random()
        if x < 0.22:
            # jumps: now and then the clock does not advance but is found further on (set forward, or the machine slept)
            cmds.append('%s\t%d' % ('TJ' if jumps and rnd.random() < 0.35 else 'T', rnd.choice([1, 1, 1, 2, 3, 5] if not big else [1, 2, 5, 10]))); cmds.append('R') if rnd.random() < 0.8 else None
        elif x < 0.30: cmds.append('R')
        elif x < 0.62: cmds.append('D\t%d' % rnd.randint(0, 5))
        elif x < 0.70: cmds.append('DA')
        elif x < 0.855: cmds.append('XI\t%d' % rnd.randint(0, 5))
        elif x < 0.86: cmds.append('FS\t%d' % rnd.choice([1, 1, 2]))                                    # one of the next starts fails (EAGAIN)
        elif x < 0.88: cmds.append('%s\t%d' % (rnd.choice(['XS', 'XC', 'XC']), rnd.randint(0, 5)))       # a running job is stopped / continued
        elif x < 0.95: add(rnd.choice(uids))
        elif cancel:
            it = {'kind': 'cancel', 'uid': rnd.choice(uids), 'peer': rnd.choice(peers)}
            metas[len(cmds)] = [it]
            cmds.append(areq(rnd, it['peer'], request([it], 'CANCEL')))
    # drain: let everything still due happen, all children exit
    for _ in range(3):
        cmds += ['T\t%d' % (horizon * 3 + 5), 'R', 'DA'] + ['XI\t0', 'DA'] * 8
    cmds.append('Q')
    return cmds, metas


def chk_history_all(rnd, nusers=17):
    """two waves of changes by 17 users, each followed by a checkpoint: both checkpoints take the all-users path; in the second
    wave some users cancel the only task they have"""
    cmds, metas = [], {}
    FAR = 5000
    users = [2000 + i for i in range(nusers)]
    def put(items, p, method='PUBLISH'):
        metas[len(cmds)] = items; cmds.append(areq(rnd, p, request(items, method)))
    for u in users:
        put([{'kind': 'add', 'uid': 'own%d' % u, 'occ': [FAR + rnd.randint(0, 50)], 'maxsim': 0, 'peer': u}], u)
    cmds.append('K')
    w2 = list(users); rnd.shuffle(w2)
    for u in w2:
        if rnd.random() < 0.25: put([{'kind': 'cancel', 'uid': 'own%d' % u, 'peer': u}], u, 'CANCEL')
        else: put([{'kind': 'add', 'uid': 'more%d' % u, 'occ': [FAR + rnd.randint(0, 50)], 'maxsim': 0, 'peer': u}], u)
    cmds.append('K')
    for _ in range(rnd.randint(0, 2)):
        u = rnd.choice(users); put([{'kind': 'add', 'uid': 'late%d' % u, 'occ': [FAR + 7], 'maxsim': 0, 'peer': u}], u)
    cmds.append('S')
    return cmds, metas


def allday_script(rnd, ntasks=3, peers=(1000,)):
    """tasks whose occurrences are plain dates (DTSTART;VALUE=DATE): due at 00:00:00 UTC of their date; the clock moves in
    hours and days, across and exactly onto the midnights"""
    cmds, metas = [], {}
    D = 86400
    for i in range(ntasks):
        allday = rnd.random() < 0.75
        if allday: occ = sorted(set(D * rnd.randint(0, 4) for _ in range(rnd.randint(1, 3))))
        else: occ = sorted(set(rnd.choice([5, 3600, D - 1, D, D + 1, 2 * D + 7, 3 * D]) for _ in range(rnd.randint(1, 3))))
        it = {'kind': 'add', 'uid': 'd%d' % (i + 1), 'occ': occ, 'maxsim': 0, 'peer': rnd.choice(peers), 'allday': allday}
        metas[len(cmds)] = [it]; cmds.append(areq(rnd, it['peer'], request([it])))
    for _ in range(rnd.randint(6, 14)):
        cmds.append('T\t%d' % rnd.choice([1, 3600, 43200, D - 5, D - 1, D, D + 1, 5])); cmds.append('R')
        if rnd.random() < 0.8: cmds.append('DA')
        if rnd.random() < 0.6: cmds += ['XI\t0', 'DA']
    for _ in range(3):
        cmds += ['T\t%d' % (6 * D), 'R', 'DA'] + ['XI\t0', 'DA'] * 6
    cmds.append('Q')
    return cmds, metas


def colliding_uids(drv, wd, n=150000):
    """groups of UID strings whose table keys share many low bits (found with the real hash); the keys themselves are returned too
    (uid -> key): two strings with the same 32-bit key are the extreme case"""
    out = subprocess.run([drv, wd, 'uids', str(n)], capture_output=True, text=True, timeout=120).stdout
    by = {}
    res = []
    hx = {}
    for l in out.split('\n'):
        if not l: continue
        u, h = l.split(); h = int(h); hx[u] = h
        for bits in (32, 22, 20, 16, 12, 8, 4):
            by.setdefault((bits, h & ((1 << bits) - 1)), []).append(u)
    for bits in (32, 22, 20, 16, 12, 8, 4):     # 20 or 22 shared bits: the table of tasks grows to 2^21 or 2^23 slots to tell the two apart
        gs = [v for (b, _), v in by.items() if b == bits and len(v) >= 2]
        gs.sort(key=len, reverse=True)
        res += [(bits, g[:4]) for g in gs[:6 if bits < 32 else 2]]
    used = set(u for _, g in res for u in g)
    return res, {u: h for u, h in hx.items() if u in used}


def blocked_uids(drv, wd, rnd, n=150000, k=6):
    """(target, blockers): UID strings chosen with the real hash so that the nine places the UID table of the process probes first
    for the target (bits 0..7, 3..10, ... of its key) are all taken by the blockers' first places: the target ends up in the
    table's overflow area.  Input selection only."""
    out = subprocess.run([drv, wd, 'uids', str(n)], capture_output=True, text=True, timeout=120).stdout
    cand = [(l.split()[0], int(l.split()[1])) for l in out.split('\n') if l]
    bylow = {}
    for u, h in cand: bylow.setdefault(h & 0xff, []).append(u)
    res = []
    for _ in range(k):
        t, h = rnd.choice(cand)
        blk = []
        for j in range(9):
            p = (h >> (3 * j)) & 0xff
            c = [u for u in bylow.get(p, []) if u != t and u not in blk]
            if c: blk.append(rnd.choice(c))
        res.append((t, blk))
    return res


def overflow_script(rnd, target, blockers):
    """another user's UIDs fill the places the table tries first for this user's UID; the UID must behave like any other"""
    cmds, metas = [], {}
    FAR = 5000
    a, b = rnd.sample([1000, 1001, 1002], 2)
    def req(p, items, method='PUBLISH'):
        metas[len(cmds)] = items; cmds.append(areq(rnd, p, request(items, method)))
    def add(uid, p):
        it = {'kind': 'add', 'uid': uid, 'occ': [FAR + rnd.randint(0, 50)], 'maxsim': 0, 'peer': p}; it['start'] = secs(min(it['occ'])); return it
    blk = list(blockers); rnd.shuffle(blk)
    for i in range(0, len(blk), 3): req(b, [add(u, b) for u in blk[i:i + 3]])
    req(a, [add(target, a)])
    metas[len(cmds)] = {'what': 'queue'}; cmds.append('H\t%d\tGET /queue HTTP/1.1' % a)
    metas[len(cmds)] = {'what': 'sched'}; cmds.append('H\t%d\tGET /sched HTTP/1.1' % a)
    req(a, [add(target, a)])                                       # replace
    req(b, [{'kind': 'cancel', 'uid': target, 'peer': b}], 'CANCEL')   # not his
    metas[len(cmds)] = {'what': 'queue'}; cmds.append('H\t%d\tGET /queue HTTP/1.1' % a)
    req(a, [{'kind': 'cancel', 'uid': target, 'peer': a}], 'CANCEL')
    metas[len(cmds)] = {'what': 'queue'}; cmds.append('H\t%d\tGET /queue HTTP/1.1' % a)
    metas[len(cmds)] = {'what': 'queue'}; cmds.append('H\t%d\tGET /queue HTTP/1.1' % b)
    return cmds, metas


def map_script(rnd, uidpool, peers=(1000, 1001, 1002, 0, 4242), nreq=8, listy=False):
    """requests only, nothing ever comes due: the queue as a map.  listy: long histories in which every other request is a listing
    (GET /queue brings the queue file up to date on demand - the listing must show the tasks as last accepted, not as last saved)"""
    cmds, metas = [], {}
    FAR = 5000
    crowd = rnd.random() < 0.12     # other peers keep connections open meanwhile (the table has 64 slots, searched in two halves)
    if crowd: cmds.append('CO\t%d' % rnd.choice([30, 31, 32, 33, 40, 62, 63]))
    for _ in range(nreq):
        x = rnd.random(); p = rnd.choice(peers)
        if crowd and rnd.random() < 0.3: cmds.append(rnd.choice(['CC\t%d' % rnd.randint(0, 63), 'CO\t1', 'CO\t1', 'CO\t2']))
        if listy: x = x * 0.75 / 0.5 if x < 0.5 else (0.86 + (x - 0.5) * 0.2 if x < 0.95 else 0.97)     # 33 % adds, 17 % cancels, 45 % /queue, 5 % other
        if listy and rnd.random() < 0.08: cmds.append('K')                                             # the minutely checkpoint timer comes due now and then
        if x < 0.55:
            items = []
            for _ in range(rnd.choice([1, 1, 1, 2, 3])):
                it = {'kind': 'add', 'uid': rnd.choice(uidpool), 'occ': sorted(set(FAR + rnd.randint(0, 50) for _ in range(rnd.randint(1, 3)))), 'maxsim': 0, 'peer': p}
                it['start'] = secs(min(it['occ']))
                y = rnd.random()
                if y < 0.15: it['owner_uid'] = rnd.choice([1000, 1001, 1002, 4242])
                elif y < 0.3: it['owner_name'] = rnd.choice(['alice', 'bob', 'carol', 'nobody-such'])
                items.append(it)
            if rnd.random() < 0.08:
                # two calendars on one connection: a cancel request, then a calendar without METHOD (which means add / replace)
                c_items = [{'kind': 'cancel', 'uid': rnd.choice(uidpool), 'peer': p}]
                a_items = []
                for _ in range(rnd.choice([1, 2])):
                    it = {'kind': 'add', 'uid': rnd.choice(uidpool), 'occ': [FAR + rnd.randint(0, 50)], 'maxsim': 0, 'peer': p}; it['start'] = secs(min(it['occ'])); a_items.append(it)
                metas[len(cmds)] = c_items + a_items
                cmds.append(areq(rnd, p, request(c_items, 'CANCEL') + request(a_items, None)))
                continue
            stale = rnd.random() < 0.12
            if stale:
                # an outdated version of a task (every occurrence in the past) and its current version in one request, as echsq add
                # OLD NEW sends them: the second replaces the first, and is there after the loop has turned
                u = rnd.choice(uidpool)
                items = [{'kind': 'add', 'uid': u, 'occ': [-rnd.randint(60, 90000)], 'maxsim': 0, 'peer': p}, {'kind': 'add', 'uid': u, 'occ': [FAR + rnd.randint(0, 50)], 'maxsim': 0, 'peer': p}]
                for it in items: it['start'] = secs(min(it['occ']))
            metas[len(cmds)] = items
            cmds.append(areq(rnd, p, request(items)))
            if stale: cmds += ['R', 'DA']
        elif x < 0.75:
            items = [{'kind': 'cancel', 'uid': rnd.choice(uidpool) if rnd.random() < 0.93 else '', 'peer': p} for _ in range(rnd.choice([1, 1, 2]))]
            metas[len(cmds)] = items
            cmds.append(areq(rnd, p, request(items, 'CANCEL')))
        elif p == 0:
            continue    # the administrator's own listing is outside the property
        elif x < 0.85:
            metas[len(cmds)] = {'what': 'sched'}; cmds.append('H\t%d\tGET /sched HTTP/1.1' % p)
        elif x < 0.95:
            metas[len(cmds)] = {'what': 'queue'}; cmds.append('H\t%d\tGET /queue HTTP/1.1' % p)
        else:
            q = rnd.choice([u for u in (1000, 1001, 1002) if u != p])
            if p == 0: continue
            metas[len(cmds)] = {'what': 'other'}; cmds.append('H\t%d\tGET /u/%d/%s HTTP/1.1' % (p, q, rnd.choice(['sched', 'queue'])))
    return cmds, metas


def burst_script(rnd, uidpool):
    """one user changes a lot between two checkpoints (the daemon's list of users with unsaved changes has 16 places), then another
    user changes something and looks at his queue"""
    cmds, metas = [], {}
    FAR = 5000
    a, b = rnd.sample([1000, 1001, 1002], 2)
    def add(p, uid):
        it = {'kind': 'add', 'uid': uid, 'occ': [FAR + rnd.randint(0, 50)], 'maxsim': 0, 'peer': p}; it['start'] = secs(min(it['occ']))
        metas[len(cmds)] = [it]; cmds.append(areq(rnd, p, request([it])))
    if rnd.random() < 0.5: add(b, 'pre-' + rnd.choice(uidpool))
    if rnd.random() < 0.5: cmds.append('K')
    for i in range(rnd.choice([14, 15, 16, 17, 20])): add(a, rnd.choice(uidpool) if rnd.random() < 0.3 else 'burst%d' % i)
    for _ in range(rnd.randint(1, 3)):
        add(b, 'late-' + rnd.choice(uidpool))
        metas[len(cmds)] = {'what': 'queue'}; cmds.append('H\t%d\tGET /queue HTTP/1.1' % b)
    metas[len(cmds)] = {'what': 'queue'}; cmds.append('H\t%d\tGET /queue HTTP/1.1' % a)
    if rnd.random() < 0.5:
        # a second busy spell in the same daemon life, in which the other user cancels everything he has: his queue is empty then,
        # whatever kind of checkpoint wrote it
        cmds.append('K')
        for i in range(rnd.choice([16, 17, 20])): add(a, 'again%d' % i)
        mine = sorted(set(it['uid'] for k in metas if isinstance(metas[k], list) for it in metas[k] if it['kind'] == 'add' and it['peer'] == b))
        for u in mine:
            it = {'kind': 'cancel', 'uid': u, 'peer': b}; metas[len(cmds)] = [it]; cmds.append(areq(rnd, b, request([it], 'CANCEL')))
        if rnd.random() < 0.7: cmds.append('K')
        metas[len(cmds)] = {'what': 'queue'}; cmds.append('H\t%d\tGET /queue HTTP/1.1' % b)
        metas[len(cmds)] = {'what': 'queue'}; cmds.append('H\t%d\tGET /queue HTTP/1.1' % a)
    return cmds, metas


def many_uids_script(rnd):
    """one user with a few hundred tasks (the table of UID strings fills its probe windows), listed, some cancelled, listed again"""
    cmds, metas = [], {}
    FAR = 5000
    p = rnd.choice([1000, 1001]); q = 1001 if p == 1000 else 1000
    uids = ['many-%d-%s' % (i, 'k' * rnd.randint(0, 12)) for i in range(rnd.choice([180, 260, 400]))]
    for a0 in range(0, len(uids), 20):
        items = []
        for u in uids[a0:a0 + 20]:
            it = {'kind': 'add', 'uid': u, 'occ': [FAR + rnd.randint(0, 50)], 'maxsim': 0, 'peer': p}; it['start'] = secs(min(it['occ'])); items.append(it)
        metas[len(cmds)] = items; cmds.append('A\t%d\t%s' % (p, rrgen.esc(request(items))))
    metas[len(cmds)] = {'what': 'queue'}; cmds.append('H\t%d\tGET /queue HTTP/1.1' % p)
    items = [{'kind': 'cancel', 'uid': u, 'peer': rnd.choice([p, p, q])} for u in rnd.sample(uids, 15)]
    for it in items:
        metas[len(cmds)] = [it]; cmds.append('A\t%d\t%s' % (it['peer'], rrgen.esc(request([it], 'CANCEL'))))
    metas[len(cmds)] = {'what': 'queue'}; cmds.append('H\t%d\tGET /queue HTTP/1.1' % p)
    metas[len(cmds)] = {'what': 'sched'}; cmds.append('H\t%d\tGET /sched HTTP/1.1' % p)
    return cmds, metas


def reply_burst_script(rnd, uidpool):
    """one request with so many items that the replies do not fit into the daemon's 4 KiB write buffer"""
    cmds, metas = [], {}
    FAR = 5000
    p = rnd.choice([1000, 1001])
    mine = ['rb%d-%s' % (i, 'z' * rnd.randint(0, 30)) for i in range(rnd.randint(3, 8))]
    items = []
    for u in mine:
        it = {'kind': 'add', 'uid': u, 'occ': [FAR + rnd.randint(0, 50)], 'maxsim': 0, 'peer': p}; it['start'] = secs(min(it['occ'])); items.append(it)
    metas[len(cmds)] = items; cmds.append(areq(rnd, p, request(items)))
    n = rnd.randint(55, 120)
    items = [{'kind': 'cancel', 'uid': rnd.choice(mine) if rnd.random() < 0.1 else 'no%d-%s' % (i, 'q' * rnd.randint(0, 40)), 'peer': p} for i in range(n)]
    metas[len(cmds)] = items; cmds.append('A\t%d\t%s' % (p, rrgen.esc(request(items, 'CANCEL'))))
    metas[len(cmds)] = {'what': 'queue'}; cmds.append('H\t%d\tGET /queue HTTP/1.1' % p)
    return cmds, metas


def table_script(rnd):
    """nothing but connections coming and going, up to and beyond the 64 the table holds"""
    cmds = []; n = 0
    for _ in range(rnd.randint(3, 12)):
        if rnd.random() < 0.65:
            k = rnd.choice([1, 2, 5, 16, 31, 32, 33, 64, 65]); cmds.append('CO\t%d' % k); n = min(64, n + k)
        else:
            for _ in range(rnd.choice([1, 1, 3, 10, 40])):
                if n: cmds.append('CC\t%d' % rnd.randint(0, 63)); n -= 1
    return cmds, {}


# ------------------------------------------------------------------ C06: crash / fault enumeration around checkpoints
def run_in_spool(drv, spool, cmds, metas):
    try:
        p = subprocess.run([drv, spool], input='\n'.join(cmds) + '\n', capture_output=True, text=True, timeout=120)
        rc = p.returncode; out = p.stdout
    except subprocess.TimeoutExpired:
        rc = -99; out = ''
    ev = []
    for l in out.split('\n'):
        if not l: continue
        try: ev.append(json.loads(l))
        except Exception: ev.append({'e': 'Garbled'})
    ai = sorted(i for i in metas if isinstance(metas[i], list)); k = 0
    for e in ev:
        if e['e'] == 'Req' and k < len(ai):
            e['items'] = metas[ai[k]]; k += 1
            e['replies'] = [[m.group(1), int(m.group(2))] for m in REPLY_RE.finditer(e.get('reply', ''))]
            e.pop('reply', None)
        elif e['e'] == 'Http':
            e.pop('reply', None)
        elif e['e'] == 'Sys':
            m = re.search(r'echsq_(\d+)\.ics', e.get('arg', ''))
            e['owner'] = int(m.group(1)) if m else -1
        elif e['e'] == 'State':
            e['tasks'] = [[t['uid'], t['owner']] for t in e['tasks']]
            for kk in ('pending', 'children', 'dirty', 'now'): e.pop(kk, None)
    return ev, rc


def file_facts(spool):
    out = []
    for fn in sorted(os.listdir(spool)):
        if not (fn.startswith('echsq_') or fn.startswith('.echsq_')): continue
        b = open(os.path.join(spool, fn), 'rb').read().decode('latin1')
        m = re.search(r'echsq_(\d+)\.ics$', fn)
        out.append({'name': fn, 'user': int(m.group(1)) if m else -1, 'dot': fn.startswith('.'), 'size': len(b),
                    'nbeginvcal': b.count('BEGIN:VCALENDAR'), 'nendvcal': b.count('END:VCALENDAR'),
                    'nbeginvev': b.count('BEGIN:VEVENT'), 'nendvev': b.count('END:VEVENT'),
                    'endsright': b.endswith('END:VCALENDAR\n'), 'uids': sorted(re.findall(r'^UID:([^\n\r]*)', b, re.M))})
    return out


def chk_experiment(drv, wd, cmds, metas, k=None, mode=None):
    """run a history with a fault armed at the k-th checkpoint system call, then restart on the same spool"""
    spool = tempfile.mkdtemp(prefix='ck', dir=wd)
    pre = ['ST\t1'] + (['F\t%d\t%s' % (k, mode)] if k else [])
    m2 = {i + len(pre): v for i, v in metas.items()}
    ev, rc = run_in_spool(drv, spool, pre + cmds, m2)
    files = file_facts(spool)
    ev2, rc2 = run_in_spool(drv, spool, ['L', 'Q'], {})
    armed = []
    for e in ev2:
        if e['e'] == 'State': armed = e['tasks']
    # second life: the restarted daemon goes on working on the same spool (stale dot files included):
    # it cancels some of what it loaded, shuts down cleanly, and is restarted once more
    rnd2 = random.Random(len(cmds) * 1000 + (k or 0))
    victims = rnd2.sample(armed, min(len(armed), rnd2.choice([1, 2, 3]))) if armed else []
    c3, m3 = ['ST\t1', 'L'], {}
    for uid, owner in victims:
        it = {'kind': 'cancel', 'uid': uid, 'peer': owner}
        m3[len(c3)] = [it]; c3.append('A\t%d\t%s' % (owner, rrgen.esc(request([it], 'CANCEL'))))
    c3.append('S')
    ev3, rc3 = run_in_spool(drv, spool, c3, m3)
    files3 = file_facts(spool)
    ev4, rc4 = run_in_spool(drv, spool, ['L', 'Q'], {})
    armed3 = []
    for e in ev4:
        if e['e'] == 'State': armed3 = e['tasks']
    shutil.rmtree(spool, ignore_errors=True)
    return {'e': 'CkRun', 'k': k or 0, 'mode': mode or 'none', 'rc': rc, 'rc2': rc2, 'ev': ev, 'files': files, 'armed': armed,
            'rc3': rc3 or rc4, 'ev3': ev3, 'files3': files3, 'armed3': armed3}


def brim_history(rnd, base, n=50, user=1000, rule=False):
    """n tasks each printed in more than 4 KiB (75 addressees), alike but for the length of the DESCRIPTION, base..base+n-1: the
    pieces printed after the bulk end on every position around the end of the 4 KiB print buffer, the last byte included"""
    cmds, metas = [], {}
    att = ['ATTENDEE:mailto:%s@example.com' % ('y' * 30) for _ in range(75)]
    for i in range(n):
        it = {'kind': 'add', 'uid': 'w%d' % i, 'occ': [5000 + i] if rule else [5000 + i % 40, 5100 + i], 'past_rule': rule, 'maxsim': rnd.choice([2, 3, 11]), 'peer': user,
              'extra': att[:40] + ['DESCRIPTION:' + 'x' * (base + i)] + att[40:]}
        metas[len(cmds)] = [it]; cmds.append('A\t%d\t%s' % (user, rrgen.esc(request([it]))))
    cmds += ['K', 'S']
    return cmds, metas


def chk_history(rnd, users=(1000, 1001), uids=('a', 'b', 'c', 'd'), nreq=5, fat=False, every_user=False):
    cmds, metas = [], {}
    FAR = 5000
    todo = list(users) if every_user else []      # every_user: each user changes something before the first checkpoint
    def req():
        p = todo.pop() if todo else rnd.choice(users)
        if todo or every_user and len(cmds) < len(users) or rnd.random() < 0.7:
            items = []
            for _ in range(rnd.choice([1, 1, 2, 3])):
                it = {'kind': 'add', 'uid': ('own%d' % p) if every_user and rnd.random() < 0.6 else rnd.choice(uids), 'occ': sorted(set(FAR + rnd.randint(0, 50) for _ in range(rnd.randint(1, 3)))), 'maxsim': 0, 'peer': p}
                if fat: it['extra'] = ['DESCRIPTION:' + 'x' * rnd.choice([200, 900, 1000])] * 1 + ['ATTENDEE:mailto:%s@example.com' % ('y' * rnd.randint(1, 60)) for _ in range(rnd.choice([0, 2, 5, 60, 130]))]
                items.append(it)
            metas[len(cmds)] = items; cmds.append(areq(rnd, p, request(items)))
        else:
            # one to three UIDs per cancel request (as `echsq cancel A B C` sends them), some of them not in the queue: the request is
            # answered item by item, and what succeeded has to reach the queue file whatever the other items came to
            items = [{'kind': 'cancel', 'uid': rnd.choice(list(uids) + ['nosuch']), 'peer': p} for _ in range(rnd.choice([1, 1, 2, 3]))]
            metas[len(cmds)] = items; cmds.append(areq(rnd, p, request(items, 'CANCEL')))
    for _ in range(nreq): req()
    cmds.append('K')
    for _ in range(rnd.randint(0, 3)): req()
    if rnd.random() < 0.5: cmds.append('K')
    for _ in range(rnd.randint(0, 2)): req()
    if rnd.random() < 0.6:
        # the last thing a user does: a request whose first item succeeds and whose last item fails, with nothing else of that user
        # waiting to be saved (a checkpoint goes before it most of the time).  Who holds which UID is followed here only to pick
        # a UID the user does hold; the judge follows it on its own.
        own = {}
        for i in sorted(metas):
            for it in metas[i]:
                if it['kind'] == 'add':
                    if own.get(it['uid'], it['peer']) == it['peer']: own[it['uid']] = it['peer']
                elif own.get(it['uid']) == it['peer']: del own[it['uid']]
        holders = sorted(set(own.values()))
        if holders:
            p = rnd.choice(holders); mine = sorted(u for u, o in own.items() if o == p)
            if rnd.random() < 0.7: cmds.append('K')
            items = [{'kind': 'cancel', 'uid': rnd.choice(mine), 'peer': p}, {'kind': 'cancel', 'uid': 'nosuch', 'peer': p}]
            metas[len(cmds)] = items; cmds.append('A\t%d\t%s' % (p, rrgen.esc(request(items, 'CANCEL'))))
    cmds.append('S')
    return cmds, metas
