#!/usr/bin/env python3
"""regenerate the generated parts of DESIGN.md section 11 (repaired defects by property, seeded changes table) from
known_findings.json and seeded/*/meta.json"""
import json, glob, os, re, subprocess
d = open('/verif/DESIGN.md').read()
k = json.load(open('/verif/known_findings.json'))
byp = {}
for f in k['fixed']:
    pid = f.split('property=')[1].split()[0]; byp.setdefault(pid, []).append(f.split(' ', 3)[3] + ' (`' + f.split()[2] + '`)')
fixed = '\n'.join('* **%s** (%d)\n' % (p, len(byp[p])) + '\n'.join('  - ' + x for x in byp[p]) for p in sorted(byp))
rows = ['| seed | property | change | caught by |', '|------|----------|--------|-----------|']
for sd in sorted(glob.glob('/verif/seeded/*')):
    m = json.load(open(sd + '/meta.json'))
    det = m.get('detected_by')
    if isinstance(det, dict): det = ['%s %s' % (det.get('check'), det.get('tier')) + (' - ' + det['result'] if 'missed' in det.get('result', '') else '')]
    summ = re.sub(r'\s+', ' ', m.get('summary', ''))[:170].replace('|', '/')
    rows.append('| %s | %s | %s... | %s |' % (os.path.basename(sd), m.get('property'), summ, '; '.join(det or ['NOT DETECTED (open gap)']).replace('|', '/')))
d = re.sub(r'<!-- FIXED-BEGIN -->.*?<!-- FIXED-END -->', lambda _: '<!-- FIXED-BEGIN -->\n' + fixed + '\n<!-- FIXED-END -->', d, flags=re.S)
d = re.sub(r'<!-- SEEDS-BEGIN -->.*?<!-- SEEDS-END -->', lambda _: '<!-- SEEDS-BEGIN -->\n' + '\n'.join(rows) + '\n<!-- SEEDS-END -->', d, flags=re.S)
nfix = int(subprocess.run("git -C /repo log --oneline | grep -c ' fix:'", shell=True, capture_output=True, text=True).stdout)
d = re.sub(r'\d+ `fix:` commits, one per defect', '%d `fix:` commits, one per defect' % nfix, d)
open('/verif/DESIGN.md', 'w').write(d)
print('DESIGN.md section 11 regenerated: %d fixed entries, %d fix commits, %d seeds' % (len(k['fixed']), nfix, len(rows) - 2))
