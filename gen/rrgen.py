"""Rule / event generators (input generation only; nothing here computes an expected result).
A rule is a dict in the shape RRule.tla expects; rule_text() renders the RRULE value."""
import calendar, random, datetime as D

WD = ['MO', 'TU', 'WE', 'TH', 'FR', 'SA', 'SU']
FREQS = ['YEARLY', 'MONTHLY', 'WEEKLY', 'DAILY', 'HOURLY', 'MINUTELY', 'SECONDLY']


def blank(freq, inter=1):
    return {'freq': freq, 'inter': inter, 'count': 0, 'until': [], 'mon': [], 'wk': [], 'yd': [], 'md': [], 'dow': [],
            'H': [], 'M': [], 'S': [], 'pos': [], 'easter': [], 'shift': [0, 0, 0, 0]}


def dim(y, m):
    return calendar.monthrange(y, m)[1]


def inst(ds):
    """ds tuple -> 7-tuple instant as the code represents it"""
    if len(ds) == 3:
        return [ds[0], ds[1], ds[2], 255, 0, 0, 0]
    return [ds[0], ds[1], ds[2], ds[3], ds[4], ds[5], 1023]


def dt_text(ds, z=True):
    if len(ds) == 3:
        return '%04d%02d%02d' % tuple(ds)
    return '%04d%02d%02dT%02d%02d%02d' % tuple(ds[:6]) + ('Z' if z else '')


def shift_text(sh):
    d, b, dr = sh
    parts = []
    if d or not dr:
        parts.append(str(d))
    if dr:
        s = ('-' if (b < 0 or (b == 0 and dr < 0)) else '') + str(abs(b)) + 'B'
        # explicit direction marker only where it differs from the sign's default
        parts.append(s)
    return ','.join(parts)


def rule_text(r):
    p = ['FREQ=' + r['freq']]
    if r['inter'] != 1: p.append('INTERVAL=%d' % r['inter'])
    if r['mon']: p.append('BYMONTH=' + ','.join(map(str, r['mon'])))
    if r['wk']: p.append('BYWEEKNO=' + ','.join(map(str, r['wk'])))
    if r['yd']: p.append('BYYEARDAY=' + ','.join(map(str, r['yd'])))
    if r['md']: p.append('BYMONTHDAY=' + ','.join(map(str, r['md'])))
    if r['dow']: p.append('BYDAY=' + ','.join((str(n) if n else '') + WD[w - 1] for n, w in r['dow']))
    if r['H']: p.append('BYHOUR=' + ','.join(map(str, r['H'])))
    if r['M']: p.append('BYMINUTE=' + ','.join(map(str, r['M'])))
    if r['S']: p.append('BYSECOND=' + ','.join(map(str, r['S'])))
    if r['pos']: p.append('BYSETPOS=' + ','.join(map(str, r['pos'])))
    if r['easter']: p.append('BYEASTER=' + ','.join(map(str, r['easter'])))
    if r.get('shift_text'): p.append('SHIFT=' + r['shift_text'])
    if r['count']: p.append('COUNT=%d' % r['count'])
    if r['until']:
        u = r['until']
        p.append('UNTIL=' + ('%04d%02d%02d' % tuple(u[:3]) if u[3] == 255 else '%04d%02d%02dT%02d%02d%02dZ' % tuple(u[:6])))
    return ';'.join(p)


def spec_rule(r):
    return {k: r[k] for k in ('freq', 'inter', 'count', 'until', 'mon', 'wk', 'yd', 'md', 'dow', 'H', 'M', 'S', 'pos', 'easter', 'shift')}


def event_ics(uid, ds, rrules=(), rdates=(), exdates=(), exrules=(), extra=(), dur=None, dtend=None, tzid=None, summary='x'):
    L = ['BEGIN:VCALENDAR', 'VERSION:2.0', 'BEGIN:VEVENT', 'UID:' + uid, 'SUMMARY:' + summary]
    if tzid:
        L.append('DTSTART;TZID=%s:%s' % (tzid, dt_text(ds, z=False)))
    elif len(ds) == 3:
        L.append('DTSTART;VALUE=DATE:' + dt_text(ds))
    else:
        L.append('DTSTART:' + dt_text(ds))
    if dtend is not None:
        L.append(('DTEND;VALUE=DATE:' if len(dtend) == 3 else 'DTEND:') + dt_text(dtend))
    if dur is not None:
        L.append('DURATION:' + dur)
    for r in rrules: L.append('RRULE:' + (r if isinstance(r, str) else rule_text(r)))
    for x in exrules: L.append('EXRULE:' + (x if isinstance(x, str) else rule_text(x)))
    for grp in rdates:
        L.append(('RDATE;VALUE=DATE:' if len(grp[0]) == 3 else 'RDATE:') + ','.join(dt_text(x) for x in grp))
    for grp in exdates:
        L.append(('EXDATE;VALUE=DATE:' if len(grp[0]) == 3 else 'EXDATE:') + ','.join(dt_text(x) for x in grp))
    L += list(extra)
    L += ['END:VEVENT', 'END:VCALENDAR', '']
    return '\n'.join(L)


def esc(s):
    return s.replace('\\', '\\\\').replace('\n', '\\n').replace('\r', '\\r')


# ---------------------------------------------------------------- phases
def year_types():
    """one year per (weekday of 1 Jan, leap) class inside 1902..2098, plus 53-week years"""
    seen = {}
    for y in list(range(2016, 2045)) + list(range(1902, 2016)):
        k = (D.date(y, 1, 1).weekday(), calendar.isleap(y))
        seen.setdefault(k, y)
    return sorted(seen.values())


def phase_dates(y):
    """calendar phases inside year y: month ends of each length, leap day, year ends, ISO week 53 / week 1 edge, a 5th weekday"""
    ds = [(y, 1, 1), (y, 2, 28), (y, 3, 1), (y, 1, 31), (y, 4, 30), (y, 12, 31), (y, 3, 31), (y, 1, 29), (y, 5, 29), (y, 8, 15)]
    if calendar.isleap(y): ds.append((y, 2, 29))
    return ds


TIMES = [None, (0, 0, 0), (23, 59, 59), (12, 30, 15)]


def with_time(d, t):
    return tuple(d) if t is None else tuple(d) + tuple(t)


def sync_parts(rnd, freq, dd, r, shape):
    """fill BY parts so that DTSTART (date dd) is most likely a member; shape names the combination"""
    wd = dd.weekday() + 1
    yday = dd.timetuple().tm_yday
    ylen = 366 if calendar.isleap(dd.year) else 365
    iso = dd.isocalendar()

    def sub(pool, k, must=None):
        pool = list(pool)
        s = set(rnd.sample(pool, min(k, len(pool))))
        if must is not None and rnd.random() < 0.9: s.add(must)
        return sorted(s)
    if 'mon' in shape: r['mon'] = sub(range(1, 13), rnd.randint(1, 4), dd.month)
    if 'md' in shape:
        neg = dd.day - dim(dd.year, dd.month) - 1
        if 'negmd' in shape: r['md'] = sub([-1, -2, -3, -28, -31], rnd.randint(1, 3), neg)
        else: r['md'] = sub([1, 2, 15, 28, 29, 30, 31, -1, -2, -31], rnd.randint(1, 3), rnd.choice([dd.day, dd.day, neg]))
    if 'yd' in shape:
        r['yd'] = sub([1, 59, 60, 100, 200, 365, 366, -1, -366, -100, -306], rnd.randint(1, 3), rnd.choice([yday, yday, yday - ylen - 1]))
    if 'wk' in shape:
        r['wk'] = sub([1, 2, 20, 52, 53, -1, -2, -53], rnd.randint(1, 2), iso[1] if iso[0] == dd.year else None)
    if 'dow' in shape:
        r['dow'] = [[0, w] for w in sub(range(1, 8), rnd.randint(1, 4), wd)]
    if 'ord' in shape:
        if freq == 'MONTHLY' or r['mon']:
            k = (dd.day - 1) // 7 + 1; kn = -((dim(dd.year, dd.month) - dd.day) // 7 + 1)
            cands = [k, k, kn, kn, 1, 2, 5, -1, -5]
        else:
            k = (yday - 1) // 7 + 1; kn = -((ylen - yday) // 7 + 1)
            cands = [k, k, kn, 1, 20, 53, -1, -53]
        r['dow'] = [[rnd.choice(cands), wd]]
        if rnd.random() < 0.3: r['dow'].append([rnd.choice(cands), rnd.randint(1, 7)])


SHAPES = {
    'YEARLY': ['', 'mon', 'mon+md', 'md', 'dow', 'dow+mon', 'ord+mon', 'ord', 'yd', 'wk+dow', 'mon+md+dow'],
    'MONTHLY': ['', 'md', 'negmd', 'dow', 'ord', 'mon', 'dow+md', 'dow+pos', 'mon+md', 'ord+mon'],
    'WEEKLY': ['', 'dow', 'dow+mon', 'mon'],
    'DAILY': ['', 'dow', 'mon', 'md', 'mon+md', 'dow+mon', 'dow+md'],
    'HOURLY': ['', 'dow', 'mon', 'md', 'yd', 'dow+md'],
    'MINUTELY': ['', 'dow', 'md', 'yd'],
    'SECONDLY': ['', 'mon', 'md', 'yd'],
}
INTERS = [1, 1, 1, 2, 3, 4, 5, 7, 10, 12, 13, 24, 30, 60, 90]
COUNTS = [1, 2, 3, 5, 10, 62, 63, 64, 65, 126, 127, 128, 200]


def add_tod(rnd, freq, ds, r, heavy=False):
    """time-of-day parts; heavy = products that straddle the 64-slot cache"""
    if len(ds) == 3: return
    H, M, S = ds[3], ds[4], ds[5]

    def sub(pool, k, must):
        s = set(rnd.sample(list(pool), min(k, len(pool)))); s.add(must); return sorted(s)
    t = rnd.choice(['H', 'M', 'S', 'HM', 'MS', 'HMS'])
    if heavy:
        r['H'] = sub(range(24), rnd.randint(3, 9), H); r['M'] = sub(range(60), rnd.randint(3, 9), M)
        if rnd.random() < 0.5: r['S'] = sub(range(60), rnd.randint(1, 4), S)
        return
    if 'H' in t: r['H'] = sub([0, 1, 9, 12, 23], rnd.randint(1, 3), H)
    if 'M' in t: r['M'] = sub([0, 1, 15, 30, 31, 45, 59], rnd.randint(1, 3), M)
    if 'S' in t: r['S'] = sub([0, 1, 30, 31, 59], rnd.randint(1, 3), S)


def add_limit(rnd, ds, r):
    x = rnd.random()
    if x < 0.4: r['count'] = rnd.choice(COUNTS)
    elif x < 0.6:
        d0 = D.date(*ds[:3]); u = d0 + D.timedelta(rnd.choice([0, 1, 6, 7, 30, 31, 365, 366, 1000, 3000]))
        if u.year > 2098: u = D.date(2098, 12, 31)
        r['until'] = inst((u.year, u.month, u.day) + tuple(ds[3:]))


def random_case(rnd, freqs=FREQS):
    freq = rnd.choice(freqs)
    y = rnd.choice(year_types() + [1902, 1999, 2000, 2037, 2038, 2096])
    m = rnd.randint(1, 12); d = rnd.randint(1, dim(y, m))
    if rnd.random() < 0.3: d = dim(y, m)
    timed = freq in ('HOURLY', 'MINUTELY', 'SECONDLY') or rnd.random() < 0.5
    ds = (y, m, d, rnd.randint(0, 23), rnd.choice([0, 15, 30, 59]), rnd.choice([0, 30, 59])) if timed else (y, m, d)
    r = blank(freq, rnd.choice(INTERS))
    shape = rnd.choice(SHAPES[freq])
    sync_parts(rnd, freq, D.date(y, m, d), r, shape)
    if 'pos' in shape: r['pos'] = sorted(set(rnd.sample([1, 2, 3, -1, -2], rnd.randint(1, 2))))
    if timed and rnd.random() < 0.45: add_tod(rnd, freq, ds, r, heavy=rnd.random() < 0.2)
    add_limit(rnd, ds, r)
    return ds, r, freq + ':' + shape


def extra_case(rnd):
    """combinations the shape catalogue does not have, each with DTSTART a member of its own set: BYSETPOS below MONTHLY and with YEARLY,
    BYYEARDAY / BYWEEKNO together with BYMONTH / BYMONTHDAY / BYDAY, mixed ordinal and plain BYDAY, BYMONTH / BYDAY under MINUTELY / SECONDLY,
    sub-daily steps of more than a day"""
    kind = rnd.choice(['wly_pos', 'dly_pos', 'hly_pos', 'yly_yd_mon', 'yly_yd_md', 'yly_wk_dow_mon', 'yly_wk_pos', 'yly_dow_pos', 'mly_md_pos', 'yly_md_dow',
                       'yly_yd_dow', 'mly_ord_plain', 'Mly_mon', 'Sly_dow', 'big_inter', 'yly_mon_dow_pos', 'yly_wk', 'yly_wk', 'pos_beyond', 'pos_beyond'])
    y = rnd.choice(year_types() + [1999, 2000, 2024, 2037])
    m = rnd.randint(1, 12); d = rnd.randint(1, dim(y, m)); dd = D.date(y, m, d)
    tod = (rnd.randint(0, 23), rnd.choice([0, 15, 30, 59]), rnd.choice([0, 30, 59]))
    def rank(lst, x, neg): return (sorted(lst).index(x) + 1) if not neg else -(len(lst) - sorted(lst).index(x))
    neg = rnd.random() < 0.4
    if kind == 'wly_pos':
        wd = dd.weekday() + 1; days = sorted(set(rnd.sample(range(1, 8), rnd.randint(2, 5))) | {wd})
        r = blank('WEEKLY', rnd.choice([1, 1, 2, 3])); r['dow'] = [[0, w] for w in days]; r['pos'] = [rank(days, wd, neg)]; ds = (y, m, d)
    elif kind == 'dly_pos':
        hs = sorted(set(rnd.sample(range(24), rnd.randint(2, 4))) | {tod[0]})
        r = blank('DAILY', rnd.choice([1, 1, 2])); r['H'] = hs; r['pos'] = [rank(hs, tod[0], neg)]; ds = (y, m, d) + tod
    elif kind == 'hly_pos':
        ms = sorted(set(rnd.sample(range(60), rnd.randint(2, 4))) | {tod[1]})
        r = blank('HOURLY', rnd.choice([1, 1, 3])); r['M'] = ms; r['pos'] = [rank(ms, tod[1], neg)]; ds = (y, m, d) + tod
    elif kind == 'yly_yd_mon':
        r = blank('YEARLY', rnd.choice([1, 1, 2])); r['mon'] = sorted({m, rnd.randint(1, 12)}); r['yd'] = sorted({dd.timetuple().tm_yday, rnd.choice([1, 100, 200, 300])}); ds = (y, m, d)
    elif kind == 'yly_yd_md':
        r = blank('YEARLY', 1); r['md'] = sorted({d, rnd.choice([1, 15, 28])}); r['yd'] = sorted({dd.timetuple().tm_yday, rnd.choice([32, 100, 200])}); ds = (y, m, d)
    elif kind == 'yly_wk_dow_mon':
        iso = dd.isocalendar()
        if iso[0] != y: return extra_case(rnd)
        r = blank('YEARLY', 1); r['wk'] = [iso[1]]; r['dow'] = [[0, dd.weekday() + 1]]; r['mon'] = [m]; ds = (y, m, d)
    elif kind == 'yly_wk':
        # the last weeks of the year (53, -1, -2, 52) and the first, every year, followed across both kinds of 53-week years
        # (those that begin on a Thursday and the leap years that begin on a Wednesday)
        wk = rnd.choice([53, 53, -1, -1, -2, 52, 1, -53, -52])
        yy = rnd.choice([1908, 1936, 1964, 1992, 2020, 2048, 1903, 1914, 1925, 1931, 1942, 1998, 2004, 2009, 2015, 2026]) if wk in (53, -53) or rnd.random() < 0.5 else rnd.randint(1902, 2040)
        nwk = D.date(yy, 12, 28).isocalendar()[1]
        w = wk if wk > 0 else nwk + wk + 1
        if w < 1 or w > nwk: return extra_case(rnd)
        wds = sorted(rnd.sample(range(1, 8), rnd.randint(1, 4)))
        x = D.date.fromisocalendar(yy, w, wds[0])
        r = blank('YEARLY', 1); r['wk'] = [wk]; r['dow'] = [[0, v] for v in wds]; ds = (x.year, x.month, x.day)
        if rnd.random() < 0.3: ds = ds + tod
    elif kind == 'yly_wk_pos':
        mon1 = D.date.fromisocalendar(y, 1, 1)                       # Monday of ISO week 1, may lie in the December before
        r = blank('YEARLY', 1); r['wk'] = [1]; r['dow'] = [[0, 1], [0, 2], [0, 3]]; r['pos'] = [1]; ds = (mon1.year, mon1.month, mon1.day)
    elif kind == 'yly_dow_pos':
        last = D.date(y, 12, 31)
        while last.weekday() > 4: last -= D.timedelta(1)
        first = D.date(y, 1, 1)
        while first.weekday() > 4: first += D.timedelta(1)
        x = last if neg else first
        r = blank('YEARLY', 1); r['dow'] = [[0, w] for w in range(1, 6)]; r['pos'] = [-1 if neg else 1]; ds = (x.year, x.month, x.day)
    elif kind == 'yly_mon_dow_pos':
        # the second / last working day of January and December
        mm = rnd.choice([1, 12]); days = [D.date(y, mm, k) for k in range(1, 32) if D.date(y, mm, k).weekday() <= 4]
        x = days[-1] if neg else days[1]
        r = blank('YEARLY', 1); r['mon'] = [mm]; r['dow'] = [[0, w] for w in range(1, 6)]; r['pos'] = [-1 if neg else 2]; ds = (x.year, x.month, x.day)
    elif kind == 'pos_beyond':
        # several BYSETPOS values beyond the number of candidates of most periods (a month has four or five of a weekday): they select
        # nothing there
        wd = dd.weekday()
        xs = [D.date(y, m, k) for k in range(1, dim(y, m) + 1) if D.date(y, m, k).weekday() == wd]
        x = xs[1]
        r = blank('MONTHLY', rnd.choice([1, 1, 2])); r['dow'] = [[0, wd + 1]]; r['pos'] = rnd.choice([[2, 5, 6], [2, 5, 6, 7], [2, 6, 7], [-6, 2, 5, 6], [2, 5, -1], [2, 6, -2, -1], [2, 5, 6, -1]]); ds = (x.year, x.month, x.day)
        if rnd.random() < 0.3:
            r = blank('YEARLY', 1); r['mon'] = [m]; r['dow'] = [[0, wd + 1]]; r['pos'] = rnd.choice([[2, 5, 6], [2, 6, 7, 8]])
    elif kind == 'mly_md_pos':
        r = blank('MONTHLY', rnd.choice([1, 1, 2])); r['md'] = [1, 15, -1]; r['pos'] = [2]; ds = (y, m, 15)
    elif kind == 'yly_md_dow':
        x = next(D.date(yy, mm, 13) for yy in range(y, y + 3) for mm in range(1, 13) if yy < 2099 and D.date(yy, mm, 13).weekday() == 4)
        r = blank('YEARLY', 1); r['md'] = [13]; r['dow'] = [[0, 5]]; ds = (x.year, x.month, x.day)
    elif kind == 'yly_yd_dow':
        x = D.date(y, 1, 1) + D.timedelta(rnd.choice([0, 99, 199]))
        r = blank('YEARLY', 1); r['yd'] = [1, 100, 200]; r['dow'] = [[0, x.weekday() + 1]]; ds = (x.year, x.month, x.day)
    elif kind == 'mly_ord_plain':
        x = next(D.date(y, m, k) for k in range(1, 8) if D.date(y, m, k).weekday() == 0)
        r = blank('MONTHLY', 1); r['dow'] = [[1, 1], [0, 5]]; ds = (x.year, x.month, x.day)
    elif kind == 'Mly_mon':
        r = blank('MINUTELY', rnd.choice([1, 7, 20])); r['mon'] = sorted({m, (m + 1) % 12 + 1}); ds = (y, m, dim(y, m), 23, rnd.choice([50, 58]), 0)
    elif kind == 'Sly_dow':
        x = dd
        while x.weekday() != 6: x += D.timedelta(1)
        if x.year > 2098: return extra_case(rnd)
        r = blank('SECONDLY', rnd.choice([1, 7, 30])); r['dow'] = [[0, 7], [0, 2]]; ds = (x.year, x.month, x.day, 23, 59, rnd.choice([50, 58]))
    else:
        fr, it = rnd.choice([('HOURLY', 1000), ('HOURLY', 25), ('MINUTELY', 100000), ('MINUTELY', 2000), ('SECONDLY', 86400), ('SECONDLY', 100000)])
        r = blank(fr, it); ds = (y, m, d) + tod
        if rnd.random() < 0.4: r['md'] = [d]
    if rnd.random() < 0.5: r['count'] = rnd.choice([3, 10, 63, 64, 65, 130])
    return ds, r, 'extra:' + kind


def catalogue(rnd, tier):
    """(FREQ) x (BY shape) x INTERVAL x DTSTART phase x form, with COUNT / UNTIL variants (thorough: complete; quick: a seeded slice)"""
    out = []
    yts = year_types()
    for freq in FREQS:
        for shape in SHAPES[freq]:
            for inter in sorted(set(INTERS)):
                for y in yts:
                    for pd in phase_dates(y):
                        for t in TIMES:
                            if t is None and freq in ('HOURLY', 'MINUTELY', 'SECONDLY'): continue
                            out.append((freq, shape, inter, pd, t))
    rnd.shuffle(out)
    n = len(out) if tier == 'thorough' else 1500
    res = []
    for freq, shape, inter, pd, t in out[:n]:
        ds = with_time(pd, t)
        r = blank(freq, inter)
        sync_parts(rnd, freq, D.date(*pd), r, shape)
        if 'pos' in shape: r['pos'] = sorted(set(rnd.sample([1, 2, 3, -1, -2], rnd.randint(1, 2))))
        if t is not None and rnd.random() < 0.3: add_tod(rnd, freq, ds, r)
        add_limit(rnd, ds, r)
        res.append((ds, r, freq + ':' + shape))
    return res


# ---------------------------------------------------------------- full accepted language (C16, C09)
HIJRI = ['HIJRI.IA', 'HIJRI.IC', 'HIJRI.IIA', 'HIJRI.IIIC', 'HIJRI.IVA', 'HIJRI.UMMULQURA', 'HIJRI.DIYANET']
ZONES = ['Europe/Berlin', 'America/New_York', 'Australia/Sydney', 'Asia/Kolkata', 'America/Sao_Paulo', 'Europe/London', 'Pacific/Chatham']


def ext_rule_text(rnd, ds):
    """an RRULE text over the whole accepted language, incl. SHIFT, BYEASTER, SCALE and ill-formed-but-accepted combinations"""
    freq = rnd.choice(FREQS if len(ds) > 3 else FREQS[:4])
    p = ['FREQ=' + freq]
    if rnd.random() < 0.5: p.append('INTERVAL=%d' % rnd.choice(INTERS))
    def lst(pool, k): return ','.join(str(x) for x in sorted(set(rnd.sample(list(pool), min(k, len(pool))))))
    if rnd.random() < 0.35: p.append('BYMONTH=' + lst(range(1, 13), rnd.randint(1, 4)))
    if rnd.random() < 0.25: p.append('BYMONTHDAY=' + lst([1, 2, 13, 15, 28, 29, 30, 31, -1, -2, -31], rnd.randint(1, 3)))
    if rnd.random() < 0.3:
        days = rnd.sample(WD, rnd.randint(1, 4))
        p.append('BYDAY=' + ','.join((rnd.choice(['', '', '1', '-1', '2', '5', '-5', '53', '20']) if rnd.random() < 0.4 else '') + d for d in days))
    if rnd.random() < 0.1: p.append('BYYEARDAY=' + lst([1, 59, 60, 100, 365, 366, -1, -366], rnd.randint(1, 3)))
    if rnd.random() < 0.1: p.append('BYWEEKNO=' + lst([1, 2, 20, 52, 53, -1, -53], rnd.randint(1, 2)))
    if rnd.random() < 0.12: p.append('BYEASTER=' + lst([0, 1, -2, -46, 39, 49, 50, 60, -366, 366, 300], rnd.randint(1, 3)))
    if rnd.random() < 0.15: p.append('BYSETPOS=' + lst([1, 2, -1, -2, 3], rnd.randint(1, 2)))
    if len(ds) > 3 and rnd.random() < 0.3:
        if rnd.random() < 0.6: p.append('BYHOUR=' + lst(range(24), rnd.randint(1, 6)))
        if rnd.random() < 0.6: p.append('BYMINUTE=' + lst(range(60), rnd.randint(1, 6)))
        if rnd.random() < 0.4: p.append('BYSECOND=' + lst(range(60), rnd.randint(1, 4)))
    if rnd.random() < 0.15: p.append('SHIFT=' + rnd.choice(['1', '-1', '3', '-10', '30', '366', '-366', '1B', '-1B', '0B', '-0B', '0B+', '0B-', '5B', '-7B', '2,1B', '-3,-2B']))
    if rnd.random() < 0.1 and freq in ('YEARLY', 'MONTHLY'): p.append('SCALE=' + rnd.choice(HIJRI))
    count = 0; until = None
    x = rnd.random()
    if x < 0.45: count = rnd.choice(COUNTS + [500, 1000]); p.append('COUNT=%d' % count)
    elif x < 0.65:
        # (an UNTIL before DTSTART, even before everything a table calendar covers: nothing may come out then)
        d0 = D.date(*ds[:3]); u = d0 + D.timedelta(rnd.choice([0, 1, 30, 366, 3000, 20000, 20000, -1, -400, -20000, -60000]))
        if u.year > 2098: u = D.date(2098, 12, 31)
        if u.year < 1900: u = D.date(1900, 1, 1)
        until = inst((u.year, u.month, u.day) + tuple(ds[3:]))
        p.append('UNTIL=' + ('%04d%02d%02d' % tuple(until[:3]) if until[3] == 255 else '%04d%02d%02dT%02d%02d%02dZ' % tuple(until[:6])))
    return ';'.join(p), count, until


def full_event(rnd, uid):
    y = rnd.choice(year_types() + [1902, 1970, 2037, 2038, 2090]); m = rnd.randint(1, 12); d = rnd.randint(1, dim(y, m))
    timed = rnd.random() < 0.6
    ds = (y, m, d, rnd.randint(0, 23), rnd.choice([0, 15, 30, 59]), rnd.choice([0, 30, 59])) if timed else (y, m, d)
    tz = rnd.choice(ZONES) if timed and rnd.random() < 0.25 else None
    rules = [ext_rule_text(rnd, ds) for _ in range(rnd.choice([1, 1, 1, 2, 3]))]
    counts = [c for _, c, _ in rules]; untils = [u for _, _, u in rules]
    rec = {'uid': uid, 'ds': inst(ds), 'tz': bool(tz), 'rtext': ' | '.join(r for r, _, _ in rules),
           'count': sum(counts) if all(counts) else 0, 'until': max(untils) if all(u is not None for u in untils) else [],
           'ics': event_ics(uid, ds, [r for r, _, _ in rules], tzid=tz)}
    return rec


# ---------------------------------------------------------------- hostile events (C09)
ALLH = ','.join(str(x) for x in range(24)); ALL60 = ','.join(str(x) for x in range(60))


def hostile_rule_text(rnd, ds):
    """syntactically acceptable, semantically odd: incongruent INTERVAL/BYxxx, maximal time-of-day products, out-of-range
    ordinals, BYMONTHDAY beyond the month length, extreme SHIFT/BYEASTER/BYSETPOS, huge and zero INTERVAL/COUNT"""
    freq = rnd.choice(FREQS)
    p = ['FREQ=' + freq]
    def lst(pool, k): return ','.join(str(x) for x in rnd.sample(list(pool), min(k, len(pool))))
    x = rnd.random()
    if x < 0.6: p.append('INTERVAL=%d' % rnd.choice([0, 1, 2, 3, 4, 5, 6, 7, 8, 12, 24, 25, 48, 60, 61, 120, 366, 400, 1000, 32767, 32768, 65535, 65536, 100000, 2147483647, 4294967295, 4294967296]))
    if rnd.random() < 0.4: p.append('BYMONTH=' + lst([1, 2, 2, 3, 4, 6, 9, 11, 12, 0, 13, 31, 32, -1], rnd.randint(1, 3)))
    if rnd.random() < 0.35: p.append('BYMONTHDAY=' + lst([29, 30, 31, -29, -30, -31, 0, 32, -32, 1, 28, 100], rnd.randint(1, 4)))
    if rnd.random() < 0.35:
        days = rnd.sample(WD, rnd.randint(1, 7))
        p.append('BYDAY=' + ','.join((rnd.choice(['', '5', '-5', '6', '53', '-53', '54', '0', '99', '-99', '366', '1', '-1']) if rnd.random() < 0.6 else '') + d for d in days))
    if rnd.random() < 0.2: p.append('BYYEARDAY=' + lst([1, 60, 365, 366, 367, 0, -366, -367, 400, -400, 383, 384], rnd.randint(1, 3)))
    if rnd.random() < 0.2: p.append('BYWEEKNO=' + lst([1, 52, 53, 54, 0, -53, -54, 63, 64], rnd.randint(1, 3)))
    if rnd.random() < 0.2: p.append('BYEASTER=' + lst([0, -366, 366, 367, -367, 383, 384, -384, 300, -300], rnd.randint(1, 3)))
    if rnd.random() < 0.25: p.append('BYSETPOS=' + lst([1, -1, 366, -366, 367, 0, 383, 384, 400, 65], rnd.randint(1, 3)))
    if rnd.random() < 0.5:
        y = rnd.random()
        if y < 0.25:      # maximal product; the parser takes hour 24 and second 60 (leap second) too: 25 hours, 61 seconds
            z = rnd.random()
            p += ['BYHOUR=' + ALLH + (',24' if z < 0.5 else ''), 'BYMINUTE=' + ALL60, 'BYSECOND=' + ALL60 + (',60' if 0.25 < z < 0.75 else '')]
            if rnd.random() < 0.3: p = [q for q in p if rnd.random() < 0.6 or not q.startswith('BY')]
        elif y < 0.5:     # incongruent with the interval
            p.append('BYHOUR=' + lst([1, 3, 5, 7, 23], 2)) if rnd.random() < 0.7 else None
            p.append('BYMINUTE=' + lst([1, 7, 31, 59], 2)) if rnd.random() < 0.7 else None
            p.append('BYSECOND=' + lst([1, 7, 31, 59], 2)) if rnd.random() < 0.7 else None
        else:             # out of range values
            p.append('BYHOUR=' + lst([0, 23, 24, 25, 31, 32, 63, 64, 255, -1], 3)) if rnd.random() < 0.7 else None
            p.append('BYMINUTE=' + lst([0, 59, 60, 61, 63, 64, 255, -1], 3)) if rnd.random() < 0.7 else None
            p.append('BYSECOND=' + lst([0, 59, 60, 61, 63, 64, 255, -1], 3)) if rnd.random() < 0.7 else None
        p = [q for q in p if q]
    if rnd.random() < 0.25: p.append('SHIFT=' + rnd.choice(['366', '-366', '367', '-400', '1000', '-1000', '32767', '-32768', '40000', '366B', '-366B', '4000B', '-4000B', '16383B', '16384B', '366,366B', '-366,-366B', '-366,366B', '0B', '-0B', '0B+', '-0B-', 'B', '-', ',', '1,', '1B2', '1BB']))
    if rnd.random() < 0.15: p.append('SCALE=' + rnd.choice(HIJRI + ['HIJRI', 'GREGORIAN', 'HIJRI.IIC', 'HIJRI.IIIA', 'HIJRI.IVC', 'NONSENSE']))
    x = rnd.random()
    if x < 0.35: p.append('COUNT=%d' % rnd.choice([0, 1, 2, 63, 64, 65, 127, 128, 129, 1000, 2147483647, 4294967295, 4294967296, -1]))
    elif x < 0.6:
        y, m, d = ds[:3]
        p.append('UNTIL=' + rnd.choice(['19000101', '19010101T000000Z', '%04d%02d%02d' % (y, m, d), '%04d%02d%02dT000000Z' % (y, m, d), '%04d0101' % max(1900, y - 1), '20991231T235959Z', '21000101', '99991231', '20380119T031408Z']))
    rnd.shuffle(p)
    if not p[0].startswith('FREQ') and rnd.random() < 0.7:
        p.remove('FREQ=' + freq); p.insert(0, 'FREQ=' + freq)
    return ';'.join(p)


def hostile_event(rnd, uid):
    y = rnd.choice([1900, 1901, 1902, 1903, 1969, 1970, 1999, 2000, 2037, 2038, 2039, 2076, 2077, 2078, 2096, 2097, 2098, 2099, 2100, 1600, 9999] + year_types())
    m = rnd.randint(1, 12); d = rnd.choice([1, 28, 29, 30, 31, rnd.randint(1, 28)]); d = min(d, dim(y, m)) if rnd.random() < 0.95 else d
    # digits that are no date (the reader takes any eight digits): month 0, 13..99, day 0, 32..99; RDATE/EXDATE lists with such members;
    # now and then an EXDATE or RDATE list next to the rules
    if rnd.random() < 0.06: m = rnd.choice([0, 13, 14, 20, 50, 99])
    if rnd.random() < 0.04: d = rnd.choice([0, 32, 40, 99])
    timed = rnd.random() < 0.7
    ds = (y, m, d, rnd.choice([0, 12, 23]), rnd.choice([0, 30, 59]), rnd.choice([0, 59])) if timed else (y, m, d)
    tz = rnd.choice(ZONES) if timed and rnd.random() < 0.2 else None
    rules = [hostile_rule_text(rnd, ds) for _ in range(rnd.choice([1, 1, 1, 2, 3]))]
    extra = []
    if rnd.random() < 0.15:
        vals = ['%04d%02d%02dT%02d%02d%02dZ' % (rnd.choice([y, y + 1]), rnd.choice([1, 6, 12, 13, 0, 99]), rnd.choice([1, 15, 31, 32, 0]), rnd.choice([0, 23, 24, 25]), rnd.choice([0, 59, 60]), rnd.choice([0, 59, 60, 61])) for _ in range(rnd.randint(1, 5))]
        extra.append(rnd.choice(['RDATE:', 'EXDATE:']) + ','.join(vals))
    return {'uid': uid, 'ds': inst(ds), 'tz': bool(tz), 'rtext': ' | '.join(rules), 'count': 0, 'until': [],
            'ics': event_ics(uid, ds, rules, tzid=tz, extra=extra)}


# ---------------------------------------------------------------- BYEASTER / SHIFT (C17)
def shift_variant(rnd, kind=None, n=None):
    """(SHIFT text, [days, biz, dir, inv]) - the spellings the README and shift.h document"""
    kind = kind or rnd.choice(['d', 'd', 'b', 'b', 'b+', 'z', 'db'])
    if kind == 'd':
        d = n if n is not None else rnd.choice([1, -1, 2, 7, -7, 28, 29, 30, 31, -30, -31, 59, 60, -60, 365, 366, -365, -366, rnd.randint(-366, 366)]) or 1
        return str(d), [d, 0, 0, 0]
    if kind == 'b':
        b = n if n is not None else rnd.choice([1, -1, 2, -2, 3, 4, 5, -5, 6, 10, -10, 21, 22, -23, rnd.randint(-60, 60)]) or 1
        return '%dB' % b, [0, b, 1 if b > 0 else -1, 0]
    if kind == 'b+':
        b = n if n is not None else rnd.choice([1, -1, 2, -2, 5, -5, 7, rnd.randint(-40, 40)]) or 1
        return '%dB%s' % (b, '+' if b > 0 else '-'), [0, b, 1 if b > 0 else -1, 1]
    if kind == 'z':
        t = rnd.choice(['0B', '-0B', '0B+', '0B-'])
        return t, [0, 0, -1 if t in ('-0B', '0B-') else 1, 1]
    d = rnd.choice([1, -1, 3, -3, 16, -16, 30, -30, rnd.randint(-90, 90)]) or 2
    t, sh = shift_variant(rnd, rnd.choice(['b', 'b+', 'z']))
    return '%d,%s' % (d, t), [d] + sh[1:]


def shift_case(rnd, freqs=('YEARLY', 'MONTHLY'), kind=None, n=None, inter1=True):
    """a rule whose unshifted result is known from C01, plus a SHIFT"""
    while True:
        ds, r, tag = random_case(rnd, list(freqs))
        if inter1: r['inter'] = 1
        if not r['pos'] or rnd.random() < 0.3: break
    if len(r['H']) * len(r['M']) * len(r['S']) > 4: r['H'] = r['H'][:1]; r['M'] = r['M'][:2]; r['S'] = r['S'][:1]
    r['shift_text'], r['shift'] = shift_variant(rnd, kind, n)
    # COUNT only where no two dates can be moved onto one (whether COUNT counts the dates before or after they coincide is not stated)
    if r['shift'][2]: r['count'] = 0
    return ds, r, 'shift:' + tag


def easter_case(rnd, ns, shifted=False):
    y = rnd.choice([1901, 1902, 1950, 1999, 2000, 2038, 2090]); m = rnd.randint(1, 12); d = rnd.randint(1, dim(y, m))
    ds = (y, m, d) if rnd.random() < 0.6 else (y, m, d, rnd.randint(0, 23), rnd.choice([0, 30]), 0)
    r = blank('YEARLY', rnd.choice([1, 1, 1, 2, 3]) if not shifted else 1)
    r['easter'] = sorted(ns)
    if shifted: r['shift_text'], r['shift'] = shift_variant(rnd)
    x = rnd.random()
    if x < 0.2: r['count'] = rnd.choice([1, 3, 63, 64, 65, 130])
    return ds, r, 'easter'
