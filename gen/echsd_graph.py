"""Echsd.tla state graph -> harness scripts (E3).  Actions are recovered from the difference of the two states of an edge;
the expected state projection of every step travels with the script so that TLC can report model drift."""
import tlagraph, daemon, rrgen

KEYS = ('now', 'nreq', 'table', 'chld', 'slot', 'mon', 'nextpid')


class States:
    def __init__(self, nodes):
        self.nodes = nodes; self.cache = {}
    def get(self, k):
        if k not in self.cache:
            sv = tlagraph.state_vars(self.nodes[k])
            self.cache[k] = {v: tlagraph.parse_tla(sv[v]) for v in KEYS}
        return self.cache[k]


def slot_of(st, u):
    s = st['table'].get(u, 0)
    return st['slot'][s - 1] if s else None


def projection(st):
    tasks = []
    for u, s in sorted(st['table'].items()):
        if not s: continue
        t = st['slot'][s - 1]
        tasks.append([u, 10 ** 9 if t['at'] >= 1000 else t['at'], t['nrun'], t['nsim'], t['resched'], t['pend']])
    return {'tasks': tasks, 'children': sorted(c['pid'] for c in st['chld'])}


def add_cmd(u, occ, ms, cmds, metas, peer=1000):
    it = {'kind': 'add', 'uid': u, 'occ': list(occ), 'maxsim': ms, 'peer': peer}
    metas[len(cmds)] = [it]
    cmds.append('A\t%d\t%s' % (peer, rrgen.esc(daemon.request([it]))))


def edge_cmd(a, b, cmds, metas):
    """append the harness command that takes state a to state b"""
    if b['now'] != a['now']:
        cmds.append('T\t%d' % (b['now'] - a['now'])); return
    if b['nreq'] != a['nreq']:
        for u in sorted(a['table']):
            if a['table'][u] and not b['table'][u]:
                it = {'kind': 'cancel', 'uid': u, 'peer': 1000}
                metas[len(cmds)] = [it]
                cmds.append('A\t1000\t%s' % rrgen.esc(daemon.request([it], 'CANCEL'))); return
        cand = [u for u in sorted(b['table']) if b['table'][u] and (b['mon'][u] != a['mon'][u] or slot_of(b, u) != slot_of(a, u) or not a['table'][u])]
        u = cand[0] if cand else [x for x in sorted(b['table']) if b['table'][x]][0]
        F = b['mon'][u]['F']
        occ = F if F else [max(0, b['now'] - 1)]
        add_cmd(u, occ, slot_of(b, u)['maxsim'], cmds, metas); return
    pa = {c['pid']: c for c in a['chld']}; pb = {c['pid']: c for c in b['chld']}
    for pid in pb:
        if pid not in pa:
            cmds.append('DP\t%s' % b['slot'][pb[pid]['s'] - 1]['uid']); return
    for pid in pa:
        if pid not in pb:
            cmds.append('DC\t%d' % pid); return
        if pb[pid]['exited'] and not pa[pid]['exited']:
            cmds.append('X\t%d' % pid); return
    for i, (sa, sb) in enumerate(zip(a['slot'], b['slot'])):
        if sa['pend'] and sa['used'] and not sa['gone'] and not (sb['pend'] and sb['used'] and sb['uid'] == sa['uid'] and not sb['gone']):
            cmds.append('DP\t%s' % sa['uid']); return
    for sa, sb in zip(a['slot'], b['slot']):
        if sb['pend'] and not sa['pend']:
            cmds.append('R'); return
    cmds.append('Q')


def scripts_from_graph(dot, max_scripts=None):
    nodes, edges, init = tlagraph.read_dot(dot)
    paths, ncov = tlagraph.cover_paths(edges, init, max_paths=max_scripts)
    S = States(nodes)
    out = []
    for root, p in paths:
        st = S.get(root)
        cmds, metas, model = [], {}, []
        for u in sorted(st['table']):
            add_cmd(u, st['mon'][u]['F'], slot_of(st, u)['maxsim'], cmds, metas)
            model.append(None)
        model[-1] = projection(st)
        cur = st
        for a, v in p:
            nx = S.get(v)
            edge_cmd(cur, nx, cmds, metas)
            model.append(projection(nx))
            cur = nx
        out.append((cmds, metas, model))
    return out, sum(len(v) for v in edges.values()), ncov
