"""TLC state-graph (-dump dot,actionlabels) reader and edge-covering path generator, plus a tiny TLA+ value parser.
Input plumbing for E3 (behaviour replay): it selects which behaviours of the model are replayed, it judges nothing."""
import re, collections


def parse_tla(s):
    """parse TLC's printed values: ints, strings, TRUE/FALSE, <<..>>, {..}, [a |-> v, ..], (k :> v @@ ..)"""
    pos = 0
    def ws():
        nonlocal pos
        while pos < len(s) and s[pos] in ' \n\t': pos += 1
    def val():
        nonlocal pos
        ws()
        if s.startswith('<<', pos):
            pos += 2; out = []
            ws()
            if s.startswith('>>', pos): pos += 2; return out
            while True:
                out.append(val()); ws()
                if s.startswith('>>', pos): pos += 2; return out
                assert s[pos] == ',', s[pos:pos + 20]; pos += 1
        if s[pos] == '{':
            pos += 1; out = []
            ws()
            if s[pos] == '}': pos += 1; return out
            while True:
                out.append(val()); ws()
                if s[pos] == '}': pos += 1; return out
                assert s[pos] == ','; pos += 1
        if s[pos] == '[':
            pos += 1; out = {}
            while True:
                ws(); m = re.match(r'\w+', s[pos:]); k = m.group(0); pos += len(k); ws()
                assert s.startswith('|->', pos); pos += 3
                out[k] = val(); ws()
                if s[pos] == ']': pos += 1; return out
                assert s[pos] == ','; pos += 1
        if s[pos] == '(':
            pos += 1; out = []
            while True:
                k = val(); ws(); assert s.startswith(':>', pos); pos += 2
                v = val(); out.append((k, v)); ws()
                if s[pos] == ')': pos += 1; return out
                assert s.startswith('@@', pos); pos += 2
        if s[pos] == '"':
            e = s.index('"', pos + 1); r = s[pos + 1:e]; pos = e + 1; return r
        m = re.match(r'-?\d+', s[pos:])
        if m: pos += len(m.group(0)); return int(m.group(0))
        m = re.match(r'TRUE|FALSE', s[pos:])
        if m: pos += len(m.group(0)); return m.group(0) == 'TRUE'
        m = re.match(r'\w+', s[pos:])
        pos += len(m.group(0)); return m.group(0)
    return val()


def state_vars(label):
    """label text -> {var: parsed value}"""
    txt = label.replace('\\n', '\n').replace('\\"', '"').replace('\\\\', '\\')
    out = {}
    for part in re.split(r'(?:^|\n)/\\ ', txt):
        if not part.strip(): continue
        k, v = part.split(' = ', 1)
        out[k.strip()] = v
    return out


def read_dot(path, want_vars=None):
    nodes, edges, init = {}, collections.defaultdict(list), []
    node_re = re.compile(r'^(-?\d+) \[label="(.*)"(,style = filled)?\]\s*;?$')
    edge_re = re.compile(r'^(-?\d+) -> (-?\d+) \[label="([^"]*)"')
    with open(path) as f:
        for line in f:
            m = edge_re.match(line)
            if m:
                edges[m.group(1)].append((m.group(3), m.group(2))); continue
            m = node_re.match(line.rstrip('\n'))
            if m:
                if m.group(1) not in nodes:
                    nodes[m.group(1)] = m.group(2)
                    if m.group(3): init.append(m.group(1))
    return nodes, edges, init


def cover_paths(edges, init, max_paths=None, rnd=None):
    """paths (lists of (action, target)) from initial states that together traverse every edge reachable from them"""
    parent = {}
    order = []
    dq = collections.deque()
    for i in init:
        parent[i] = None; dq.append(i)
    while dq:
        u = dq.popleft(); order.append(u)
        for a, v in edges.get(u, ()):
            if v not in parent:
                parent[v] = (u, a); dq.append(v)
    covered = set()
    paths = []
    def tree_path(u):
        p = []
        while parent[u] is not None:
            pu, a = parent[u]; p.append((a, u)); u = pu
        p.reverse(); return u, p
    for u in order:
        for k, (a, v) in enumerate(edges.get(u, ())):
            if (u, k) in covered: continue
            root, p = tree_path(u)
            # mark tree path edges as covered too
            x = root
            for (pa, pv) in p:
                for kk, (ea, ev) in enumerate(edges[x]):
                    if ea == pa and ev == pv: covered.add((x, kk)); break
                x = pv
            covered.add((u, k)); p.append((a, v)); x = v
            # extend greedily along uncovered edges
            seen = 0
            while True:
                nxt = None
                for kk, (ea, ev) in enumerate(edges.get(x, ())):
                    if (x, kk) not in covered and ev != x:
                        nxt = (kk, ea, ev); break
                if nxt is None or seen > 200: break
                covered.add((x, nxt[0])); p.append((nxt[1], nxt[2])); x = nxt[2]; seen += 1
            paths.append((root, p))
            if max_paths and len(paths) >= max_paths: return paths, len(covered)
    return paths, len(covered)
