----------------------------- MODULE TraceOrder -----------------------------
(* E2 for C16 (and the liveness half of C09): a monitor over the           *)
(* occurrences popped from one event's stream - any rule the parser        *)
(* accepts, extensions included.  No reference set is needed:              *)
(*   strictly increasing; none before DTSTART; none after UNTIL; never     *)
(*   more than COUNT; and the stream was obtained without crash or         *)
(*   time-out (those records have no acceptable form).                     *)
(* For TZID events DTSTART is a wall-clock value; the UTC occurrences are   *)
(* compared with it with a one-day allowance.  A date-time UNTIL is a UTC   *)
(* value whatever the zone of DTSTART (RFC 5545 3.3.10) and the occurrences *)
(* are UTC values: that bound is exact; a date-valued UNTIL of a zoned      *)
(* event keeps the one-day allowance.                                       *)
EXTENDS RRule, TLC, Json, IOUtils
Tr == ndJsonDeserialize(IOEnv.TRACE)
Slack(r) == IF r.tz THEN 1 ELSE 0
USlack(r) == IF r.tz /\ r.until[4] = 255 THEN 1 ELSE 0
(* PROP=C09 judges only the liveness/safety half: the stream was obtained, whatever is in it *)
Prop == IF "PROP" \in DOMAIN IOEnv THEN IOEnv.PROP ELSE "C16"
Verdict(r) ==
  IF "crash" \in DOMAIN r \/ "timeout" \in DOMAIN r THEN "bad"
  ELSE IF "noevent" \in DOMAIN r THEN "skip"                 \* the parser did not accept the event
  ELSE IF Prop = "C09" THEN "ok"
  ELSE LET occ == [i \in 1..Len(r.occ) |-> Pair(I(r.occ[i]))]
           ds == Pair(I(r.ds)) IN
    IF /\ \A i \in 1..(Len(occ) - 1) : PLt(occ[i], occ[i + 1])
       /\ \A i \in 1..Len(occ) : WF(I(r.occ[i]))
       /\ \A i \in 1..Len(occ) : ~PLt(occ[i], <<ds[1] - Slack(r), ds[2]>>)
       /\ (r.until # <<>> => LET u == Pair(I(r.until)) IN \A i \in 1..Len(occ) : ~PLt(<<u[1] + USlack(r), u[2]>>, occ[i]))
       /\ (r.count > 0 => Len(occ) <= r.count)
       /\ r.peekmism = 0
    THEN "ok" ELSE "bad"
N == Len(Tr)
BadSet == {k \in 1..N : Verdict(Tr[k]) = "bad"}
SkipSet == {k \in 1..N : Verdict(Tr[k]) = "skip"}
ASSUME JsonSerialize(IOEnv.OUT, [n |-> N, nbad |-> Cardinality(BadSet), nskip |-> Cardinality(SkipSet), bad |-> BadSet])
=============================================================================
