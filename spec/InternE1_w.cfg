SPECIFICATION Spec
CONSTANTS
 Keys <- KeysV
 Hash <- HashW
 NPROBE = 2
 W0 = 2
INVARIANT AllFound
INVARIANT StoredOnce
CHECK_DEADLOCK FALSE
