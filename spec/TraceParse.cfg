\* constant-level evaluation only
