---------------------------- MODULE TraceJournal ----------------------------
(* E2 for Journal.tla: the journal file left behind by N real executors     *)
(* that finished at about the same time is read as a sequence of line kinds *)
(* <<"B">>, <<"U", uid>>, <<"X">> (any other line), <<"E">> - tokenising    *)
(* only - and judged here: it must be a concatenation of whole entries      *)
(* B (U|X)* E with exactly one U each, and the uids are exactly the expected *)
(* ones, each once.                                                          *)
EXTENDS Integers, Sequences, FiniteSets, TLC, Json, IOUtils
Tr == ndJsonDeserialize(IOEnv.TRACE)
RECURSIVE Scan(_, _, _, _, _)
(* returns the sequence of uids of the well-formed entries, or <<"!">> at the first structural error *)
Scan(toks, i, inside, nuid, acc) ==
  IF i > Len(toks) THEN (IF inside THEN <<"!">> ELSE acc)
  ELSE LET t == toks[i] IN
       CASE t[1] = "B" -> IF inside THEN <<"!">> ELSE Scan(toks, i + 1, TRUE, 0, acc)
         [] t[1] = "E" -> IF ~inside \/ nuid # 1 THEN <<"!">> ELSE Scan(toks, i + 1, FALSE, 0, acc)
         [] t[1] = "U" -> IF ~inside \/ nuid # 0 THEN <<"!">> ELSE Scan(toks, i + 1, TRUE, 1, Append(acc, t[2]))
         [] OTHER -> IF ~inside THEN <<"!">> ELSE Scan(toks, i + 1, inside, nuid, acc)
Verdict(r) ==
  LET u == Scan(r.toks, 1, FALSE, 0, <<>>) IN
  IF u # <<"!">> /\ Len(u) = Len(r.expect) /\ {u[i] : i \in 1..Len(u)} = {r.expect[i] : i \in 1..Len(r.expect)} /\ r.rcs = <<>> THEN "ok" ELSE "bad"
N == Len(Tr)
BadSet == {k \in 1..N : Verdict(Tr[k]) = "bad"}
ASSUME JsonSerialize(IOEnv.OUT, [n |-> N, nbad |-> Cardinality(BadSet), nskip |-> 0, bad |-> BadSet])
=============================================================================
