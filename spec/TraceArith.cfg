\* constant-level evaluation only (ASSUME); no behaviour spec
