----------------------------- MODULE TraceChkpnt -----------------------------
(* E2 for C06: one line = one experiment: a request history on the real    *)
(* daemon code with system-call tracing, a crash or a single failing call   *)
(* at the k-th checkpoint system call, then a restart on the same spool.    *)
(* The disk contract of Chkpnt.tla is evaluated on what was observed.       *)
EXTENDS DaemonContract, TLC, Json, IOUtils
Tr == ndJsonDeserialize(IOEnv.TRACE)

UserOfArg(a) == a     \* the driver logs ".echsq_<uid>.ics"; users are compared through the file facts' names
IsSys(e, call) == e.e = "Sys" /\ e.call = call
Faulted(ev, i) == i < Len(ev) /\ ev[i + 1].e \in {"Crash", "Fail"} /\ ev[i + 1].k = ev[i].k
TasksOfUser(M, u) == {m[1] : m \in {x \in M : x[2] = u}}
NameOf(u) == u
RECURSIVE Walk(_, _, _, _, _)
(* the state a daemon starts from when it loads a spool: the queue is what the files hold *)
(* M: queue map; snap: function dotname -> task set being written; disk: set of <<dotname, task set>> (last finished image per file) *)
Walk(ev, i, M, snap, disk) ==
  IF i > Len(ev) THEN [M |-> M, disk |-> disk]
  ELSE LET e == ev[i] IN
    IF e.e = "Req" THEN Walk(ev, i + 1, ApplyAll(M, e.peer, e.items, 1), snap, disk)
    ELSE IF IsSys(e, "openat") /\ ~Faulted(ev, i)
         THEN Walk(ev, i + 1, M, {s \in snap : s[1] # e.arg} \cup {<<e.arg, e.owner, TasksOfUser(M, e.owner)>>}, disk)
    ELSE IF IsSys(e, "renameat") /\ ~Faulted(ev, i)
         THEN LET s == CHOOSE x \in snap : x[1] = e.arg IN
              Walk(ev, i + 1, M, snap, {d \in disk : d[1] # s[2]} \cup {<<s[2], s[3]>>})
    ELSE Walk(ev, i + 1, M, snap, disk)
Crashed(r) == \E i \in 1..Len(r.ev) : r.ev[i].e = "Crash"
ShutdownUndisturbed(ev) ==
  \E i \in 1..Len(ev) : ev[i].e = "Shutdown" /\ ~\E j \in i..Len(ev) : ev[j].e = "Fail"
FileOk(f) == f.endsright /\ f.nbeginvcal = 1 /\ f.nendvcal = 1 /\ f.nbeginvev = f.nendvev /\ Len(f.uids) = f.nbeginvev
(* one life of the daemon: events ev starting from queue M0 / disk image disk0, then the files found and what a restart arms *)
LifeOk(ev, M0, disk0, files, armed, crashed) ==
  LET w == Walk(ev, 1, M0, {}, disk0)
      lives == SelectSeq(files, LAMBDA f : ~f.dot)
      users == {d[1] : d \in w.disk}
  IN
     (* every live queue file is a complete calendar holding exactly the last finished image of its user *)
     /\ \A i \in 1..Len(lives) : FileOk(lives[i]) /\ \E d \in w.disk : d[1] = lives[i].user /\ SeqSet(lives[i].uids) = d[2]
     /\ \A d \in w.disk : \E i \in 1..Len(lives) : lives[i].user = d[1]
     (* the restarted daemon arms exactly those tasks, each with its owner *)
     /\ {<<a[1], a[2]>> : a \in SeqSet(armed)} = UNION {{<<t, d[1]>> : t \in d[2]} : d \in w.disk}
     (* a clean shutdown has saved every acknowledged change *)
     (* (if the shutdown checkpoint itself hits the failing call there is no later one to make up for it) *)
     /\ ((~crashed /\ ShutdownUndisturbed(ev)) => \A u \in {m[2] : m \in w.M} \cup users : TasksOfUser(w.M, u) = (IF \E d \in w.disk : d[1] = u THEN (CHOOSE d \in w.disk : d[1] = u)[2] ELSE {}))
Verdict(r) ==
  IF r.rc2 # 0 \/ r.rc3 # 0 \/ (r.rc # 0 /\ ~Crashed(r)) THEN "bad"          \* the daemon itself died (not by our crash) or could not restart
  ELSE LET w1 == Walk(r.ev, 1, {}, {}, {})
           M1 == {<<a[1], a[2]>> : a \in SeqSet(r.armed)}
       IN IF /\ LifeOk(r.ev, {}, {}, r.files, r.armed, Crashed(r))
             (* second life on the same spool, stale dot files of the first one included *)
             /\ LifeOk(r.ev3, M1, w1.disk, r.files3, r.armed3, FALSE)
          THEN "ok" ELSE "bad"
N == Len(Tr)
BadSet == {k \in 1..N : Verdict(Tr[k]) = "bad"}
ASSUME JsonSerialize(IOEnv.OUT, [n |-> N, nbad |-> Cardinality(BadSet), nskip |-> 0, bad |-> BadSet])
=============================================================================
