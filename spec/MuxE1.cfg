SPECIFICATION Spec
INVARIANT Contract
CHECK_DEADLOCK FALSE
