\* x
