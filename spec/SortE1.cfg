SPECIFICATION Spec
INVARIANT ContractAcceptsReference
INVARIANT ContractRejectsTranspositions
INVARIANT ContractRejectsLossAndDup
INVARIANT AllDayFirstInOrder
CHECK_DEADLOCK FALSE
