SPECIFICATION Spec
CONSTANTS H = 2
          MaxId = 7
          Variant = "asfound"
INVARIANT SlotsSound
PROPERTIES NoTakeover RefusedOnlyWhenFull
CHECK_DEADLOCK FALSE
