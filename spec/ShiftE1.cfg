SPECIFICATION Spec
INVARIANT LandsOnBiz
INVARIANT ExactCount
INVARIANT Undone
INVARIANT PlainVsMarked
INVARIANT Monotone
INVARIANT DayShift
INVARIANT ZeroForms
INVARIANT EasterOk1
CHECK_DEADLOCK FALSE
