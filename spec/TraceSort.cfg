\* constant-level evaluation only
