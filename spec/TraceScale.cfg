\* constant-level evaluation only
