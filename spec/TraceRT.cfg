\* constant-level evaluation only
