----------------------------- MODULE RuleStream -----------------------------
(* I-level model of the occurrence cache of a rule stream (src/evical.c:   *)
(* struct evrrul_s, refill(), next_evrrul()): the filler is asked for up    *)
(* to C occurrences starting at the seed instant; when it delivers a full   *)
(* cache the last one is held back as the seed of the next refill (it is    *)
(* generated again as the first member then); COUNT is decremented by what  *)
(* was cached.  The filler here is ideal: the recurrence set is 1..N and    *)
(* Fill(seed, n) returns its next n members from seed on.                    *)
(* What the filler delivers is then corrected (zone offset differences,     *)
(* scale conversion; in the code also business-day shifts collapse dates):  *)
(* corr maps filler instant i to the instant that is cached.  corr need not *)
(* be injective or monotone (wall-clock gap of a zone transition), so the   *)
(* cache load is sorted and only instants strictly after the latest cached  *)
(* one (lst) are kept; a cache load that is dropped entirely is refilled.   *)
EXTENDS Integers, Sequences, SequencesExt, FiniteSets
CONSTANTS C, N, Counts,       \* cache size, size of the set, the COUNT values tried (-1 = none)
          Corrs                \* the correction maps tried, each in [1..N -> Nat \ {0}]
VARIABLES seed, count, cch, rdi, popped, lastpeek, ended, corr, lst
vars == <<seed, count, cch, rdi, popped, lastpeek, ended, corr, lst>>
Min2(a, b) == IF a < b THEN a ELSE b
Fill(s, n) == [i \in 1..(IF s > N THEN 0 ELSE Min2(n, N - s + 1)) |-> s + i - 1]
Init == seed = 1 /\ count \in Counts /\ cch = <<>> /\ rdi = 0 /\ popped = <<>> /\ lastpeek = 0 /\ ended = FALSE
        /\ corr \in Corrs /\ lst = 0
(* strictly-after filter over a sorted cache load: returns <<kept, new lst>> *)
RECURSIVE After(_, _, _)
After(sq, l, acc) == IF sq = <<>> THEN <<acc, l>>
                     ELSE IF Head(sq) > l THEN After(Tail(sq), Head(sq), Append(acc, Head(sq))) ELSE After(Tail(sq), l, acc)
(* refill(): returns the new state, or "empty" when the stream is over *)
RECURSIVE RefillFrom(_, _, _)
RefillFrom(sd, cn, l) ==
  IF sd = 0 \/ cn = 0 THEN [ok |-> FALSE, seed |-> sd, count |-> cn, cch |-> <<>>, lst |-> l]
  ELSE LET nti == IF cn >= 0 /\ cn < C THEN cn ELSE C
           got == Fill(sd, nti)
           full == Len(got) >= C
           keep == IF full THEN SubSeq(got, 1, C - 1) ELSE got
           cnt2 == IF cn < 0 THEN cn ELSE IF Len(keep) < cn THEN cn - Len(keep) ELSE 0
           sd2 == IF full THEN got[C] ELSE 0
           srt == SortSeq([i \in 1..Len(keep) |-> corr[keep[i]]], <)
           flt == After(srt, l, <<>>)
       IN IF Len(keep) = 0 THEN [ok |-> FALSE, seed |-> sd2, count |-> cnt2, cch |-> <<>>, lst |-> l]
          ELSE IF Len(flt[1]) = 0 THEN RefillFrom(sd2, cnt2, l)        \* goto again
          ELSE [ok |-> TRUE, seed |-> sd2, count |-> cnt2, cch |-> flt[1], lst |-> flt[2]]
Refill == RefillFrom(seed, count, lst)
Next_(popp) ==
  IF rdi >= Len(cch)
  THEN LET r == Refill IN
       IF ~r.ok THEN /\ seed' = r.seed /\ count' = r.count /\ cch' = <<>> /\ rdi' = 0 /\ ended' = TRUE
                      /\ lastpeek' = 0 /\ popped' = popped /\ lst' = r.lst /\ corr' = corr
       ELSE /\ seed' = r.seed /\ count' = r.count /\ cch' = r.cch /\ rdi' = (IF popp THEN 1 ELSE 0)
            /\ popped' = (IF popp THEN Append(popped, r.cch[1]) ELSE popped)
            /\ lastpeek' = (IF popp THEN 0 ELSE r.cch[1]) /\ ended' = ended /\ lst' = r.lst /\ corr' = corr
  ELSE /\ popped' = (IF popp THEN Append(popped, cch[rdi + 1]) ELSE popped)
       /\ rdi' = (IF popp THEN rdi + 1 ELSE rdi)
       /\ lastpeek' = (IF popp THEN 0 ELSE cch[rdi + 1])
       /\ UNCHANGED <<seed, count, cch, ended, corr, lst>>
Peek == ~ended /\ lastpeek = 0 /\ Next_(FALSE)
Pop == ~ended /\ Next_(TRUE)
Next == Peek \/ Pop
Spec == Init /\ [][Next]_vars
Limit == IF count < 0 THEN N ELSE N   \* placeholder for readability
(* the popped sequence is a prefix of the set ... *)
PrefixOfSet == \A i \in 1..Len(popped) : popped[i] = i
(* ... a peek announces the next pop ... *)
PeekIsNextPop == lastpeek # 0 => lastpeek = Len(popped) + 1
(* what send_evrrul()/send_rrul() write when the stream is serialised in this state (checkpoint, submission):    *)
(* DTSTART = the next unread cached occurrence, or the refill seed when the cache is read up; COUNT = what is    *)
(* left of the rule's COUNT plus the unread cached occurrences.  0 = the nul instant, -1 = no COUNT.             *)
SerDs == IF rdi < Len(cch) THEN cch[rdi + 1] ELSE seed
SerCount == IF count < 0 THEN -1 ELSE count + (Len(cch) - rdi)
(* the stream a reader of that text gets (ideal filler again) *)
Reparsed == IF SerDs = 0 \/ SerCount = 0 THEN <<>>
            ELSE LET n == IF SerCount < 0 THEN N - SerDs + 1 ELSE Min2(SerCount, N - SerDs + 1) IN [i \in 1..(IF n < 0 THEN 0 ELSE n) |-> SerDs + i - 1]
(* under an arbitrary correction: strictly increasing, only corrected members of the set, and a peek is still the next pop *)
StrictlyIncreasing == \A i \in 1..(Len(popped) - 1) : popped[i] < popped[i + 1]
OnlyCorrected == \A i \in 1..Len(popped) : \E j \in 1..N : corr[j] = popped[i]
PeekAfterPopped == lastpeek # 0 /\ popped # <<>> => lastpeek > popped[Len(popped)]
=============================================================================
