----------------------------- MODULE RuleStream -----------------------------
(* I-level model of the occurrence cache of a rule stream (src/evical.c:   *)
(* struct evrrul_s, refill(), next_evrrul()): the filler is asked for up    *)
(* to C occurrences starting at the seed instant; when it delivers a full   *)
(* cache the last one is held back as the seed of the next refill (it is    *)
(* generated again as the first member then); COUNT is decremented by what  *)
(* was cached.  The filler here is ideal: the recurrence set is 1..N and    *)
(* Fill(seed, n) returns its next n members from seed on.                    *)
EXTENDS Integers, Sequences
CONSTANTS C, N, Counts        \* cache size, size of the set, the COUNT values tried (-1 = none)
VARIABLES seed, count, cch, rdi, popped, lastpeek, ended
vars == <<seed, count, cch, rdi, popped, lastpeek, ended>>
Min(a, b) == IF a < b THEN a ELSE b
Fill(s, n) == [i \in 1..(IF s > N THEN 0 ELSE Min(n, N - s + 1)) |-> s + i - 1]
Init == seed = 1 /\ count \in Counts /\ cch = <<>> /\ rdi = 0 /\ popped = <<>> /\ lastpeek = 0 /\ ended = FALSE
(* refill(): returns the new state, or "empty" when the stream is over *)
Refill ==
  IF seed = 0 \/ count = 0 THEN [ok |-> FALSE, seed |-> seed, count |-> count, cch |-> cch]
  ELSE LET nti == IF count >= 0 /\ count < C THEN count ELSE C
           got == Fill(seed, nti)
           full == Len(got) >= C
           keep == IF full THEN SubSeq(got, 1, C - 1) ELSE got
           cnt2 == IF count < 0 THEN count ELSE IF Len(keep) < count THEN count - Len(keep) ELSE 0
       IN [ok |-> Len(keep) > 0, seed |-> IF full THEN got[C] ELSE 0, count |-> cnt2, cch |-> keep]
Next_(popp) ==
  IF rdi >= Len(cch)
  THEN LET r == Refill IN
       IF ~r.ok THEN /\ seed' = r.seed /\ count' = r.count /\ cch' = <<>> /\ rdi' = 0 /\ ended' = TRUE
                      /\ lastpeek' = 0 /\ popped' = popped
       ELSE /\ seed' = r.seed /\ count' = r.count /\ cch' = r.cch /\ rdi' = (IF popp THEN 1 ELSE 0)
            /\ popped' = (IF popp THEN Append(popped, r.cch[1]) ELSE popped)
            /\ lastpeek' = (IF popp THEN 0 ELSE r.cch[1]) /\ ended' = ended
  ELSE /\ popped' = (IF popp THEN Append(popped, cch[rdi + 1]) ELSE popped)
       /\ rdi' = (IF popp THEN rdi + 1 ELSE rdi)
       /\ lastpeek' = (IF popp THEN 0 ELSE cch[rdi + 1])
       /\ UNCHANGED <<seed, count, cch, ended>>
Peek == ~ended /\ lastpeek = 0 /\ Next_(FALSE)
Pop == ~ended /\ Next_(TRUE)
Next == Peek \/ Pop
Spec == Init /\ [][Next]_vars
Limit == IF count < 0 THEN N ELSE N   \* placeholder for readability
(* the popped sequence is a prefix of the set ... *)
PrefixOfSet == \A i \in 1..Len(popped) : popped[i] = i
(* ... a peek announces the next pop ... *)
PeekIsNextPop == lastpeek # 0 => lastpeek = Len(popped) + 1
=============================================================================
