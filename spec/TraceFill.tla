------------------------------ MODULE TraceFill ------------------------------
(* E2 for C09 at the filler interface (the rrul_fill_ functions of evrrul.h): what  *)
(* RuleStream.tla assumes of Fill(seed, n) is checked on every recorded     *)
(* call of the real fillers on a heap buffer of exactly the cache size:     *)
(*   the call returned (no crash, no time-out, no sanitizer report),        *)
(*   it delivered at most the n instants asked for,                         *)
(*   it wrote to no slot beyond those n (and their group stamps),           *)
(*   and - Gregorian rules - nothing it delivered lies before the seed.     *)
EXTENDS RRule, TLC, Json, IOUtils
Tr == ndJsonDeserialize(IOEnv.TRACE)
Verdict(r) ==
  IF "crash" \in DOMAIN r \/ "timeout" \in DOMAIN r THEN "bad"
  ELSE IF "norule" \in DOMAIN r THEN "skip"
  ELSE IF /\ r.n <= r.nti
          /\ r.touched = 0
          /\ Len(r.occ) = r.n
          /\ (~r.scaled => \A i \in 1..Len(r.occ) : ~PLt(Pair(I(r.occ[i])), Pair(I(r.ds))))
       THEN "ok" ELSE "bad"
N == Len(Tr)
BadSet == {k \in 1..N : Verdict(Tr[k]) = "bad"}
SkipSet == {k \in 1..N : Verdict(Tr[k]) = "skip"}
ASSUME JsonSerialize(IOEnv.OUT, [n |-> N, nbad |-> Cardinality(BadSet), nskip |-> Cardinality(SkipSet), bad |-> BadSet])
=============================================================================
