---------------------------- MODULE TraceArith ----------------------------
(* E2 for C08: every recorded call of the instant arithmetic in /repo/src *)
(* is judged against Instant.tla.  Records are independent calls of a     *)
(* sequential library, so the trace spec has no state: TLC evaluates the  *)
(* verdict of every line and writes the set of mismatching line numbers.  *)
EXTENDS Instant, FiniteSets, TLC, Json, IOUtils

Tr == ndJsonDeserialize(IOEnv.TRACE)

Crashed(r) == "crash" \in DOMAIN r

InRange(i) == i.y \in 1901..2099

Verdict(r) ==
  IF Crashed(r) THEN "bad" ELSE
  CASE r.e = "Diff" ->
         LET a == I(r.a) b == I(r.b) IN
         IF ~(DiffDefined(a, b) /\ InRange(a) /\ InRange(b)) THEN "skip"
         ELSE IF r.r = Diff(a, b) THEN "ok" ELSE "bad"
    [] r.e = "Add" ->
         LET a == I(r.a) IN
         IF ~(AddDefined(a, r.d) /\ InRange(a)) THEN "skip"
         ELSE LET x == Add(a, r.d) IN
              IF ~InRange(x) THEN "skip"
              ELSE IF r.r = Tup(x) THEN "ok" ELSE "bad"
    [] r.e = "Fix" ->
         LET a == I(r.a) x == Fixup(a) IN
         IF ~InRange(x) THEN "skip" ELSE IF r.r = Tup(x) THEN "ok" ELSE "bad"
    [] r.e = "ToEp" ->
         LET a == I(r.a) IN
         IF ~(WF(a) /\ InRange(a) /\ ~AllDay(a)) THEN "skip"
         ELSE IF r.r = ToEpoch(a) THEN "ok" ELSE "bad"
    [] r.e = "FromEp" ->
         (* unix time has second resolution: the instant is the whole second (ms field = "all of the second", 1023), not some *)
         (* millisecond of it                                                                                                  *)
         LET x == FromEpoch(r.t) IN
         IF ~InRange(x) THEN "skip"
         ELSE IF SubSeq(r.r, 1, 6) = SubSeq(Tup(x), 1, 6) /\ r.r[7] = 1023 THEN "ok" ELSE "bad"
    [] r.e = "Tstamp" ->
         LET a == I(r.a) IN
         IF ~(WF(a) /\ InRange(a)) THEN "skip"
         ELSE IF r.r = ToEpoch(a) THEN "ok" ELSE "bad"
    [] r.e = "Cmp" ->
         LET a == I(r.a) b == I(r.b) IN
         IF ~(WF(a) /\ WF(b)) THEN "skip"
         ELSE IF r.lt = Lt(a, b) /\ r.le = Le(a, b) /\ r.eq = (a = b) THEN "ok" ELSE "bad"
    [] OTHER -> "bad"

N == Len(Tr)
BadSet == {k \in 1..N : Verdict(Tr[k]) = "bad"}
SkipSet == {k \in 1..N : Verdict(Tr[k]) = "skip"}
(* evaluated once by TLC; the verdict file is the only output *)
ASSUME JsonSerialize(IOEnv.OUT, [n |-> N, nbad |-> Cardinality(BadSet), nskip |-> Cardinality(SkipSet), bad |-> BadSet])
=============================================================================
