---------------------------- MODULE RuleStreamE1 ----------------------------
EXTENDS RuleStream, IOUtils, TLC
VARIABLE count0
CountsV == (0..9) \cup {-1}
Ident == {[i \in 1..N |-> i]}
(* correction maps with duplicates and set-backs: non-decreasing maps, and maps with one gap where a run of    *)
(* members is moved back onto earlier instants (zone transition)                                               *)
GapMaps == {[i \in 1..N |-> IF i >= g THEN i - w ELSE i] : g \in 2..N, w \in 1..3} \cup
           {[i \in 1..N |-> IF i >= g /\ i < g + w THEN g - 1 ELSE i] : g \in 2..N, w \in 1..N}
CorrsV == Ident \cup {m \in GapMaps : \A i \in 1..N : m[i] >= 1}
InitE == Init /\ count0 = count
NextE == Next /\ UNCHANGED count0
SpecE == InitE /\ [][NextE]_<<vars, count0>>
(* C05: serialised at ANY point of its life the stream describes exactly the occurrences not yet consumed *)
Total == IF count0 < 0 \/ count0 > N THEN N ELSE count0
SerialiseOk == ~ended => Reparsed = [i \in 1..(Total - Len(popped)) |-> Len(popped) + i]
(* when the correction only collapses members (non-decreasing) nothing but the duplicates is lost *)
NonDecr == \A i \in 1..(N - 1) : corr[i] <= corr[i + 1]
NothingLost == (ended /\ NonDecr /\ count0 < 0) => {popped[i] : i \in 1..Len(popped)} = {corr[j] : j \in 1..N}
(* ... and it ends exactly when COUNT or the set is exhausted *)
EndsRight == ended => Len(popped) = (IF count0 < 0 \/ count0 > N THEN N ELSE count0)
NeverTooMany == count0 >= 0 => Len(popped) <= count0
=============================================================================
