---------------------------- MODULE RuleStreamE1 ----------------------------
EXTENDS RuleStream, IOUtils, TLC
VARIABLE count0
CountsV == (0..9) \cup {-1}
InitE == Init /\ count0 = count
NextE == Next /\ UNCHANGED count0
SpecE == InitE /\ [][NextE]_<<vars, count0>>
(* ... and it ends exactly when COUNT or the set is exhausted *)
EndsRight == ended => Len(popped) = (IF count0 < 0 \/ count0 > N THEN N ELSE count0)
NeverTooMany == count0 >= 0 => Len(popped) <= count0
=============================================================================
