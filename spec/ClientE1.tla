------------------------------ MODULE ClientE1 ------------------------------
(* E1 for Client.tla: every history of add / cancel / edit invocations by  *)
(* three peers over two UIDs and two commands (requests of up to two        *)
(* items): a UID never has two owners, an invocation changes the holdings   *)
(* of the invoking user only, the replies tell what happened, and a         *)
(* listing never shows a task of somebody else unless root asks.            *)
EXTENDS Client, TLC
CONSTANTS U, C
Ev(u, c) == [uid |-> u, cmd |-> c, cwd |-> "/", umask |-> 18, start |-> "s"]
Evs == {<<Ev(u, c)>> : u \in U, c \in C} \cup {<<Ev(u1, c1), Ev(u2, c2)>> : u1 \in U, u2 \in U, c1 \in C, c2 \in C}
Ids == {<<u>> : u \in U} \cup {<<u1, u2>> : u1 \in U, u2 \in U}
VARIABLES who, rep, req
v2 == <<q, who, rep, req>>
InitE == Init /\ who = Root /\ rep = <<>> /\ req = <<>>
NextE == \E p \in Users :
          \/ \E evs \in Evs : Add(p, evs) /\ who' = p /\ rep' = AddReplies(q, p, evs, 1) /\ req' = [k \in 1..Len(evs) |-> evs[k].uid]
          \/ \E ids \in Ids : Cancel(p, ids) /\ who' = p /\ rep' = CancelReplies(q, p, ids, 1) /\ req' = <<>>
          \/ \E u \in U, c \in C : Edit(p, u, c) /\ who' = p /\ rep' = <<>> /\ req' = <<>>
SpecE == InitE /\ [][NextE]_v2
OnlyOwn == [][OthersUntouched(who')]_v2
(* an added item answered SUCCESS is in the invoking user's hands afterwards (the last item of a UID decides the command) *)
RepliesTrue == \A k \in 1..Len(req) : rep[k] = "SUCCESS" => Has(q, req[k]) /\ Get(q, req[k]).owner = who
NoPeeking == \A p \in Users, w \in Users : p # Root /\ p # w => Shown(q, p, w, {}) = {}
RootSeesAll == \A w \in Users : Shown(q, Root, w, {}) = Mine(q, w)
=============================================================================
