\* constant-level evaluation only
