\* constant-level evaluation only
