------------------------------ MODULE TraceMux ------------------------------
(* E2/E3 for C03: each line is one complete run of the real merge         *)
(* (constituents, op string, results).  A-level: MergeContract decides.   *)
(* I-level: the deterministic model MuxRun predicts the exact results; a  *)
(* difference that still satisfies the contract is reported as drift.     *)
EXTENDS Streams, TLC, Json, IOUtils
Tr == ndJsonDeserialize(IOEnv.TRACE)
Cons(r) == [k \in 1..Len(r.cons) |-> [i \in 1..Len(r.cons[k]) |-> <<r.cons[k][i][1], r.cons[k][i][2]>>]]
Res(r) == [i \in 1..Len(r.res) |-> IF Len(r.res[i]) = 0 THEN Nul ELSE <<r.res[i][1], r.res[i][2]>>]
WellFormedRun(r) == \A k \in 1..Len(r.cons) : \A i \in 1..(Len(r.cons[k]) - 1) : r.cons[k][i][1] <= r.cons[k][i + 1][1]
Verdict(r) ==
  IF "crash" \in DOMAIN r \/ "badparse" \in DOMAIN r THEN "bad"
  ELSE IF ~WellFormedRun(r) THEN "skip"
  ELSE IF MergeContract(Cons(r), r.ops, Res(r)) THEN "ok" ELSE "bad"
(* empty constituents never enter the real mux *)
Live(c) == SelectSeq(c, LAMBDA s : Len(s) > 0)
Drift(r) == "crash" \notin DOMAIN r /\ WellFormedRun(r) /\ Len(Live(Cons(r))) >= 2 /\ MuxRun(Live(Cons(r)), r.ops) # Res(r)
N == Len(Tr)
BadSet == {k \in 1..N : Verdict(Tr[k]) = "bad"}
SkipSet == {k \in 1..N : Verdict(Tr[k]) = "skip"}
DriftSet == {k \in 1..N : Drift(Tr[k])}
ASSUME JsonSerialize(IOEnv.OUT, [n |-> N, nbad |-> Cardinality(BadSet), nskip |-> Cardinality(SkipSet), bad |-> BadSet, ndrift |-> Cardinality(DriftSet), drift |-> DriftSet])
=============================================================================
