------------------------------- MODULE Cal -------------------------------
(* Proleptic Gregorian calendar arithmetic on TLC's 32-bit integers.      *)
(* Day numbers count from 1970-01-01 = 0.  Weekdays: Mon=1 .. Sun=7.      *)
(* This module is the A-level (contract) calendar for every other spec.  *)
EXTENDS Integers, Sequences

IsLeap(y) == (y % 4 = 0) /\ ((y % 100 # 0) \/ (y % 400 = 0))

DIM(y, m) ==
  CASE m \in {1,3,5,7,8,10,12} -> 31
    [] m \in {4,6,9,11} -> 30
    [] m = 2 -> IF IsLeap(y) THEN 29 ELSE 28
    [] OTHER -> 0

DIY(y) == IF IsLeap(y) THEN 366 ELSE 365

(* Howard Hinnant's days_from_civil, valid for y >= 1 *)
DaysFromCivil(y, m, d) ==
  LET yy  == IF m <= 2 THEN y - 1 ELSE y
      era == yy \div 400
      yoe == yy - (era * 400)
      mp  == IF m > 2 THEN m - 3 ELSE m + 9
      doy == (((153 * mp) + 2) \div 5) + (d - 1)
      doe == (yoe * 365) + (yoe \div 4) - (yoe \div 100) + doy
  IN  (era * 146097) + doe - 719468

CivilFromDays(z0) ==
  LET z   == z0 + 719468
      era == z \div 146097
      doe == z - (era * 146097)
      yoe == (doe - (doe \div 1460) + (doe \div 36524) - (doe \div 146096)) \div 365
      y   == yoe + (era * 400)
      doy == doe - ((365 * yoe) + (yoe \div 4) - (yoe \div 100))
      mp  == ((5 * doy) + 2) \div 153
      d   == doy - (((153 * mp) + 2) \div 5) + 1
      m   == IF mp < 10 THEN mp + 3 ELSE mp - 9
  IN  [y |-> IF m <= 2 THEN y + 1 ELSE y, m |-> m, d |-> d]

ValidDate(y, m, d) == m \in 1..12 /\ d >= 1 /\ d <= DIM(y, m)

(* Mon=1 .. Sun=7; 1970-01-01 (day 0) was a Thursday *)
WeekdayOfDays(n) == ((n + 3) % 7) + 1
Weekday(y, m, d) == WeekdayOfDays(DaysFromCivil(y, m, d))

YearDay(y, m, d) == DaysFromCivil(y, m, d) - DaysFromCivil(y, 1, 1) + 1

(* date of the n-th day of year y (n in 1..DIY), as a day number *)
DaysOfYearDay(y, n) == DaysFromCivil(y, 1, 1) + (n - 1)

(* ISO 8601: week 1 is the week (Mon..Sun) containing 4 January *)
ISOWeek1Monday(y) ==
  LET j4 == DaysFromCivil(y, 1, 4) IN j4 - (WeekdayOfDays(j4) - 1)
WeeksInYear(y) == (ISOWeek1Monday(y + 1) - ISOWeek1Monday(y)) \div 7
ISOWeekOfDays(n) ==
  LET c  == CivilFromDays(n)
      wy == IF n < ISOWeek1Monday(c.y) THEN c.y - 1
            ELSE IF n >= ISOWeek1Monday(c.y + 1) THEN c.y + 1 ELSE c.y
  IN  [y |-> wy, w |-> ((n - ISOWeek1Monday(wy)) \div 7) + 1]

(* the k-th (k>0 from the front, k<0 from the back) weekday w in [lo, hi] *)
(* (day numbers); returns -1000000 when there is none                     *)
NoDay == -1000000
NthWeekdayIn(lo, hi, w, k) ==
  IF k > 0
  THEN LET first == lo + ((w - WeekdayOfDays(lo) + 7) % 7)
           r == first + (7 * (k - 1))
       IN IF r <= hi THEN r ELSE NoDay
  ELSE LET last == hi - ((WeekdayOfDays(hi) - w + 7) % 7)
           r == last + (7 * (k + 1))
       IN IF r >= lo THEN r ELSE NoDay

(* Easter Sunday, anonymous Gregorian computus (Meeus/Jones/Butcher) *)
Easter(y) ==
  LET a == y % 19
      b == y \div 100
      c == y % 100
      d == b \div 4
      e == b % 4
      f == (b + 8) \div 25
      g == (b - f + 1) \div 3
      h == ((19 * a) + b - d - g + 15) % 30
      i == c \div 4
      k == c % 4
      l == (32 + (2 * e) + (2 * i) - h - k) % 7
      mm == (a + (11 * h) + (22 * l)) \div 451
      mon == (h + l - (7 * mm) + 114) \div 31
      day == ((h + l - (7 * mm) + 114) % 31) + 1
  IN  [m |-> mon, d |-> day]
EasterDays(y) == LET e == Easter(y) IN DaysFromCivil(y, e.m, e.d)

IsBizDay(n) == WeekdayOfDays(n) <= 5
=============================================================================
