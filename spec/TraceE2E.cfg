\* constant-level evaluation only
