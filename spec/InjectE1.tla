------------------------------ MODULE InjectE1 ------------------------------
(* E1 for C11: the credential decision of _inject_task1() / _eject_task1() *)
(* (I-level, the code's case analysis over peer, X-ECHS-OWNER and the       *)
(* owner of an already queued task, for a root and a non-root daemon)       *)
(* against the map contract DaemonContract!ItemAllowed, for every           *)
(* combination, and every history of up to 3 requests over 2 UIDs.          *)
EXTENDS DaemonContract, TLC
NaU == -1
Peers == {0, 1000, 1001, 4242}
OwnerFields == {-2, 1000, 1001, 4242}     \* -2 = no X-ECHS-OWNER
ComplUid(u) == IF Resolvable(u) THEN u ELSE NaU
(* the case analysis of _inject_task1 for a daemon running as meself *)
InjectDecision(meself, peer, ownerfield, existing) ==
  LET uc == ComplUid(peer)
      oc == IF ownerfield = -2 THEN NaU ELSE ComplUid(ownerfield)
  IN IF peer # NaU /\ uc = NaU THEN FALSE         \* a peer that cannot be resolved is refused
     ELSE IF uc = NaU /\ oc = NaU THEN FALSE
     ELSE IF uc = NaU /\ meself # 0 /\ oc # meself THEN FALSE
     ELSE IF oc = NaU /\ meself # 0 /\ uc # meself THEN FALSE
     ELSE IF uc # NaU /\ oc # NaU /\ oc # uc THEN FALSE
     ELSE LET o2 == IF oc = NaU THEN uc ELSE oc
              u2 == IF uc = NaU THEN oc ELSE uc
          IN IF existing # -1 /\ existing # o2 THEN FALSE
             ELSE ComplUid(u2) # NaU
EjectDecision(peer, existing) == existing # -1 /\ existing = peer
VARIABLES M, hist
Uidz == {"a", "b"}
Init == M = {} /\ hist = 0
Item(kind, u, of) == IF of = -2 THEN [kind |-> kind, uid |-> u] ELSE [kind |-> kind, uid |-> u, owner_uid |-> of]
Step(p, kind, u, of) ==
  /\ hist < 3 /\ hist' = hist + 1
  /\ M' = Apply(M, p, Item(kind, u, of))
Next == \E p \in Peers, kind \in {"add", "cancel"}, u \in Uidz, of \in OwnerFields : Step(p, kind, u, of)
Spec == Init /\ [][Next]_<<M, hist>>
(* requests arrive over the socket: the peer is always a real uid of a live connection, only the daemon's reload passes none *)
DecisionMatchesContract ==
  \A p \in Peers, u \in Uidz, of \in OwnerFields :
    /\ InjectDecision(0, p, of, OwnerIn(M, u)) = ItemAllowed(M, p, Item("add", u, of))
    /\ EjectDecision(p, OwnerIn(M, u)) = ItemAllowed(M, p, Item("cancel", u, -2))
MapIsFunctional == \A m1, m2 \in M : m1[1] = m2[1] => m1 = m2
=============================================================================
