SPECIFICATION Spec
CONSTANTS
 T = 4
 N = 4
INVARIANT NeverWrong
INVARIANT CompleteAtEnd
CHECK_DEADLOCK FALSE
