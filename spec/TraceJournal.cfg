\* constant-level evaluation only
