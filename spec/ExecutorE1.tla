----------------------------- MODULE ExecutorE1 -----------------------------
(* E1 for C13: the descriptor plan of prep_task() (the 20-row table in     *)
(* src/echsx.c) and the pump of data_cb(), as an I-level model: for every   *)
(* row, the job's stdout/stderr descriptors are the temp mail file X, a     *)
(* named file, /dev/null or a pipe; piped streams are pumped token by token *)
(* into the mail file and/or teed into their file.  For every interleaving  *)
(* of two tokens per stream and of the pumps the sinks end up as            *)
(* Executor!RoutingOk prescribes.                                            *)
EXTENDS Executor, TLC
Files == {"", "F1", "F2"}
Rqs == {[so |-> so, se |-> se, mo |-> mo, me |-> me] : so \in {"", "F1"}, se \in Files, mo \in BOOLEAN, me \in BOOLEAN}
(* the plan: where a stream's descriptor points: "X" (temp mail file), a file name, "null", or "pipe" *)
Plan(rq) ==
  LET same == rq.so # "" /\ rq.so = rq.se
      both == rq.so # "" /\ rq.se # ""
  IN
  CASE rq.so = "" /\ rq.se = "" ->
         [o |-> IF rq.mo THEN "X" ELSE "null", e |-> IF rq.me THEN "X" ELSE "null"]
    [] rq.so = "" /\ rq.se # "" ->
         IF rq.mo /\ rq.me THEN [o |-> "pipe", e |-> "pipe"]
         ELSE IF rq.mo THEN [o |-> "X", e |-> rq.se]
         ELSE [o |-> "null", e |-> rq.se]                 \* rows 7, 8: the file doubles as mail file
    [] rq.so # "" /\ rq.se = "" ->
         IF rq.mo /\ rq.me THEN [o |-> "pipe", e |-> "pipe"]
         ELSE IF rq.me THEN [o |-> rq.so, e |-> "X"]
         ELSE [o |-> rq.so, e |-> "null"]                  \* rows 10, 12
    [] same ->
         IF rq.mo = rq.me THEN [o |-> rq.so, e |-> rq.se]  \* rows 13, 16
         ELSE [o |-> "pipe", e |-> "pipe"]                  \* rows 14, 15
    [] OTHER ->
         IF rq.mo /\ rq.me THEN [o |-> "pipe", e |-> "pipe"]  \* row 17
         ELSE [o |-> rq.so, e |-> rq.se]                       \* rows 18, 19, 20
(* which sink is mailed in the end: X, or the file that doubles as mail file *)
MailSrc(rq) ==
  LET p == Plan(rq) IN
  IF ~(rq.mo \/ rq.me) THEN "none"
  ELSE IF p.o = "pipe" THEN "X"
  ELSE IF rq.mo /\ p.o # "null" THEN p.o ELSE IF rq.me /\ p.e # "null" THEN p.e ELSE "X"

VARIABLES rq, sink, pipe, left
vars == <<rq, sink, pipe, left>>
Sinks == {"X", "F1", "F2"}
Init == rq \in Rqs /\ sink = [s \in Sinks |-> <<>>] /\ pipe = [k \in {1, 2} |-> <<>>] /\ left = [k \in {1, 2} |-> 1]
Desc(k) == IF k = 1 THEN Plan(rq).o ELSE Plan(rq).e
Emit(k) == /\ left[k] <= 2
           /\ LET t == <<k, left[k], 7>> d == Desc(k) IN
              /\ left' = [left EXCEPT ![k] = @ + 1]
              /\ IF d = "pipe" THEN pipe' = [pipe EXCEPT ![k] = Append(@, t)] /\ sink' = sink
                 ELSE IF d = "null" THEN UNCHANGED <<pipe, sink>>
                 ELSE sink' = [sink EXCEPT ![d] = Append(@, t)] /\ pipe' = pipe
           /\ UNCHANGED rq
(* data_cb(): one token from the pipe into the mail file (when that stream is mailed) and into the stream's file *)
Pump(k) == /\ pipe[k] # <<>>
           /\ LET t == Head(pipe[k])
                  mailed == IF k = 1 THEN rq.mo ELSE rq.me
                  f == IF k = 1 THEN rq.so ELSE rq.se
                  s1 == IF mailed THEN [sink EXCEPT !["X"] = Append(@, t)] ELSE sink
              IN sink' = IF f # "" THEN [s1 EXCEPT ![f] = Append(@, t)] ELSE s1
           /\ pipe' = [pipe EXCEPT ![k] = Tail(@)] /\ UNCHANGED <<rq, left>>
Next == \E k \in {1, 2} : Emit(k) \/ Pump(k)
Spec == Init /\ [][Next]_vars
Done == left[1] = 3 /\ left[2] = 3 /\ pipe[1] = <<>> /\ pipe[2] = <<>>
Out == << <<1, 1, 7>>, <<1, 2, 7>> >>
Err == << <<2, 1, 7>>, <<2, 2, 7>> >>
ObsNow == [ofile |-> IF rq.so = "" THEN <<>> ELSE sink[rq.so], efile |-> IF rq.se = "" THEN <<>> ELSE sink[rq.se],
           nmail |-> IF MailSrc(rq) = "none" THEN 0 ELSE 1, mail |-> IF MailSrc(rq) = "none" THEN <<>> ELSE sink[MailSrc(rq)], tmpleft |-> <<>>]
PlanRoutesPerContract == Done => RoutingOk(rq, [out |-> Out, err |-> Err], ObsNow)
=============================================================================
