SPECIFICATION Spec
INVARIANT PartitionIndependent
CHECK_DEADLOCK FALSE
