----------------------------- MODULE ConnTableA -----------------------------
(* ConnTable.tla with Apalache type annotations and without the bound on    *)
(* the number of connections: SlotsSound /\ TypeOK is an inductive          *)
(* invariant of the repaired slot search for any number of opens and closes *)
(* (table of 2 * H slots, H a parameter of the run).                         *)
EXTENDS Integers, FiniteSets
CONSTANTS
  \* @type: Int;
  H,
  \* @type: Str;
  Variant
VARIABLES
  \* @type: Set(Int);
  free,
  \* @type: Int -> Int;
  owner,
  \* @type: Int;
  nextid,
  \* @type: Set(Int);
  refused
Slots == 0..(2 * H - 1)
\* @type: (Set(Int)) => Int;
Lowest(S) == CHOOSE x \in S : \A y \in S : x <= y
\* @type: (Set(Int), Int) => Set(Int);
Flip(S, s) == IF s \in S THEN S \ {s} ELSE S \cup {s}
Pick == LET lo == {i \in free : i < H}
            hi == {i \in free : i >= H}
        IN IF lo # {} THEN Lowest(lo)
           ELSE IF hi # {} THEN (IF Variant = "asfound" THEN Lowest(hi) - H ELSE Lowest(hi))
           ELSE -1
ConstInit == H = 32 /\ Variant \in {"repaired"}
ConstInitAsFound == H = 32 /\ Variant \in {"asfound"}
Init == free = Slots /\ owner = [s \in Slots |-> 0] /\ nextid = 1 /\ refused = {}
Open == /\ nextid' = nextid + 1
        /\ LET s == Pick IN
           IF s = -1 THEN refused' = refused \cup {nextid} /\ UNCHANGED <<free, owner>>
           ELSE free' = Flip(free, s) /\ owner' = [owner EXCEPT ![s] = nextid] /\ UNCHANGED refused
Close(s) == /\ owner[s] # 0
            /\ free' = Flip(free, s) /\ owner' = [owner EXCEPT ![s] = 0] /\ UNCHANGED <<nextid, refused>>
Next == Open \/ \E s \in Slots : Close(s)
TypeOK == free \subseteq Slots /\ owner \in [Slots -> Int] /\ nextid >= 1 /\ (\A s \in Slots : owner[s] >= 0 /\ owner[s] < nextid)
SlotsSound == \A s \in Slots : (s \in free) <=> (owner[s] = 0)
IndInv == TypeOK /\ SlotsSound
(* the invariant as a generator of states for the inductive step *)
IndInit == free \in SUBSET Slots /\ owner \in [Slots -> Int] /\ nextid \in Int /\ refused = {} /\ IndInv
=============================================================================
