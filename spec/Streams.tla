------------------------------ MODULE Streams ------------------------------
(* Event-stream combinators of src/evstrm.c / src/evfilt.c.               *)
(* An occurrence is <<t, u>>: start time (an integer) and UID.  A         *)
(* constituent stream is a non-decreasing sequence of occurrences.        *)
(*                                                                         *)
(* A-level: MergeContract - what any correct merge of the constituents    *)
(* may deliver.  I-level: the k-way merge with one-occurrence lookahead   *)
(* of next_evmux(), as a deterministic machine, and the two-pointer       *)
(* exception filter of next_evfilt().                                      *)
EXTENDS Integers, Sequences, FiniteSets

Nul == <<>>
SeqSet(s) == {s[i] : i \in 1..Len(s)}
CountIn(s, x) == Cardinality({i \in 1..Len(s) : s[i] = x})
Mult(cons, x) == LET RECURSIVE Sum(_) Sum(k) == IF k = 0 THEN 0 ELSE CountIn(cons[k], x) + Sum(k - 1) IN Sum(Len(cons))
AllOcc(cons) == UNION {SeqSet(cons[k]) : k \in 1..Len(cons)}

(* ------------------------------------------------------------------ *)
(* A-level contract over a run: ops[i] in {"N" (peek), "P" (pop)},      *)
(* res[i] the occurrence returned (Nul = end of stream)                 *)
Pops(ops, res) == SelectSeq([i \in 1..Len(ops) |-> <<ops[i], res[i]>>], LAMBDA p : p[1] = "P")
MergeContract(cons, ops, res) ==
  LET n == Len(ops)
      pops == Pops(ops, res)
      out == [i \in 1..Len(pops) |-> pops[i][2]]
      live == SelectSeq(out, LAMBDA x : x # Nul)
      all == AllOcc(cons)
  IN
  /\ Len(res) = n
  (* only occurrences of the constituents, each between once and as often as it occurs in total *)
  /\ \A i \in 1..Len(live) : live[i] \in all
  /\ \A x \in SeqSet(live) : CountIn(live, x) = 1
  (* non-decreasing start order *)
  /\ \A i \in 1..(Len(live) - 1) : live[i][1] <= live[i + 1][1]
  (* nothing is skipped: when x is delivered everything earlier has been delivered before *)
  /\ \A i \in 1..Len(live) : \A y \in all : y[1] < live[i][1] => \E j \in 1..(i - 1) : live[j] = y
  (* the stream ends only when all constituents have ended, and stays ended *)
  /\ \A i \in 1..Len(out) : out[i] = Nul =>
        /\ \A y \in all : \E j \in 1..(i - 1) : out[j] = y
        /\ \A j \in i..Len(out) : out[j] = Nul
  (* peeking is pure: a peek returns what the next pop returns, also after several peeks *)
  /\ \A i \in 1..(n - 1) : ops[i] = "N" => res[i + 1] = res[i]

(* ------------------------------------------------------------------ *)
(* I-level: next_evmux().  State: pos[k] = number of occurrences of    *)
(* constituent k consumed, ev[k] = cached lookahead (Nul = exhausted), *)
(* primed = lookahead array filled, freed = constituents released.     *)
HeadOf(cons, pos, k) == IF pos[k] < Len(cons[k]) THEN cons[k][pos[k] + 1] ELSE Nul
MuxInit(cons) == [pos |-> [k \in 1..Len(cons) |-> 0], ev |-> [k \in 1..Len(cons) |-> Nul], primed |-> FALSE, freed |-> FALSE]
MuxPrime(cons, m) == IF m.primed THEN m ELSE [m EXCEPT !.ev = [k \in 1..Len(cons) |-> HeadOf(cons, m.pos, k)], !.primed = TRUE]
(* the scan: first non-nul is the best; a later strictly earlier one replaces it; *)
(* a later one equal (time and uid) to the CURRENT best is dropped from its constituent *)
RECURSIVE MuxScan(_, _, _, _)
MuxScan(cons, m, i, besti) ==
  IF i > Len(cons) THEN [m |-> m, besti |-> besti]
  ELSE LET cur == m.ev[i] best == m.ev[besti] IN
       IF cur = Nul THEN MuxScan(cons, m, i + 1, besti)
       ELSE IF cur[1] < best[1] THEN MuxScan(cons, m, i + 1, i)
       ELSE IF cur = best
            THEN LET p2 == [m.pos EXCEPT ![i] = @ + 1]
                     m2 == [m EXCEPT !.pos = p2, !.ev[i] = HeadOf(cons, p2, i)]
                 IN MuxScan(cons, m2, i + 1, besti)
       ELSE MuxScan(cons, m, i + 1, besti)
MuxNext(cons, m0, popp) ==
  IF m0.freed THEN [m |-> m0, r |-> Nul]
  ELSE LET m == MuxPrime(cons, m0)
           live == {k \in 1..Len(cons) : m.ev[k] # Nul}
       IN IF live = {} THEN [m |-> [m EXCEPT !.freed = TRUE], r |-> Nul]
          ELSE LET first == CHOOSE k \in live : \A j \in live : k <= j
                   sc == MuxScan(cons, m, first + 1, first)
                   best == m.ev[sc.besti]      \* the scan never changes the best slot
                   ms == sc.m
               IN IF ~popp THEN [m |-> ms, r |-> best]
                  ELSE LET p2 == [ms.pos EXCEPT ![sc.besti] = @ + 1]
                       IN [m |-> [ms EXCEPT !.pos = p2, !.ev[sc.besti] = HeadOf(cons, p2, sc.besti)], r |-> best]
(* a mux of a single constituent is that constituent itself (make_evmux) *)
RECURSIVE MuxRunFrom(_, _, _, _, _)
MuxRunFrom(cons, m, ops, i, acc) ==
  IF i > Len(ops) THEN acc
  ELSE LET x == MuxNext(cons, m, ops[i] = "P") IN MuxRunFrom(cons, x.m, ops, i + 1, Append(acc, x.r))
MuxRun(cons, ops) == MuxRunFrom(cons, MuxInit(cons), ops, 1, <<>>)

(* ------------------------------------------------------------------ *)
(* Exception filter, A-level: an occurrence is dropped iff its start   *)
(* equals the start of an exception, whatever the duration             *)
FilterA(ev, ex) == SelectSeq(ev, LAMBDA e : \A i \in 1..Len(ex) : ex[i] # e)
=============================================================================
