----------------------------- MODULE DebugRRule -----------------------------
(* triage aid: write what RRule.tla expects for every line of a (small) trace *)
EXTENDS RRule, TLC, Json, IOUtils
Tr == ndJsonDeserialize(IOEnv.TRACE)
Hz(r) == <<DaysFromCivil(r.hz[1], r.hz[2], r.hz[3]), 86399>>
Civ(p) == LET c == CivilFromDays(p[1]) IN IF p[2] < 0 THEN <<c.y, c.m, c.d>> ELSE <<c.y, c.m, c.d, p[2] \div 3600, (p[2] % 3600) \div 60, p[2] % 60>>
Exp(r) == LET lim == IF "occ" \in DOMAIN r THEN Len(r.occ) + 1 ELSE 20
              x == RSet(r.rule, I(r.ds), Hz(r), lim, 400) IN
  [wf |-> WellFormed(r.rule, I(r.ds)), sync |-> Synchronised(r.rule, I(r.ds), Hz(r)), decided |-> x.decided,
   occ |-> [i \in 1..Len(x.occ) |-> Civ(x.occ[i])]]
ASSUME JsonSerialize(IOEnv.OUT, [k \in 1..Len(Tr) |-> Exp(Tr[k])])
=============================================================================
