------------------------------ MODULE Deadline ------------------------------
(* Contract for run-time limits (C14): the span L an event gives its runs  *)
(* (DTEND - DTSTART, or DURATION in any ISO 8601 form) must arrive          *)
(* unchanged at every hop - the DURATION line echsd hands to echsx, the     *)
(* number of seconds echsx arms alarm(2) with - and the job must be killed  *)
(* by then.  Spans are <<days, ms>> pairs (DtText), limits whole seconds.   *)
EXTENDS DtText
Secs(p) == (p[1] * 86400) + ((p[2] + 999) \div 1000)        \* rounded up; spans up to ~60 years fit 32 bits
(* the span of an event with DTSTART ds and either a DURATION text or a DTEND *)
SpanOfDuration(codes) == ParseDur(codes)
SpanOfDtend(ds, de) == Diff(I(de), I(ds))
HopsOk(span, durline, alarm) ==
  /\ span # DurUndef
  /\ ParseDur(durline) # DurUndef /\ Secs(ParseDur(durline)) = Secs(span)      \* echsd -> echsx
  /\ alarm = Secs(span)                                                        \* echsx -> alarm(2)
(* a real run: limit L s, job would run for W s; observed wall clock in ms and journal signal *)
KillOk(L, W, wallms, jsig, jexit) ==
  IF W < L THEN jsig = 0 /\ jexit = 0                         \* jobs finishing earlier are unaffected
  ELSE jsig = 24 /\ wallms >= L * 1000 /\ wallms <= (L * 1000) + 1500   \* SIGXCPU at the deadline, about a second of jitter
(* a job that does not care about the polite signal is terminated all the same: told at the deadline, gone (by whatever signal) *)
(* within the same jitter of a further second                                                                              *)
(* the same with the journal locked by another process for some time beyond the end of the job: the executor waits for the lock,  *)
(* whatever timers of its own come due meanwhile, and the journal then records how the job ended (one entry)                      *)
LockedKillOk(L, W, rc, jentries, jsig, jexit) == rc = 0 /\ jentries = 1 /\ (IF W < L THEN jsig = 0 /\ jexit = 0 ELSE jsig = 24)
(* the executor is held up for some seconds (held: one second per output file that is a FIFO nobody reads - its open(2) comes back   *)
(* only when the alarm interrupts it) before it gets to start the job: the job is started late, and is gone at the latest the span *)
(* of the limit after its start; the journal records a signal                                                                       *)
HeldKillOk(L, held, wallms, jsig) == jsig # 0 /\ wallms >= L * 1000 /\ wallms <= ((L + held) * 1000) + 1500
StubbornKillOk(L, W, wallms, jsig) == jsig # 0 /\ wallms >= L * 1000 /\ wallms <= (L * 1000) + 2500
(* a task of a request whose limit is a DUE time: the expectation comes as a kind and, for a kill, a window (ms after the task's own start) *)
ObservedDueOk(t, o) ==
  CASE t.kind = "refused"  -> ~o.started
    [] t.kind = "killed"   -> o.started /\ ~o.marker /\ o.journal /\ o.jsig = 24 /\ o.jrealms >= t.lo /\ o.jrealms <= t.hi
    [] t.kind = "finished" -> o.started /\ o.marker /\ o.journal /\ o.jsig = 0 /\ o.jexit = 0
(* one task of a multi-VTODO execution request (limit L s or 0 = none, job time W s, prep = it can be started): *)
(* what must happen to it whatever the other tasks of the request are - see ExecSeq.tla for the mechanism    *)
Expected(t) == IF ~t.prep THEN [kind |-> "notrun", at |-> 0]
               ELSE IF t.L > 0 /\ t.W > t.L THEN [kind |-> "killed", at |-> t.L]
               ELSE [kind |-> "finished", at |-> t.W]
(* the observation o of the real run of that task *)
ObservedOk(t, o) ==
  LET x == Expected(t) IN
  CASE x.kind = "notrun"   -> ~o.started
    [] x.kind = "killed"   -> o.started /\ ~o.marker /\ o.journal /\ o.jsig = 24
                              /\ o.jrealms >= x.at * 1000 - 50 /\ o.jrealms <= (x.at * 1000) + 1500
    [] x.kind = "finished" -> o.started /\ o.marker /\ o.journal /\ o.jsig = 0 /\ o.jexit = 0
                              /\ o.runms >= x.at * 1000 - 50 /\ o.runms <= (x.at * 1000) + 1500
=============================================================================
