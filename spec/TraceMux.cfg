\* constant-level evaluation only
