\* constant-level evaluation only
