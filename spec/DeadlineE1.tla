----------------------------- MODULE DeadlineE1 -----------------------------
(* E1 for C14: on the model, the chain of representations a limit goes     *)
(* through (seconds -> "PT<n>S" text -> duration value -> seconds rounded   *)
(* up) is the identity, and equivalent ISO spellings of one span agree.     *)
EXTENDS Deadline, TLC
RECURSIVE Digits(_)
Digits(n) == IF n < 10 THEN <<48 + n>> ELSE Append(Digits(n \div 10), 48 + (n % 10))
PTnS(n) == <<PEE, TEE>> \o Digits(n) \o <<ESS>>
VARIABLE L
Ls == (1..400) \cup {3599, 3600, 3601, 86399, 86400, 86401, 604800, 2147483, 2147484, 4294967, 4294968, 34560000}
Init == L \in Ls
Next == UNCHANGED L
Spec == Init /\ [][Next]_L
ChainIsIdentity == Secs(ParseDur(PTnS(L))) = L
SpellingsAgree ==
  LET d == L \div 86400  h == (L % 86400) \div 3600  m == (L % 3600) \div 60  s == L % 60
      full == <<PEE>> \o Digits(d) \o <<DEE, TEE>> \o Digits(h) \o <<AITCH>> \o Digits(m) \o <<EM>> \o Digits(s) \o <<ESS>>
  IN Secs(ParseDur(full)) = L /\ (L % 604800 = 0 => Secs(ParseDur(<<PEE>> \o Digits(L \div 604800) \o <<WEE>>)) = L)
=============================================================================
