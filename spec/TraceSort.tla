----------------------------- MODULE TraceSort -----------------------------
(* E2 for C20: every recorded sort call is judged against Sort.tla.       *)
EXTENDS Sort, TLC, Json, IOUtils
Tr == ndJsonDeserialize(IOEnv.TRACE)
KeysWF(r) == \A k \in 1..Len(r.keys) : WF(I(r.keys[k]))
Verdict(r) ==
  IF "crash" \in DOMAIN r THEN "bad"
  ELSE IF ~KeysWF(r) THEN "skip"
  ELSE IF r.kind = "event" THEN (IF IsStableSortedPerm(r.keys, r.in, r.out) THEN "ok" ELSE "bad")
  ELSE (IF IsSortedPerm(r.keys, r.in, r.out) THEN "ok" ELSE "bad")
N == Len(Tr)
BadSet == {k \in 1..N : Verdict(Tr[k]) = "bad"}
SkipSet == {k \in 1..N : Verdict(Tr[k]) = "skip"}
ASSUME JsonSerialize(IOEnv.OUT, [n |-> N, nbad |-> Cardinality(BadSet), nskip |-> Cardinality(SkipSet), bad |-> BadSet])
=============================================================================
