SPECIFICATION Spec
INVARIANT RefineU
INVARIANT RefineS
INVARIANT RefineN
INVARIANT IterUOk
INVARIANT IterSOk
INVARIANT IterNOk
CHECK_DEADLOCK FALSE
