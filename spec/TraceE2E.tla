------------------------------ MODULE TraceE2E ------------------------------
(* Growth item: the whole path user file -> echsq -> echsd -> echsx run with *)
(* the real binaries in real time (private namespaces).  One record = one    *)
(* session: the plan (tasks with their occurrence times in ms after t0, job  *)
(* length, limit, MAX-SIMUL, the directory and umask echsq was called from)  *)
(* and what the jobs logged about themselves: S(tart), E(nd), K(illed) with  *)
(* times in ms after t0.  Contract, per task (tolerance Tol for scheduling   *)
(* jitter):                                                                  *)
(*   without MAX-SIMUL: exactly one start per occurrence, on time;           *)
(*   with MAX-SIMUL n: every start is an occurrence, each at most once, and  *)
(*     never more than n runs at a time;                                      *)
(*   a job longer than its limit is killed limit ms after ITS start (K, no   *)
(*     E) - the job, not just its shell; a job within its limit ends itself;  *)
(*   the job runs in the directory and under the umask echsq was called      *)
(*     with (client-side defaults);                                          *)
(*   every submission was acknowledged, the daemon shut down cleanly and the *)
(*     queue file it leaves holds no task whose occurrences are all past.    *)
EXTENDS Integers, Sequences, FiniteSets, TLC, Json, IOUtils
Tr == ndJsonDeserialize(IOEnv.TRACE)
Tol == 1500
Near(x, t) == x >= t - 100 /\ x <= t + Tol
Of(log, kind, uid) == SelectSeq(log, LAMBDA l : l.k = kind /\ l.uid = uid)
TaskOk(r, t) ==
  LET S == Of(r.log, "S", t.uid)  E == Of(r.log, "E", t.uid)  K == Of(r.log, "K", t.uid)
      killed == t.limit > 0 /\ t.jobms > t.limit * 1000
      dur == IF killed THEN t.limit * 1000 ELSE t.jobms
  IN /\ IF t.maxsim = 0
        THEN Len(S) = Len(t.occ) /\ \A i \in 1..Len(S) : Near(S[i].at, t.occ[i])
        ELSE /\ \A i \in 1..Len(S) : \E j \in 1..Len(t.occ) : Near(S[i].at, t.occ[j])
             /\ \A i, j \in 1..Len(S) : i < j => S[j].at - S[i].at > Tol            \* no occurrence twice
             /\ \A i \in 1..Len(S) : Cardinality({j \in 1..Len(S) : S[j].at <= S[i].at /\ S[j].at + dur > S[i].at + 200}) <= t.maxsim
             /\ Len(S) >= 1
     /\ \A i \in 1..Len(S) : S[i].cwd = t.cwd /\ S[i].umask = t.umask
     /\ IF killed
        THEN Len(E) = 0 /\ Len(K) = Len(S) /\ \A i \in 1..Len(S) : \E j \in 1..Len(K) : K[j].pid = S[i].pid /\ Near(K[j].at, S[i].at + (t.limit * 1000))
        ELSE Len(K) = 0 /\ Len(E) = Len(S) /\ \A i \in 1..Len(S) : \E j \in 1..Len(E) : E[j].pid = S[i].pid /\ Near(E[j].at, S[i].at + t.jobms)
Verdict(r) ==
  IF /\ r.ready /\ r.daemon_rc = 0
     /\ \A i \in 1..Len(r.submit) : r.submit[i].rc = 0
     /\ \A i \in 1..Len(r.tasks) : TaskOk(r, r.tasks[i])
     /\ r.left_in_queue = <<>>
  THEN "ok" ELSE "bad"
N == Len(Tr)
BadSet == {k \in 1..N : Verdict(Tr[k]) = "bad"}
ASSUME JsonSerialize(IOEnv.OUT, [n |-> N, nbad |-> Cardinality(BadSet), nskip |-> 0, bad |-> BadSet])
=============================================================================
