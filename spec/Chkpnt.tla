------------------------------- MODULE Chkpnt -------------------------------
(* Checkpointing of the per-user queue files (src/echsd.c chkpnt1 /       *)
(* chkpnta), at system-call grain.                                          *)
(* A-level (DiskContract): the live file echsq_<u>.ics of every user is,   *)
(* at every instant and after any crash, the complete image of one         *)
(* checkpoint that was finished for that user; a restarted daemon arms      *)
(* exactly what those files hold.                                            *)
(* I-level: the queue as a map uid -> owner (tasks), a set of dirty users,  *)
(* and for a running checkpoint the dot file being written:                 *)
(*     Open(u)  (O_TRUNC)   Write(u)*   Close(u)   Rename(u)                *)
(* each of which may be the point where the process dies (Crash) or the     *)
(* single call that fails (then the dot file is unlinked and the live file  *)
(* stays as it was).                                                         *)
EXTENDS Integers, Sequences, FiniteSets, TLC

CONSTANTS Users, Tasks, MaxChanges, MaxWrites

VARIABLES queue,    \* queue[t] = owner (a user) or "none"
          dirty,    \* users with unsaved changes
          live,     \* live[u] = [tasks |-> set, complete |-> BOOLEAN] or "absent": the live file
          dot,      \* dot[u]: the dot file, same shape, "absent" when there is none
          cp,       \* checkpoint in progress: [todo |-> seq of users, phase |-> "idle"|"open"|"write"|"close"|"rename", w |-> writes left, snap |-> set]
          saved,    \* saved[u] = set of task sets: images of all checkpoints finished for u (history, for the contract)
          nchg, failed, crashed
vars == <<queue, dirty, live, dot, cp, saved, nchg, failed, crashed>>

Absent == [tasks |-> {}, complete |-> FALSE, there |-> FALSE]
TasksOf(u) == {t \in Tasks : queue[t] = u}
Idle == [todo |-> <<>>, phase |-> "idle", w |-> 0, snap |-> {}]

Init == /\ queue = [t \in Tasks |-> "none"] /\ dirty = {} /\ live = [u \in Users |-> Absent] /\ dot = [u \in Users |-> Absent]
        /\ cp = Idle /\ saved = [u \in Users |-> {}] /\ nchg = 0 /\ failed = FALSE /\ crashed = FALSE

(* an acknowledged add or cancel of user u *)
Change(u, t) == /\ ~crashed /\ cp.phase = "idle" /\ nchg < MaxChanges
                /\ queue[t] \in {"none", u}
                /\ queue' = [queue EXCEPT ![t] = IF @ = u THEN "none" ELSE u]
                /\ dirty' = dirty \cup {u} /\ nchg' = nchg + 1
                /\ UNCHANGED <<live, dot, cp, saved, failed, crashed>>
(* chkpnt(): go through the dirty users one by one *)
Begin == /\ ~crashed /\ cp.phase = "idle" /\ dirty # {}
         /\ \E order \in [1..Cardinality(dirty) -> dirty] :
              /\ \A i, j \in 1..Cardinality(dirty) : i # j => order[i] # order[j]
              /\ cp' = [todo |-> order, phase |-> "open", w |-> 0, snap |-> {}]
         /\ dirty' = {}
         /\ UNCHANGED <<queue, live, dot, saved, nchg, failed, crashed>>
Cur == Head(cp.todo)
NextUser == IF Len(cp.todo) > 1 THEN [todo |-> Tail(cp.todo), phase |-> "open", w |-> 0, snap |-> {}] ELSE Idle
(* a call that fails: unlink the dot file, leave the live file, go on with the next user *)
Fail == /\ ~crashed /\ ~failed /\ cp.phase \in {"open", "write", "close", "rename"}
        /\ failed' = TRUE /\ dot' = [dot EXCEPT ![Cur] = Absent] /\ cp' = NextUser
        /\ UNCHANGED <<queue, dirty, live, saved, nchg, crashed>>
Open == /\ ~crashed /\ cp.phase = "open"
        /\ dot' = [dot EXCEPT ![Cur] = [tasks |-> {}, complete |-> FALSE, there |-> TRUE]]       \* O_CREAT | O_TRUNC
        /\ cp' = [cp EXCEPT !.phase = "write", !.w = MaxWrites, !.snap = TasksOf(Cur)]
        /\ UNCHANGED <<queue, dirty, live, saved, nchg, failed, crashed>>
Write == /\ ~crashed /\ cp.phase = "write"
         /\ IF cp.w > 1 THEN /\ dot' = [dot EXCEPT ![Cur].tasks = {}] /\ cp' = [cp EXCEPT !.w = @ - 1]       \* partial content
            ELSE /\ dot' = [dot EXCEPT ![Cur] = [tasks |-> cp.snap, complete |-> TRUE, there |-> TRUE]] /\ cp' = [cp EXCEPT !.phase = "close", !.w = 0]
         /\ UNCHANGED <<queue, dirty, live, saved, nchg, failed, crashed>>
Close == /\ ~crashed /\ cp.phase = "close" /\ cp' = [cp EXCEPT !.phase = "rename"]
         /\ UNCHANGED <<queue, dirty, live, dot, saved, nchg, failed, crashed>>
Rename == /\ ~crashed /\ cp.phase = "rename"
          /\ live' = [live EXCEPT ![Cur] = dot[Cur]] /\ dot' = [dot EXCEPT ![Cur] = Absent]
          /\ saved' = [saved EXCEPT ![Cur] = @ \cup {cp.snap}]
          /\ cp' = NextUser
          /\ UNCHANGED <<queue, dirty, nchg, failed, crashed>>
Crash == /\ ~crashed /\ crashed' = TRUE /\ UNCHANGED <<queue, dirty, live, dot, cp, saved, nchg, failed>>
Next == Begin \/ Fail \/ Open \/ Write \/ Close \/ Rename \/ Crash \/ \E u \in Users, t \in Tasks : Change(u, t)
Spec == Init /\ [][Next]_vars

(* ---- the contract ---- *)
LiveNeverTorn == \A u \in Users : live[u].there => (live[u].complete /\ live[u].tasks \in saved[u])
(* what a daemon started now would arm, versus what was acknowledged as of the last finished checkpoints *)
Reload == UNION {IF live[u].there THEN {<<t, u>> : t \in live[u].tasks} ELSE {} : u \in Users}
ReloadIsLastCheckpoint == \A u \in Users : live[u].there => live[u].tasks \in saved[u]
(* after a checkpoint that ran through without fault nothing is dirty and the disk equals the queue *)
CleanCheckpointSavesAll == (cp.phase = "idle" /\ dirty = {} /\ ~failed /\ ~crashed) =>
     \A u \in Users : (live[u].there => live[u].tasks = TasksOf(u)) /\ (~live[u].there => TasksOf(u) = {})
=============================================================================
