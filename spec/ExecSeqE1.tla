----------------------------- MODULE ExecSeqE1 -----------------------------
EXTENDS ExecSeq, TLC
TaskSet == {[L |-> l, W |-> w, prep |-> p] : l \in 0..2, w \in 1..3, p \in BOOLEAN} \ {t \in [L : 0..2, W : 1..3, prep : BOOLEAN] : t.L = t.W}
ReqsV == {<<a>> : a \in TaskSet} \cup {<<a, b>> : a, b \in TaskSet} \cup {<<a, b, c>> : a, b, c \in {t \in TaskSet : t.W <= 2 \/ t.L = 0}}
=============================================================================
