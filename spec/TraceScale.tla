----------------------------- MODULE TraceScale -----------------------------
(* E2 for C15: one trace per scale, Day lines in Gregorian day order,     *)
(* followed by HDay lines (Hijri dates converted to Gregorian and back).  *)
EXTENDS Scale, TLC, Json, IOUtils, FiniteSets, Integers
Tr == ndJsonDeserialize(IOEnv.TRACE)
N == Len(Tr)
Consecutive(k) == k > 1 /\ GDay(Tr[k]) = GDay(Tr[k - 1]) + 1
Accepted == {k \in 1..N : Tr[k].e = "Day" /\ "crash" \notin DOMAIN Tr[k] /\ ~Rejected(Tr[k])}
Verdict(k) ==
  LET r == Tr[k] IN
  IF "crash" \in DOMAIN r THEN "bad"
  ELSE IF r.e = "HDay" THEN
       (* the other direction, Hijri dates far beyond any table included: a date is either rejected *)
       (* or it is the image of its own Gregorian image - never mapped to some day it is not     *)
       (* (a day number beyond the length of its month - the tables have a 28-day month - is no date of the calendar) *)
       IF r.g = <<0, 0, 0>> THEN "skip" ELSE IF r.ndim > 0 /\ r.h[3] > r.ndim THEN "skip" ELSE IF r.back = r.h THEN "ok" ELSE "bad"
  ELSE IF Rejected(r) THEN
       (* a rejected day strictly inside the accepted span is a hole in the bijection *)
       IF (\E a \in Accepted : a < k) /\ (\E b \in Accepted : b > k) THEN "bad" ELSE "skip"
  ELSE IF ~PointOk(r) THEN "bad"
  ELSE IF Consecutive(k) /\ (k - 1) \in Accepted /\ ~StepOk(Tr[k - 1], r) THEN "bad"
  ELSE "ok"
BadSet == {k \in 1..N : Verdict(k) = "bad"}
SkipSet == {k \in 1..N : Verdict(k) = "skip"}
ASSUME JsonSerialize(IOEnv.OUT, [n |-> N, nbad |-> Cardinality(BadSet), nskip |-> Cardinality(SkipSet), bad |-> BadSet, accepted |-> Cardinality(Accepted)])
=============================================================================
