----------------------------- MODULE TraceScale -----------------------------
(* E2 for C15: one trace per scale, lines in Gregorian day order.         *)
EXTENDS Scale, TLC, Json, IOUtils, FiniteSets, Integers
Tr == ndJsonDeserialize(IOEnv.TRACE)
N == Len(Tr)
Consecutive(k) == k > 1 /\ GDay(Tr[k]) = GDay(Tr[k - 1]) + 1
Accepted == {k \in 1..N : "crash" \notin DOMAIN Tr[k] /\ ~Rejected(Tr[k])}
Verdict(k) ==
  LET r == Tr[k] IN
  IF "crash" \in DOMAIN r THEN "bad"
  ELSE IF Rejected(r) THEN
       (* a rejected day strictly inside the accepted span is a hole in the bijection *)
       IF (\E a \in Accepted : a < k) /\ (\E b \in Accepted : b > k) THEN "bad" ELSE "skip"
  ELSE IF ~PointOk(r) THEN "bad"
  ELSE IF Consecutive(k) /\ (k - 1) \in Accepted /\ ~StepOk(Tr[k - 1], r) THEN "bad"
  ELSE "ok"
BadSet == {k \in 1..N : Verdict(k) = "bad"}
SkipSet == {k \in 1..N : Verdict(k) = "skip"}
ASSUME JsonSerialize(IOEnv.OUT, [n |-> N, nbad |-> Cardinality(BadSet), nskip |-> Cardinality(SkipSet), bad |-> BadSet, accepted |-> Cardinality(Accepted)])
=============================================================================
