\* constant-level evaluation only
