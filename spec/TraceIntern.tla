---------------------------- MODULE TraceIntern ----------------------------
(* E2 for Intern.tla: windows of the log of a real intern() session.  Each  *)
(* window record holds ops = the strings interned in the window with the    *)
(* id returned, the name read back at once (name) and the name read back    *)
(* at the very end of the session, after all table growth (late).           *)
(*   Name(Intern(s)) = s, at once and at the end;                            *)
(*   within the window: the same string gets the same id, different          *)
(*   strings get different ids (equal hashes of different strings would be   *)
(*   reported here; at 32 bits they are not expected in a run this size);    *)
(*   strings outside 1..255 bytes are refused (id 0).                        *)
EXTENDS Integers, Sequences, FiniteSets, TLC, Json, IOUtils
Tr == ndJsonDeserialize(IOEnv.TRACE)
Verdict(r) ==
  LET o == r.ops n == Len(o) IN
  IF /\ \A i \in 1..n : IF o[i].len >= 1 /\ o[i].len <= 255 THEN o[i].name = o[i].s /\ o[i].late = o[i].s /\ o[i].id # "h00000000"
                        ELSE o[i].id = "h00000000"
     /\ \A i \in 1..n : \A j \in (i + 1)..n : (o[i].len \in 1..255 /\ o[j].len \in 1..255) => ((o[i].s = o[j].s) <=> (o[i].id = o[j].id))
  THEN "ok" ELSE "bad"
N == Len(Tr)
BadSet == {k \in 1..N : Verdict(Tr[k]) = "bad"}
ASSUME JsonSerialize(IOEnv.OUT, [n |-> N, nbad |-> Cardinality(BadSet), nskip |-> 0, bad |-> BadSet])
=============================================================================
