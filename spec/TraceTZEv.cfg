\* constant-level evaluation only
