----------------------------- MODULE ChkpntAll -----------------------------
(* The all-users checkpoint of echsd (src/echsd.c chkpnta()), taken when 16  *)
(* or more users have changes: the task table is walked once, the queue file *)
(* of every user that owns a task is opened (dot file, O_TRUNC) when the     *)
(* first of his tasks comes by, all files stay open and share ONE print      *)
(* buffer; then every file is finished, and only then each is closed and     *)
(* renamed over the live file - or all are discarded when any write was      *)
(* lost on the way.  A file that cannot be opened makes the procedure fall   *)
(* back to the one-user checkpoint chkpnt1() for that user and all that      *)
(* follow.  Users that own no task any more are not met in the walk; their   *)
(* queue files are swept afterwards (SweepSpool; FALSE = as found: the      *)
(* cancelled tasks stay on disk).  FallbackFixed = FALSE is the code as found: the fallback loop    *)
(* checkpoints the unopenable user again and again and leaves the files of   *)
(* the users behind him open and unrenamed.                                   *)
(* A-level contract as in Chkpnt.tla: the live file is always the complete   *)
(* image of a finished checkpoint; and whenever the daemon believes          *)
(* everything is saved (nothing marked for retry) the disk equals the queue. *)
EXTENDS Integers, Sequences, FiniteSets, TLC
CONSTANTS Users, Tasks, MaxChanges, FallbackFixed,
          SweepSpool     \* TRUE: after the walk every queue file of a user that was not met is checkpointed too (the repaired code)
VARIABLES queue, live, dot, saved, ca, retry, nchg, failed, crashed
vars == <<queue, live, dot, saved, ca, retry, nchg, failed, crashed>>
Absent == [tasks |-> {}, complete |-> FALSE, there |-> FALSE]
TasksOf(u) == {t \in Tasks : queue[t] = u}
Owners == {u \in Users : TasksOf(u) # {}}
Idle == [phase |-> "idle", order |-> <<>>, i |-> 0, fd |-> [u \in Users |-> "none"], lost |-> FALSE, snap |-> [u \in Users |-> {}], rc |-> 0, sub |-> "none"]
Init == /\ queue = [t \in Tasks |-> "none"] /\ live = [u \in Users |-> Absent] /\ dot = [u \in Users |-> Absent]
        /\ saved = [u \in Users |-> {}] /\ ca = Idle /\ retry = FALSE /\ nchg = 0 /\ failed = FALSE /\ crashed = FALSE
Change(u, t) == /\ ~crashed /\ ca.phase = "idle" /\ nchg < MaxChanges /\ queue[t] \in {"none", u}
                /\ queue' = [queue EXCEPT ![t] = IF @ = u THEN "none" ELSE u]
                /\ retry' = TRUE /\ nchg' = nchg + 1
                /\ UNCHANGED <<live, dot, saved, ca, failed, crashed>>
(* chkpnt() -> chkpnta(): walk the table; the order in which users come by is the table's business *)
Begin == /\ ~crashed /\ ca.phase = "idle" /\ retry
         /\ \E order \in [1..Cardinality(Owners) -> Owners] :
              /\ \A i, j \in 1..Cardinality(Owners) : i # j => order[i] # order[j]
              /\ ca' = [Idle EXCEPT !.phase = IF Owners = {} THEN "sweep" ELSE "scan", !.order = order, !.i = 1]
         /\ UNCHANGED <<queue, live, dot, saved, retry, nchg, failed, crashed>>
Cur == ca.order[ca.i]
Step(c) == IF c.i < Len(c.order) THEN [c EXCEPT !.i = @ + 1] ELSE [c EXCEPT !.phase = IF c.phase = "scan" THEN "fini" ELSE "sweep", !.i = 1]
(* scan: open the user's dot file (it holds part of his tasks from now on) - or fail to *)
OpenU == /\ ~crashed /\ ca.phase = "scan"
         /\ dot' = [dot EXCEPT ![Cur] = [tasks |-> {}, complete |-> FALSE, there |-> TRUE]]
         /\ ca' = Step([ca EXCEPT !.fd[Cur] = "open", !.snap[Cur] = TasksOf(Cur)])
         /\ UNCHANGED <<queue, live, saved, retry, nchg, failed, crashed>>
OpenFails == /\ ~crashed /\ ~failed /\ ca.phase = "scan" /\ failed' = TRUE
             /\ ca' = Step([ca EXCEPT !.fd[Cur] = "bad"])
             /\ UNCHANGED <<queue, live, dot, saved, retry, nchg, crashed>>
(* a write of the shared buffer is lost somewhere between the first open and the last footer *)
WriteLost == /\ ~crashed /\ ~failed /\ ca.phase \in {"scan", "fini"} /\ \E u \in Users : ca.fd[u] = "open"
             /\ failed' = TRUE /\ ca' = [ca EXCEPT !.lost = TRUE]
             /\ UNCHANGED <<queue, live, dot, saved, retry, nchg, crashed>>
(* every open file gets its footer; only now are they complete - unless something was lost *)
Fini == /\ ~crashed /\ ca.phase = "fini"
        /\ dot' = [u \in Users |-> IF ca.fd[u] = "open" THEN [tasks |-> ca.snap[u], complete |-> ~ca.lost, there |-> TRUE] ELSE dot[u]]
        /\ ca' = [ca EXCEPT !.phase = "wrap", !.i = 1]
        /\ UNCHANGED <<queue, live, saved, retry, nchg, failed, crashed>>
(* wrap up user by user *)
Discard == /\ ~crashed /\ ca.phase = "wrap" /\ ca.fd[Cur] = "open" /\ ca.lost
           /\ dot' = [dot EXCEPT ![Cur] = Absent] /\ ca' = Step([ca EXCEPT !.rc = -1, !.fd[Cur] = "none"])
           /\ UNCHANGED <<queue, live, saved, retry, nchg, failed, crashed>>
CloseRename == /\ ~crashed /\ ca.phase = "wrap" /\ ca.fd[Cur] = "open" /\ ~ca.lost
               /\ live' = [live EXCEPT ![Cur] = dot[Cur]] /\ dot' = [dot EXCEPT ![Cur] = Absent]
               /\ saved' = [saved EXCEPT ![Cur] = @ \cup {ca.snap[Cur]}]
               /\ ca' = Step([ca EXCEPT !.fd[Cur] = "none"])
               /\ UNCHANGED <<queue, retry, nchg, failed, crashed>>
CloseRenameFails == /\ ~crashed /\ ~failed /\ ca.phase = "wrap" /\ ca.fd[Cur] = "open" /\ ~ca.lost /\ failed' = TRUE
                    /\ dot' = [dot EXCEPT ![Cur] = Absent] /\ ca' = Step([ca EXCEPT !.rc = -1, !.fd[Cur] = "none"])
                    /\ UNCHANGED <<queue, live, saved, retry, nchg, crashed>>
(* chkpnt1(u) as one step here (its own steps are Chkpnt.tla's): the dot file is rewritten and renamed *)
One(u) == [l \in {"live", "saved"} |-> IF l = "live" THEN [live EXCEPT ![u] = [tasks |-> TasksOf(u), complete |-> TRUE, there |-> TRUE]]
                                         ELSE [saved EXCEPT ![u] = @ \cup {TasksOf(u)}]]
(* the fallback when a file could not be opened *)
Fallback == /\ ~crashed /\ ca.phase = "wrap" /\ ca.fd[Cur] = "bad"
            /\ IF FallbackFixed
               THEN (* close what is open and checkpoint this user and each one behind him *)
                    LET rest == {ca.order[j] : j \in ca.i..Len(ca.order)} IN
                    /\ live' = [u \in Users |-> IF u \in rest THEN One(u).live[u] ELSE live[u]]
                    /\ saved' = [u \in Users |-> IF u \in rest THEN One(u).saved[u] ELSE saved[u]]
                    /\ dot' = [u \in Users |-> IF u \in rest THEN Absent ELSE dot[u]]
               ELSE (* as found: chkpnt1(this user) once per remaining entry, the others stay open *)
                    /\ live' = One(Cur).live /\ saved' = One(Cur).saved /\ dot' = [dot EXCEPT ![Cur] = Absent]
            /\ ca' = [ca EXCEPT !.phase = "sweep"]
            /\ UNCHANGED <<queue, retry, nchg, failed, crashed>>
(* users who own no task were not met in the walk: their queue files, if any, still hold what they have cancelled *)
Sweep == /\ ~crashed /\ ca.phase = "sweep"
         /\ LET stale == {u \in Users : u \notin {ca.order[j] : j \in 1..Len(ca.order)} /\ live[u].there} IN
            IF SweepSpool
            THEN /\ live' = [u \in Users |-> IF u \in stale THEN One(u).live[u] ELSE live[u]]
                 /\ saved' = [u \in Users |-> IF u \in stale THEN One(u).saved[u] ELSE saved[u]]
            ELSE UNCHANGED <<live, saved>>
         /\ ca' = [ca EXCEPT !.phase = "end"]
         /\ UNCHANGED <<queue, dot, retry, nchg, failed, crashed>>
(* chkpnt(): a negative return leaves everybody marked for another try *)
End == /\ ~crashed /\ ca.phase = "end" /\ retry' = (ca.rc < 0) /\ ca' = Idle
       /\ UNCHANGED <<queue, live, dot, saved, nchg, failed, crashed>>
Crash == /\ ~crashed /\ crashed' = TRUE /\ UNCHANGED <<queue, live, dot, saved, ca, retry, nchg, failed>>
Next == Begin \/ OpenU \/ OpenFails \/ WriteLost \/ Fini \/ Discard \/ CloseRename \/ CloseRenameFails \/ Fallback \/ Sweep \/ End \/ Crash
        \/ \E u \in Users, t \in Tasks : Change(u, t)
Spec == Init /\ [][Next]_vars
LiveNeverTorn == \A u \in Users : live[u].there => (live[u].complete /\ live[u].tasks \in saved[u])
(* when nothing is marked for another try, the disk is the queue *)
NothingForgotten == (ca.phase = "idle" /\ ~retry /\ ~crashed) =>
   \A u \in Users : (live[u].there => live[u].tasks = TasksOf(u)) /\ (~live[u].there => TasksOf(u) = {})
=============================================================================
