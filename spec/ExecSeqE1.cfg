SPECIFICATION Spec
CONSTANTS
 Reqs <- ReqsV
 DisarmOnFailure = TRUE
INVARIANT TaskContract
INVARIANT ExecutorSurvives
INVARIANT Completes
CHECK_DEADLOCK FALSE
