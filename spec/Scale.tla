------------------------------- MODULE Scale -------------------------------
(* Contract for the Hijri <-> Gregorian scale conversions (src/scale.c).  *)
(* No reference table is assumed: the property is a set of relations      *)
(* between consecutive observations of one scale.                          *)
EXTENDS Cal, Sequences

Rejected(r) == r.h = <<0, 0, 0>>
GDay(r) == DaysFromCivil(r.g[1], r.g[2], r.g[3])

(* the Hijri date after h, given the length of h's month *)
Succ(h, ndim) ==
  IF h[3] < ndim THEN <<h[1], h[2], h[3] + 1>>
  ELSE IF h[2] < 12 THEN <<h[1], h[2] + 1, 1>>
  ELSE <<h[1] + 1, 1, 1>>

(* relations on one accepted observation *)
PointOk(r) ==
  /\ r.back = r.g                                   \* G(H(d)) = d
  /\ r.h[2] \in 1..12 /\ r.ndim >= 1
  /\ r.h[3] \in 1..r.ndim
  /\ r.wd = WeekdayOfDays(GDay(r))                  \* weekday of the Hijri date = weekday of its image

(* relations between the observations of two consecutive Gregorian days *)
StepOk(p, r) ==
  /\ r.h = Succ(p.h, p.ndim)                        \* consecutive days map to consecutive days;
                                                    \* with h.d <= ndim this makes ndim the distance of the firsts
  /\ (r.h[2] = p.h[2] /\ r.h[1] = p.h[1]) => r.ndim = p.ndim
=============================================================================
