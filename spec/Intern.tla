------------------------------- MODULE Intern -------------------------------
(* Growth beyond the twenty properties: the UID intern table (src/intern.c). *)
(* An interned string is known by the 32-bit hash of its text; the table     *)
(* that maps the hash to the text is a sequence of ever wider open-addressed  *)
(* stacks: a string is put into the first free slot among NPROBE probes of    *)
(* stack 0, else of stack 1, ... (stacks are added on demand); the probes of  *)
(* a stack are taken from successive bit groups of the hash.  Entries never   *)
(* move and are never removed.  Two strings with the same hash are one        *)
(* object by design ("super-collision"); the contract below speaks of keys    *)
(* with distinct hashes.                                                      *)
(* A-level contract: Name(Intern(s)) = s for every string interned so far,    *)
(* whatever was interned before or after; interning again changes nothing.    *)
EXTENDS Integers, Sequences, FiniteSets
CONSTANTS Keys,          \* the strings
          Hash,          \* Hash[k]: a positive integer, distinct per key
          NPROBE, W0     \* probes per stack; width of stack 0 (stack L is W0 * 2^L wide)
VARIABLES tab, nlev, done
vars == <<tab, nlev, done>>
RECURSIVE Pow2(_)
Pow2(n) == IF n = 0 THEN 1 ELSE 2 * Pow2(n - 1)
Width(L) == W0 * Pow2(L)
(* probe j of stack L for hash h: successive 1-bit shifts of the hash, folded into the stack's width *)
Slot(L, j, h) == (h \div Pow2(j)) % Width(L)
Empty == 0
Init == tab = [L \in 0..0 |-> [s \in 0..(Width(0) - 1) |-> Empty]] /\ nlev = 1 /\ done = {}
RECURSIVE Place(_, _, _, _), Find(_, _, _, _)
(* returns <<level, slot, found>> of the first probe that holds h or is empty, adding no level: level = n means none *)
Place(t, n, h, L) ==
  IF L >= n THEN <<n, 0, FALSE>>
  ELSE LET hit == {j \in 0..(NPROBE - 1) : t[L][Slot(L, j, h)] = h \/ t[L][Slot(L, j, h)] = Empty} IN
       IF hit = {} THEN Place(t, n, h, L + 1)
       ELSE LET j == CHOOSE x \in hit : \A y \in hit : x <= y IN <<L, Slot(L, j, h), t[L][Slot(L, j, h)] = h>>
Find(t, n, h, L) ==
  IF L >= n THEN FALSE
  ELSE IF \E j \in 0..(NPROBE - 1) : t[L][Slot(L, j, h)] = h THEN TRUE ELSE Find(t, n, h, L + 1)
InternKey(k) ==
  LET h == Hash[k]
      p == Place(tab, nlev, h, 0) IN
  /\ done' = done \cup {k}
  /\ IF p[1] < nlev
     THEN /\ nlev' = nlev
          /\ tab' = IF p[3] THEN tab ELSE [tab EXCEPT ![p[1]][p[2]] = h]
     ELSE (* all probes of all stacks taken: add a stack, the string goes to its first probe *)
          /\ nlev' = nlev + 1
          /\ tab' = [L \in 0..nlev |-> IF L < nlev THEN tab[L] ELSE [s \in 0..(Width(nlev) - 1) |-> IF s = Slot(nlev, 0, h) THEN h ELSE Empty]]
Next == \E k \in Keys : InternKey(k)
Spec == Init /\ [][Next]_vars
(* every string interned so far is found, no other is, and each occupies exactly one slot *)
AllFound == \A k \in Keys : Find(tab, nlev, Hash[k], 0) = (k \in done)
StoredOnce == \A k \in done : Cardinality({<<L, s>> \in UNION {{<<L2, s2>> : s2 \in 0..(Width(L2) - 1)} : L2 \in 0..(nlev - 1)} : tab[L][s] = Hash[k]}) = 1
=============================================================================
