SPECIFICATION Spec
CONSTANTS
 Keys <- KeysV
 Hash <- HashV
 NPROBE = 2
 W0 = 2
INVARIANT AllFound
INVARIANT StoredOnce
CHECK_DEADLOCK FALSE
