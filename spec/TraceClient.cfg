SPECIFICATION TSpec
CONSTANTS Users = {"nobody", "daemon", "root"}
          Root = "root"
CONSTRAINT Reach
INVARIANT OneOwnerPerUid
POSTCONDITION Done
CHECK_DEADLOCK FALSE
