----------------------------- MODULE TraceText -----------------------------
(* E2 for C18: recorded print / parse calls of src/dt-strpf.c judged      *)
(* against DtText.tla.                                                      *)
EXTENDS DtText, TLC, Json, IOUtils, FiniteSets
Tr == ndJsonDeserialize(IOEnv.TRACE)
InRange(i) == i.y \in 1901..2099
Verdict(r) ==
  IF "crash" \in DOMAIN r THEN "bad" ELSE
  CASE r.e = "PrintParse" ->
        (* print an instant, parse the text back *)
        LET i == I(r.i) IN
        IF ~(WF(i) /\ InRange(i)) THEN "skip"
        ELSE LET want == IF r.form = "iso" THEN PrintISO(i) ELSE PrintICal(i)
                 back == IF r.form = "iso" THEN i ELSE CarriedByICal(i)
             IN IF r.c = want /\ r.r = Tup(back) /\ ParseDT(r.c) = back THEN "ok" ELSE "bad"
    [] r.e = "ParseDt" ->
        (* any accepted spelling: the code must read what the grammar says *)
        LET x == ParseDT(r.c) IN
        IF IsNul(x) \/ ~InRange(x) THEN "skip"
        ELSE IF r.r = Tup(x) THEN "ok" ELSE "bad"
    [] r.e = "DurPrint" ->
        (* print a non-negative whole-second duration, parse it back *)
        IF r.d[1] < 0 \/ r.d[2] % 1000 # 0 THEN "skip"
        ELSE IF ParseDur(r.c) = r.d /\ r.r = r.d THEN "ok" ELSE "bad"
    [] r.e = "DurParse" ->
        LET x == ParseDur(r.c) IN
        IF x = DurUndef THEN "skip" ELSE IF r.r = x THEN "ok" ELSE "bad"
    [] OTHER -> "bad"
N == Len(Tr)
BadSet == {k \in 1..N : Verdict(Tr[k]) = "bad"}
SkipSet == {k \in 1..N : Verdict(Tr[k]) = "skip"}
ASSUME JsonSerialize(IOEnv.OUT, [n |-> N, nbad |-> Cardinality(BadSet), nskip |-> Cardinality(SkipSet), bad |-> BadSet])
=============================================================================
