---------------------------- MODULE TraceClient ----------------------------
(* Trace validation for Client.tla, one state per recorded invocation of    *)
(* the real echsq against a real echsd (harness/e2e/client.py).  Every line  *)
(* carries the invocation (who, what) and what the client printed, parsed    *)
(* into rows; the trace action is the Client action for that invocation,     *)
(* conjoined with "the printed replies / rows are what the model's queue     *)
(* says".  A trace is accepted iff every line is consumed; the position      *)
(* reached is written to IOEnv.OUT by the postcondition.                      *)
EXTENDS Client, TLC, Json, IOUtils
Tr == ndJsonDeserialize(IOEnv.TRACE)
VARIABLE l
tv == <<q, l>>
SeqSet(s) == {s[i] : i \in 1..Len(s)}
E == Tr[l]
Brief(S) == {[uid |-> t.uid, cmd |-> t.cmd] : t \in S}
Full(S)  == {[uid |-> t.uid, cmd |-> t.cmd, cwd |-> t.cwd, umask |-> t.umask, start |-> t.start] : t \in S}
Nxt(S)   == {[uid |-> t.uid, next |-> t.start] : t \in S}
TAdd    == E.e = "Add" /\ E.rc = 0 /\ Add(E.peer, E.evs) /\ E.replies = AddReplies(q, E.peer, E.evs, 1)
TCancel == E.e = "Cancel" /\ E.rc = 0 /\ Cancel(E.peer, E.ids) /\ E.replies = CancelReplies(q, E.peer, E.ids, 1)
TEdit   == E.e = "Edit" /\ E.rc = 0 /\ Edit(E.peer, E.uid, E.cmd)
           /\ E.replies = (IF Has(q, E.uid) /\ Get(q, E.uid).owner = E.peer THEN <<"SUCCESS">> ELSE <<>>)
TList   == E.e = "List" /\ E.rc = 0 /\ Look
           /\ LET S == Shown(q, E.peer, E.whose, SeqSet(E.ids)) IN
              CASE E.mode = "brief" -> SeqSet(E.rows) = Brief(S) /\ Len(E.rows) = Cardinality(S)
                [] E.mode = "next"  -> SeqSet(E.rows) = Nxt(S) /\ Len(E.rows) = Cardinality(S)
                [] E.mode = "ical"  -> SeqSet(E.rows) = Full(S) /\ Len(E.rows) = Cardinality(S)
                                       /\ E.owner_hdr \in {"", E.whose}      \* the calendar names its owner, if anybody
(* --dry-run: nothing reaches the daemon; what is printed is what would have been sent: the events of the files, in order, *)
(* completed with the caller's directory and umask                                                                        *)
TDry    == E.e = "Dry" /\ E.rc = 0 /\ Look /\ E.rows = E.evs
(* other peers open connections and keep them: nothing of the queue changes, every one of them is accepted (the table has 64 slots) *)
TCrowd  == E.e = "Crowd" /\ Look /\ (E.n > 0 => E.open = E.n) /\ (E.n = 0 => E.open = 0)
TInit == Init /\ l = 1
TNext == l <= Len(Tr) /\ (TAdd \/ TCancel \/ TEdit \/ TList \/ TDry \/ TCrowd) /\ l' = l + 1
TSpec == TInit /\ [][TNext]_tv
Reach == TLCSet(1, IF TLCGet(1) > l THEN TLCGet(1) ELSE l)
ASSUME TLCSet(1, 0)
Done == JsonSerialize(IOEnv.OUT, [n |-> Len(Tr), reached |-> TLCGet(1) - 1, nbad |-> IF TLCGet(1) - 1 = Len(Tr) THEN 0 ELSE 1])
=============================================================================
