------------------------------ MODULE ShiftE1 ------------------------------
(* E1 for C17: the SHIFT and Easter definitions of RRule.tla / Cal.tla are *)
(* checked by TLC for the laws they must obey, for every day of a window   *)
(* and every business day count -12..12 / day count -40..40:                *)
(*   a business day shift always lands on a business day; from a business   *)
(*   day NB moves exactly N business days (counted independently); it is    *)
(*   undone by -NB; plain NB from a weekend equals (N-1)B+ ; the shift is   *)
(*   monotone; Easter Sunday is a Sunday between 22 March and 25 April.     *)
EXTENDS RRule, TLC
VARIABLES n, b, d
W0 == DaysFromCivil(2024, 2, 20)
Init == n \in W0..(W0 + 40) /\ b \in -12..12 /\ d \in {-40, -3, -1, 0, 1, 2, 30}
Next == UNCHANGED <<n, b, d>>
Spec == Init /\ [][Next]_<<n, b, d>>
R(dd, bb, dir, inv) == [shift |-> <<dd, bb, dir, inv>>]
Dir == IF b < 0 THEN -1 ELSE 1
BizBetween(x, y) == Cardinality({k \in (IF x < y THEN (x + 1)..y ELSE y..(x - 1)) : IsBizDay(k)})
LandsOnBiz == IsBizDay(ShiftDay(R(d, b, Dir, 0), n)) /\ IsBizDay(ShiftDay(R(d, b, Dir, 1), n))
ExactCount == IsBizDay(n) => BizBetween(n, ShiftDay(R(0, b, Dir, 0), n)) = Abs(b)
Undone == IsBizDay(n) => ShiftDay(R(0, -b, -Dir, 0), ShiftDay(R(0, b, Dir, 0), n)) = n
PlainVsMarked == (~IsBizDay(n) /\ b # 0) => ShiftDay(R(0, b, Dir, 0), n) = ShiftDay(R(0, b - Dir, Dir, 1), n)
Monotone == ShiftDay(R(d, b, Dir, 0), n) <= ShiftDay(R(d, b, Dir, 0), n + 1)
DayShift == ShiftDay(R(d, 0, 0, 0), n) = n + d
ZeroForms == /\ ShiftDay(R(0, 0, 1, 1), n) = (IF IsBizDay(n) THEN n ELSE ToBiz(n, 1))
             /\ ShiftDay(R(0, 0, -1, 1), n) = (IF IsBizDay(n) THEN n ELSE ToBiz(n, -1))
             /\ n - ShiftDay(R(0, 0, -1, 1), n) \in 0..2 /\ ShiftDay(R(0, 0, 1, 1), n) - n \in 0..2
EasterOk1 == \A y \in 1901..2099 : LET e == Easter(y) IN
               /\ WeekdayOfDays(DaysFromCivil(y, e.m, e.d)) = 7
               /\ ((e.m = 3 /\ e.d >= 22) \/ (e.m = 4 /\ e.d <= 25))
=============================================================================
