------------------------------ MODULE TraceTZ ------------------------------
(* E2 for C07.  Zone lines carry the table read by an independent TZif    *)
(* reader; every sample line names the line number of its zone record.    *)
EXTENDS TZ, Instant, TLC, Json, IOUtils
Tr == ndJsonDeserialize(IOEnv.TRACE)
Ep(a) == (DaysFromCivil(a[1], a[2], a[3]) * 86400) + (a[4] * 3600) + (a[5] * 60) + a[6]
(* instants the day arithmetic below can take; a result that is no such instant cannot be the expected one *)
Sane(a) == a[1] \in 1900..2039 /\ a[2] \in 1..12 /\ a[3] \in 1..31 /\ a[4] \in 0..24 /\ a[5] \in 0..60 /\ a[6] \in 0..60
           /\ DaysFromCivil(a[1], a[2], a[3]) \in -24854..24853        \* seconds since 1970 within 32 bits
Verdict(r) ==
  IF r.e = "Zone" THEN "skip"
  ELSE IF "crash" \in DOMAIN r THEN "bad"
  ELSE IF ~Sane(r.a) THEN "skip"
  ELSE IF ~Sane(r.r) THEN "bad"
  (* a conversion of a calendar instant yields a calendar instant: equal seconds are not enough, the 29th of *)
  (* February of an ordinary year counts as many seconds as the 1st of March and is no date                  *)
  ELSE IF ~(ValidDate(r.r[1], r.r[2], r.r[3]) /\ r.r[4] \in 0..23 /\ r.r[5] \in 0..59 /\ r.r[6] \in 0..59) THEN "bad"
  ELSE LET z == Tr[r.z] a == Ep(r.a) IN
    CASE r.e = "ToLoc" ->
           IF Ep(r.r) = UTCToLocal(z, a) /\ r.off = OffAt(z, a) THEN "ok" ELSE "bad"
      [] r.e = "ToUTC" ->
           IF ~Unambiguous(z, a) THEN "skip"        \* wall-clock time in a gap or an overlap
           ELSE IF Ep(r.r) = LocalToUTC(z, a) THEN "ok" ELSE "bad"
      [] OTHER -> "bad"
N == Len(Tr)
BadSet == {k \in 1..N : Verdict(Tr[k]) = "bad"}
SkipSet == {k \in 1..N : Verdict(Tr[k]) = "skip"}
ASSUME JsonSerialize(IOEnv.OUT, [n |-> N, nbad |-> Cardinality(BadSet), nskip |-> Cardinality(SkipSet), bad |-> BadSet])
=============================================================================
