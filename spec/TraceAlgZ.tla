----------------------------- MODULE TraceAlgZ -----------------------------
(* E2 for C02, events with a TZID: the recurrence-set algebra stated on    *)
(* recorded streams of the real code.  A record holds three streams, all   *)
(* in UTC as the code delivers them: full - the event as written (RRULE,   *)
(* EXRULE, EXDATE in the zone of DTSTART); rset - the same DTSTART and     *)
(* RRULE alone; xset - the same DTSTART with the EXRULE written as its     *)
(* RRULE (what the exception rule names).  What each rule alone selects is *)
(* C01/C07 matter and taken as given; the algebra is: full = rset minus    *)
(* (xset plus the EXDATEs), in order, as far as both recordings reach.     *)
EXTENDS Integers, Sequences, FiniteSets, TLC, Json, IOUtils
Tr == ndJsonDeserialize(IOEnv.TRACE)
Lt(a, b) == \E i \in 1..6 : (\A j \in 1..(i - 1) : a[j] = b[j]) /\ a[i] < b[i]
K(o) == <<o[1], o[2], o[3], o[4], o[5], o[6]>>
Verdict(r) ==
  IF "crash" \in DOMAIN r \/ "timeout" \in DOMAIN r THEN "bad"
  ELSE IF r.rset = <<>> THEN "skip"
  ELSE
  LET R == [i \in 1..Len(r.rset) |-> K(r.rset[i])]
      X == {K(r.xset[i]) : i \in 1..Len(r.xset)} \cup {K(r.exd[i]) : i \in 1..Len(r.exd)}
      F == [i \in 1..Len(r.full) |-> K(r.full[i])]
      (* the stretch both helper recordings cover: up to the last instant of the shorter one (a recording that ended by itself covers everything) *)
      hx == IF r.xstop = "eos" \/ r.xset = <<>> THEN <<9999, 0, 0, 0, 0, 0>> ELSE K(r.xset[Len(r.xset)])
      hr == IF r.rstop = "eos" THEN <<9999, 0, 0, 0, 0, 0>> ELSE R[Len(R)]
      h  == IF Lt(hx, hr) THEN hx ELSE hr
      exp == SelectSeq(R, LAMBDA o : o \notin X /\ Lt(o, h))
      obs == SelectSeq(F, LAMBDA o : Lt(o, h))
  IN IF r.fstop = "eos" \/ Len(obs) < Len(F) THEN (IF obs = exp THEN "ok" ELSE "bad")
     ELSE (IF Len(obs) <= Len(exp) /\ SubSeq(exp, 1, Len(obs)) = obs THEN "ok" ELSE "bad")
N == Len(Tr)
BadSet == {k \in 1..N : Verdict(Tr[k]) = "bad"}
SkipSet == {k \in 1..N : Verdict(Tr[k]) = "skip"}
ASSUME JsonSerialize(IOEnv.OUT, [n |-> N, nbad |-> Cardinality(BadSet), nskip |-> Cardinality(SkipSet), bad |-> BadSet])
=============================================================================
