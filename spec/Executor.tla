------------------------------ MODULE Executor ------------------------------
(* Contract of the executor echsx (src/echsx.c): given an execution        *)
(* request, the job runs exactly once through the requested shell, in the  *)
(* requested directory with the requested umask and stdin, and everything   *)
(* it writes to stdout / stderr reaches the places the combination of       *)
(* OFILE / EFILE / MAIL-OUT / MAIL-ERR prescribes - nothing lost, nothing   *)
(* duplicated - and the journal tells how the job ended.                    *)
(* Output is a sequence of tokens <<stream, n, len>>: stream 1 = stdout,    *)
(* 2 = stderr, the n-th token the job wrote to that stream, its length in   *)
(* bytes.  A sink that receives both streams sees some interleaving, each   *)
(* stream in order (judged by projection).                                  *)
EXTENDS Integers, Sequences, FiniteSets

Proj(s, k) == SelectSeq(s, LAMBDA t : t[1] = k)
Only(s, k) == \A i \in 1..Len(s) : s[i][1] = k

(* request: so, se file names ("" = none; equal = one shared file), mo, me mail flags *)
(* job: out, err token sequences                                                       *)
SinkOk(sink, wantOut, wantErr, out, err) ==
  /\ Proj(sink, 1) = (IF wantOut THEN out ELSE <<>>)
  /\ Proj(sink, 2) = (IF wantErr THEN err ELSE <<>>)
  /\ \A i \in 1..Len(sink) : sink[i][1] \in {1, 2}      \* nothing else in there

RoutingOk(rq, job, obs) ==
  LET same == rq.so # "" /\ rq.so = rq.se IN
  (* the stdout file: stdout, plus stderr when it is also the stderr file *)
  /\ rq.so # "" => SinkOk(obs.ofile, TRUE, same, job.out, job.err)
  (* a separate stderr file: stderr only *)
  /\ (rq.se # "" /\ ~same) => SinkOk(obs.efile, FALSE, TRUE, job.out, job.err)
  (* the mail: what MAIL-OUT / MAIL-ERR ask for; no mail at all when nothing is asked for *)
  /\ IF rq.mo \/ rq.me THEN obs.nmail = 1 /\ SinkOk(obs.mail, rq.mo, rq.me, job.out, job.err)
     ELSE obs.nmail = 0
  (* temporary files are gone *)
  /\ obs.tmpleft = <<>>

RunOk(rq, job, obs) ==
  /\ obs.starts = 1                               \* exactly once
  /\ obs.jhead_ok                                 \* every journal entry of the request begins with its DTSTAMP
  /\ obs.warm_ok                                  \* another task of the same request that went first was run, mailed and journalled too
  /\ obs.pwd = rq.wd /\ obs.umask = rq.umask /\ obs.stdin = rq.stdin /\ obs.shell = rq.shell
  /\ IF job.sig = 0 THEN obs.jexit = job.exit /\ obs.jsig = 0
     ELSE obs.jsig = job.sig                      \* the true terminating signal

(* a request that must not run (--no-run): the job does not start, the journal says cancelled *)
NoRunOk(obs) == obs.starts = 0 /\ obs.cancelled

(* a request whose shell does not exist: nothing is started, and the journal does not claim a run that ended well *)
NoSpawnOk(obs) == obs.starts = 0 /\ ~(obs.jexit = 0 /\ obs.jsig = 0) /\ obs.tmpleft = <<>>
ExecOk(rq, job, obs) == IF rq.norun THEN NoRunOk(obs) ELSE IF rq.nospawn THEN NoSpawnOk(obs) ELSE RunOk(rq, job, obs) /\ RoutingOk(rq, job, obs)
=============================================================================
