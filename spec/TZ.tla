--------------------------------- MODULE TZ ---------------------------------
(* Contract for time-zone conversion (src/tzob.c, src/tzraw.c).  A zone   *)
(* is [off0, trans, offs]: UTC offset before the first transition, the    *)
(* UTC transition times (epoch seconds, ascending) and the offset in      *)
(* effect from each transition on.  All times are epoch seconds within    *)
(* 1902..2037 so that they fit TLC's 32-bit integers.                      *)
EXTENDS Integers, Sequences, FiniteSets

RECURSIVE Count(_, _, _, _)
(* number of transitions <= u, by bisection over trans[lo+1..hi] *)
Count(tr, u, lo, hi) ==
  IF lo >= hi THEN lo
  ELSE LET mid == (lo + hi + 1) \div 2 IN
       IF tr[mid] <= u THEN Count(tr, u, mid, hi) ELSE Count(tr, u, lo, mid - 1)
OffAt(z, u) == LET k == Count(z.trans, u, 0, Len(z.trans)) IN IF k = 0 THEN z.off0 ELSE z.offs[k]
UTCToLocal(z, u) == u + OffAt(z, u)
AllOffs(z) == {z.off0} \cup {z.offs[i] : i \in 1..Len(z.offs)}
(* the UTC instants whose wall clock reads l *)
Solutions(z, l) == {l - o : o \in {p \in AllOffs(z) : OffAt(z, l - p) = p}}
Unambiguous(z, l) == Cardinality(Solutions(z, l)) = 1
LocalToUTC(z, l) == CHOOSE u \in Solutions(z, l) : TRUE
=============================================================================
