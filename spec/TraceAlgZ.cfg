\* constant-level evaluation only
