------------------------------ MODULE InternE1 ------------------------------
EXTENDS Intern, TLC
KeysV == 1..6
(* hashes chosen so that many probes coincide: all congruent modulo small powers of two *)
HashV == [k \in 1..6 |-> 8 * k]
HashW == [k \in 1..6 |-> (16 * k) + 5]
=============================================================================
