\* constant-level evaluation only
