----------------------------- MODULE ConnProto -----------------------------
(* Growth item: what a connection to echsd is taken for (sock_data_cb,     *)
(* feed_cmd, cmd_http_p, cmd_ical_p of echsd.c).  A connection is a        *)
(* sequence of reads (pieces of what the peer sends, as recv(2) hands them *)
(* over); the first read decides:                                           *)
(*   - a read that begins with "GET /" and holds " HTTP/1.1" CR LF behind  *)
(*     it is a listing request: answered at once, connection closed;       *)
(*   - anything else is handed to the iCalendar reader; the connection     *)
(*     stays open and every further read goes to the reader, until the     *)
(*     peer is done (a read of nothing), then it is closed;                *)
(*   - what the iCalendar reader refuses (never, as it stands: it takes    *)
(*     any bytes) closes the connection unanswered.                        *)
(* Deviation named, not hidden: a listing request is recognised only when  *)
(* its request line arrives within the first read.  Split before that, it  *)
(* is taken for calendar data and gets no answer.                          *)
(* Reads are sequences of character codes.                                  *)
EXTENDS Integers, Sequences

Verb == <<71, 69, 84, 32, 47>>                                  \* "GET /"
Vers == <<32, 72, 84, 84, 80, 47, 49, 46, 49, 13, 10>>          \* " HTTP/1.1" CR LF
HasAt(s, w, i) == i + Len(w) - 1 <= Len(s) /\ SubSeq(s, i, i + Len(w) - 1) = w
IsListing(rd) == HasAt(rd, Verb, 1) /\ \E i \in (Len(Verb) + 1)..Len(rd) : HasAt(rd, Vers, i)

VARIABLES kind,        \* "new", "http", "ical", "closed"
          answered,    \* an HTTP status line has been sent
          reads        \* what is still to come from the peer (the last element is <<>>: the peer is done)
vars == <<kind, answered, reads>>

Init(rs) == kind = "new" /\ answered = FALSE /\ reads = rs \o <<<<>>>>
Read ==
  /\ reads # <<>> /\ kind \in {"new", "ical"}
  /\ LET rd == Head(reads) IN
     IF kind = "new" /\ IsListing(rd) THEN kind' = "closed" /\ answered' = TRUE
     ELSE IF rd = <<>> THEN kind' = "closed" /\ UNCHANGED answered
     ELSE kind' = "ical" /\ UNCHANGED answered
  /\ reads' = Tail(reads)
Next == Read

(* what the peer sees at the end, as a function of the reads *)
RECURSIVE Run(_, _, _)
Run(k, a, rs) ==
  IF rs = <<>> \/ k = "closed" THEN [kind |-> k, answered |-> a]
  ELSE LET rd == Head(rs) IN
       IF k = "new" /\ IsListing(rd) THEN [kind |-> "closed", answered |-> TRUE]
       ELSE IF rd = <<>> THEN [kind |-> "closed", answered |-> a]
       ELSE Run("ical", a, Tail(rs))
Outcome(rs) == Run("new", FALSE, rs \o <<<<>>>>)

(* design-level properties, checked by ConnProtoE1 over short reads of a small alphabet *)
ClosedAtEnd == reads = <<>> => kind = "closed"
AnsweredOnlyListings == answered => kind = "closed"
=============================================================================
