SPECIFICATION Spec
INVARIANT RoundTripISO
INVARIANT RoundTripICal
INVARIANT InvalidRejected
INVARIANT DurSpellingsAgree
INVARIANT WeekIsSevenDays
CHECK_DEADLOCK FALSE
