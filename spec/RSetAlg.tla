------------------------------ MODULE RSetAlg ------------------------------
(* Contract for C02, RFC 5545 3.8.5: the recurrence set of an event is     *)
(*   (the instances of every RRULE, anchored at DTSTART)                    *)
(*     union (the RDATE instances)                                          *)
(*   minus every instance whose START equals an EXDATE value or the start   *)
(*   of an EXRULE instance (anchored at DTSTART as well)                    *)
(* - a set: an instant named twice is one occurrence; durations play no     *)
(* role in the comparison.  Occurrences are <<day, second-of-day>> pairs.   *)
EXTENDS RRule
(* all members of a rule's set up to hz (at most lim of them; decided = nothing was cut off) *)
RuleSet(r, ds, hz, lim, budget) == LET x == RSet(r, ds, hz, lim, budget) IN
  [set |-> {x.occ[i] : i \in 1..Len(x.occ)}, decided |-> x.decided /\ (Len(x.occ) < lim \/ x.hitcount)]
Insts(sq) == {Pair(I(sq[i])) : i \in 1..Len(sq)}
NotAfter(S, hz) == {x \in S : ~PLt(hz, x)}
(* ev: [ds, rules, xrules, rdates, exdates]; result: the sorted occurrence sequence up to hz *)
EventSet(ev, hz, lim, budget) ==
  LET ds == I(ev.ds)
      rs == [i \in 1..Len(ev.rules) |-> RuleSet(ev.rules[i], ds, hz, lim, budget)]
      xs == [i \in 1..Len(ev.xrules) |-> RuleSet(ev.xrules[i], ds, hz, lim, budget)]
      plus == UNION {rs[i].set : i \in 1..Len(rs)} \cup NotAfter(Insts(ev.rdates), hz)
      minus == UNION {xs[i].set : i \in 1..Len(xs)} \cup Insts(ev.exdates)
  IN [occ |-> SetToSortSeq(plus \ minus, PLt),
      decided |-> (\A i \in 1..Len(rs) : rs[i].decided) /\ (\A i \in 1..Len(xs) : xs[i].decided)]
=============================================================================
