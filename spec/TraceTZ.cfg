\* constant-level evaluation only
