---------------------------- MODULE TraceBitint ----------------------------
(* E2 for C19: every recorded use of a BYxxx value container is judged    *)
(* against the abstract set of Bitint.tla: membership exactly the         *)
(* inserted values, iteration = each member exactly once, terminates.     *)
EXTENDS Bitint, BitintRep, TLC, Json, IOUtils

Tr == ndJsonDeserialize(IOEnv.TRACE)

Verdict(r) ==
  IF "crash" \in DOMAIN r THEN "bad"
  ELSE IF ~InRangeSeq(r.t, r.ins) THEN "skip"
  ELSE LET S == SetOf(r.ins) IN
    IF /\ ~r.runaway
       /\ IsEnumerationOf(r.iter, S)
       /\ ("has" \in DOMAIN r => SetOf(r.has) = S)
       /\ r.nonempty = (S # {})
    THEN "ok" ELSE "bad"

(* I-level binding: the representation the code ended up with equals the  *)
(* one the mechanism model computes at full width.  A difference here is  *)
(* model drift (the mechanism changed), not a violation of the property.  *)
RECURSIVE FoldU(_, _, _), FoldS(_, _, _), FoldN(_, _, _, _)
FoldU(ins, k, r) == IF k > Len(ins) THEN r ELSE FoldU(ins, k + 1, UAss(r, ins[k]))
FoldS(ins, k, r) == IF k > Len(ins) THEN r ELSE FoldS(ins, k + 1, SAss(r, ins[k]))
FoldN(KK, ins, k, r) == IF k > Len(ins) THEN r ELSE FoldN(KK, ins, k + 1, NAss(KK, r, ins[k]))
Drift(r) ==
  IF "crash" \in DOMAIN r \/ ~InRangeSeq(r.t, r.ins) THEN FALSE
  ELSE CASE r.t \in {"bui31", "bui63"} ->
              [mode |-> r.rep.mode, val |-> r.rep.val, bits |-> SetOf(r.rep.bits)] # FoldU(r.ins, 1, UEmpty)
         [] r.t \in {"bi31", "bi63"} ->
              [mode |-> r.rep.mode, val |-> r.rep.val, pos |-> SetOf(r.rep.pos), neg |-> SetOf(r.rep.neg)] # FoldS(r.ins, 1, SEmpty)
         [] OTHER ->
              [mode |-> r.rep.mode, arr |-> r.rep.arr, pos |-> SetOf(r.rep.pos), neg |-> SetOf(r.rep.neg)]
                # FoldN(IF r.t = "bi383" THEN 12 ELSE 14, r.ins, 1, NEmpty)
(* ... and the iteration ORDER is the mechanism's *)
IterDrift(r) ==
  IF "crash" \in DOMAIN r \/ ~InRangeSeq(r.t, r.ins) \/ r.runaway THEN FALSE
  ELSE CASE r.t \in {"bui31", "bui63"} ->
              LET m == FoldU(r.ins, 1, UEmpty) nx(it) == UNext(m, it) IN r.iter # Drain(nx, 0, <<>>, 2100)
         [] r.t \in {"bi31", "bi63"} ->
              LET m == FoldS(r.ins, 1, SEmpty) w == IF r.t = "bi31" THEN 31 ELSE 63 nx(it) == SNext(w, m, it) IN r.iter # Drain(nx, 0, <<>>, 2100)
         [] OTHER ->
              LET m == FoldN(IF r.t = "bi383" THEN 12 ELSE 14, r.ins, 1, NEmpty) p == IF r.t = "bi383" THEN 384 ELSE 448
                  nx(it) == NNext(p, m, it) IN r.iter # Drain(nx, 0, <<>>, 2100)

N == Len(Tr)
DriftSet == {k \in 1..N : Drift(Tr[k]) \/ IterDrift(Tr[k])}
BadSet == {k \in 1..N : Verdict(Tr[k]) = "bad"}
SkipSet == {k \in 1..N : Verdict(Tr[k]) = "skip"}
ASSUME JsonSerialize(IOEnv.OUT, [n |-> N, nbad |-> Cardinality(BadSet), nskip |-> Cardinality(SkipSet), bad |-> BadSet, ndrift |-> Cardinality(DriftSet), drift |-> DriftSet])
=============================================================================
