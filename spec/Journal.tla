------------------------------ MODULE Journal ------------------------------
(* Growth beyond the twenty properties: the journal shared by concurrently  *)
(* running executors (src/echsx.c jlog_task(), fdlock(), fdunlck();          *)
(* src/fdprnt.h).  echsd opens the journal anew for every echsx it spawns    *)
(* (own file description, own offset); an executor that has finished its job *)
(*   Lock   : fcntl(F_SETLKW) write lock from the current end of file on,    *)
(*   Seek   : lseek(SEEK_END),                                               *)
(*   Write  : the entry goes out in one or more write(2) calls (the          *)
(*            buffered writer flushes whenever its buffer is full),          *)
(*   Unlock : fcntl(F_UNLCK) on the whole file.                              *)
(* A lock on [from, infinity) conflicts with any other whose range overlaps. *)
(* Contract: the journal is always a concatenation of whole entries and      *)
(* whole prefixes of at most one entry in progress; in the end every         *)
(* executor's entry is in it exactly once, contiguous.                       *)
EXTENDS Integers, Sequences, FiniteSets
CONSTANTS Procs, Chunks, UseLock     \* executors; write(2) calls per entry; FALSE = mutation without locking
VARIABLES file, pc, off, locks, sent
vars == <<file, pc, off, locks, sent>>
(* file: sequence of <<proc, chunk number>>; off[p]: private offset of p's descriptor; locks: set of <<proc, from>> *)
Init == file = <<>> /\ pc = [p \in Procs |-> "ready"] /\ off = [p \in Procs |-> 0] /\ locks = {} /\ sent = [p \in Procs |-> 0]
Lock(p) == /\ pc[p] = "ready"
           /\ (UseLock => \A l \in locks : FALSE)                  \* any held lock reaches to infinity and therefore overlaps
           /\ locks' = (IF UseLock THEN locks \cup {<<p, Len(file)>>} ELSE locks)
           /\ pc' = [pc EXCEPT ![p] = "locked"] /\ UNCHANGED <<file, off, sent>>
Seek(p) == /\ pc[p] = "locked" /\ off' = [off EXCEPT ![p] = Len(file)]
           /\ pc' = [pc EXCEPT ![p] = "writing"] /\ UNCHANGED <<file, locks, sent>>
(* write(2) at the private offset: overwrites what is there, extends the file *)
PutAt(f, o, x) == IF o < Len(f) THEN [f EXCEPT ![o + 1] = x] ELSE Append(f, x)
Write(p) == /\ pc[p] = "writing" /\ sent[p] < Chunks
            /\ file' = PutAt(file, off[p], <<p, sent[p] + 1>>)
            /\ off' = [off EXCEPT ![p] = @ + 1] /\ sent' = [sent EXCEPT ![p] = @ + 1]
            /\ UNCHANGED <<pc, locks>>
Unlock(p) == /\ pc[p] = "writing" /\ sent[p] = Chunks
             /\ locks' = {l \in locks : l[1] # p} /\ pc' = [pc EXCEPT ![p] = "done"]
             /\ UNCHANGED <<file, off, sent>>
Next == \E p \in Procs : Lock(p) \/ Seek(p) \/ Write(p) \/ Unlock(p)
Spec == Init /\ [][Next]_vars
(* every maximal run of one executor's chunks is 1, 2, ..., and only the last run may be incomplete *)
WholeEntries ==
  \A i \in 1..Len(file) :
     /\ (file[i][2] > 1 => i > 1 /\ file[i - 1] = <<file[i][1], file[i][2] - 1>>)
     /\ (file[i][2] < Chunks /\ i < Len(file) => file[i + 1] = <<file[i][1], file[i][2] + 1>>)
AllThere == (\A p \in Procs : pc[p] = "done") =>
              /\ Len(file) = Cardinality(Procs) * Chunks
              /\ \A p \in Procs : \E i \in 1..Len(file) : file[i] = <<p, 1>>
=============================================================================
