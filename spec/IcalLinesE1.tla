---------------------------- MODULE IcalLinesE1 ----------------------------
(* E1 for C10: partition independence of the line-assembly mechanism.     *)
(* For every byte string of length <= MaxLen over {a, CR, LF, SP, \, n}   *)
(* and every way of cutting it into chunks, the logical lines handed on   *)
(* equal those of the single-chunk feed.  The stash holds CAP bytes, small *)
(* enough that over-long lines occur.                                      *)
EXTENDS IcalLines, TLC, IOUtils
Thorough == "TIER" \in DOMAIN IOEnv /\ IOEnv.TIER = "thorough"
MaxLen == IF Thorough THEN 7 ELSE 6
CAP == 4
Alpha == {97, CR, LF, SP, BS, LN}
VARIABLES str, pos, p, done
vars == <<str, pos, p, done>>
Init == str \in UNION {[1..n -> Alpha] : n \in 1..MaxLen} /\ pos = 0 /\ p = P0 /\ done = FALSE
Push == /\ ~done /\ pos < Len(str)
        /\ \E k \in 1..(Len(str) - pos) :
             /\ p' = Feed(p, SubSeq(str, pos + 1, pos + k), CAP)
             /\ pos' = pos + k
        /\ UNCHANGED <<str, done>>
Final == /\ ~done /\ pos = Len(str) /\ p' = Feed(p, <<>>, CAP) /\ done' = TRUE /\ UNCHANGED <<str, pos>>
Next == Push \/ Final
Spec == Init /\ [][Next]_vars
PartitionIndependent == done => p.lines = Lines(<<str>>, CAP)
(* reachability witnesses, checked separately to be violated *)
NeverDrops == ~p.drop
NeverPendingEscape == p.pend # BS
=============================================================================
