\* constant-level evaluation only
