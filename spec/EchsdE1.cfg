SPECIFICATION Spec
CONSTANTS
 Uids <- UidsV
 Occs <- OccsV
 MaxSims <- MaxSimsV
 MaxNow <- MaxNowV
 MaxReq <- MaxReqV
INVARIANT Ok
INVARIANT PoolSound
CHECK_DEADLOCK FALSE
