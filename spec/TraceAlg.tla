------------------------------ MODULE TraceAlg ------------------------------
(* E2 for C02: every recorded stream of an event with RRULE/RDATE/EXDATE/   *)
(* EXRULE lists is compared with RSetAlg!EventSet up to the horizon.        *)
EXTENDS RSetAlg, TLC, Json, IOUtils
Tr == ndJsonDeserialize(IOEnv.TRACE)
Budget == 400
Lim == 700
Obs(r) == [i \in 1..Len(r.occ) |-> Pair(I(r.occ[i]))]
Hz(r) == <<DaysFromCivil(r.hz[1], r.hz[2], r.hz[3]), 86399>>
Verdict(r) ==
  LET ds == I(r.ds) IN
  IF ~WF(ds) \/ (\E i \in 1..Len(r.rules) : ~WellFormed(r.rules[i], ds) \/ ~Synchronised(r.rules[i], ds, Hz(r)))
     \/ (\E i \in 1..Len(r.xrules) : ~WellFormed(r.xrules[i], ds) \/ ~Synchronised(r.xrules[i], ds, Hz(r))) THEN "skip"
  ELSE IF "crash" \in DOMAIN r \/ "timeout" \in DOMAIN r \/ "noevent" \in DOMAIN r THEN "bad"
  ELSE IF r.stop = "n" THEN "skip"                 \* pop budget reached before the horizon: not comparable as a whole
  ELSE LET x == EventSet(r, Hz(r), Lim, Budget) IN
       IF ~x.decided THEN "skip"
       ELSE IF x.occ = Obs(r) /\ r.peekmism = 0 THEN "ok" ELSE "bad"
N == Len(Tr)
VS == {<<k, Verdict(Tr[k])>> : k \in 1..N}
Res == LET vs == VS IN [bad |-> {p[1] : p \in {q \in vs : q[2] = "bad"}}, skip |-> {p[1] : p \in {q \in vs : q[2] = "skip"}}]
ASSUME LET res == Res IN JsonSerialize(IOEnv.OUT, [n |-> N, nbad |-> Cardinality(res.bad), nskip |-> Cardinality(res.skip), bad |-> res.bad, skip |-> res.skip])
=============================================================================
