------------------------------ MODULE BitintE1 ------------------------------
(* E1 for C19: the representation mechanisms of BitintRep refine the      *)
(* abstract set, for every insertion sequence up to MaxLen over a small   *)
(* range: width W = 4 (values -4..4 resp. 0..4), native capacity K = 2.   *)
EXTENDS BitintRep, TLC

W == 4
K == 2
P == W + 1
MaxLen == 5

VARIABLES u, s, n, absU, absS, len
vars == <<u, s, n, absU, absS, len>>

Init == u = UEmpty /\ s = SEmpty /\ n = NEmpty /\ absU = {} /\ absS = {} /\ len = 0
InsertU(x) == len < MaxLen /\ u' = UAss(u, x) /\ absU' = absU \cup {x} /\ len' = len + 1 /\ UNCHANGED <<s, n, absS>>
InsertS(x) == len < MaxLen /\ s' = SAss(s, x) /\ n' = NAss(K, n, x) /\ absS' = absS \cup {x} /\ len' = len + 1 /\ UNCHANGED <<u, absU>>
Next == (\E x \in 0..W : InsertU(x)) \/ (\E x \in -W..W : InsertS(x))
Spec == Init /\ [][Next]_vars

UN(it) == UNext(u, it)
SN(it) == SNext(W, s, it)
NN(it) == NNext(P, n, it)
IterU == Drain(UN, 0, <<>>, 3 * W)
IterS == Drain(SN, 0, <<>>, 3 * W)
IterN == Drain(NN, 0, <<>>, 3 * W)
Enumerates(it, S) == {it[k] : k \in 1..Len(it)} = S /\ Len(it) = Cardinality(S)

RefineU == UMembers(u) = absU /\ \A x \in 0..W : UHas(u, x) <=> x \in absU
RefineS == SMembers(s) = absS /\ \A x \in -W..W : SHas(s, x) <=> x \in absS
RefineN == NMembers(n) = absS
IterUOk == Enumerates(IterU, absU)
IterSOk == Enumerates(IterS, absS)
IterNOk == Enumerates(IterN, absS)
(* vacuity guards: these must be VIOLATED (reachability witnesses), run separately *)
NeverDegradedN == n.mode = "native"
NeverNegOnlyBits == ~(s.mode = "bits" /\ s.pos = {} /\ s.neg # {})
=============================================================================
