SPECIFICATION Spec
INVARIANT OnlyTrueSuccessorAccepted
INVARIANT SuccStaysValid
CHECK_DEADLOCK FALSE
