----------------------------- MODULE ArithLaws -----------------------------
(* E1 for C08: the algebraic laws the property states, checked on the     *)
(* contract model itself for every pair of instants of a window that      *)
(* contains a leap day, a year end and all month lengths.  Each state is  *)
(* one pair; the laws are invariants.                                      *)
EXTENDS Instant, TLC, IOUtils

Thorough == "TIER" \in DOMAIN IOEnv /\ IOEnv.TIER = "thorough"
Lo == IF Thorough THEN DaysFromCivil(2019, 12, 25) ELSE DaysFromCivil(2019, 12, 28)
Hi == IF Thorough THEN DaysFromCivil(2021, 3, 5) ELSE DaysFromCivil(2020, 3, 3)
Forms == << <<0,0,0,0>>, <<12,34,56,789>>, <<23,59,59,999>>, <<255,0,0,0>>, <<7,8,9,1023>> >>
Mk(n, f) == LET c == CivilFromDays(n) IN
  [y |-> c.y, m |-> c.m, d |-> c.d, H |-> Forms[f][1], M |-> Forms[f][2], S |-> Forms[f][3], ms |-> Forms[f][4]]

VARIABLES a, b, f
Init == a \in Lo..Hi /\ b \in Lo..Hi /\ f \in 1..5
Next == UNCHANGED <<a, b, f>>
Spec == Init /\ [][Next]_<<a, b, f>>

x == Mk(a, f)
y == Mk(b, f)
CivilRoundTrip == DaysFromCivil(x.y, x.m, x.d) = a /\ ValidDate(x.y, x.m, x.d)
AddDiffInverse == Add(x, Diff(y, x)) = y
DiffAntisym == Diff(x, y) = NegDur(Diff(y, x))
DiffIsElapsed == LET p == Diff(y, x) IN
   (p[1] * 86400) + (p[2] \div 1000) = ((b - a) * 86400) + (SoD(y) - SoD(x)) + ((MsFrac(y) - MsFrac(x) - (p[2] % 1000)) \div 1000)
OrderAgrees == (a < b => Lt(x, y)) /\ (a = b => ~Lt(x, y) /\ Le(x, y))
AllDayFirst == a = b => Lt(Mk(a, 4), Mk(b, 1)) /\ Lt(Mk(a, 5), [Mk(a, 5) EXCEPT !.ms = 0])
FixupKeepsTime ==
  (* day 32.. of x's month, hour 24+, second 60+: same point in time *)
  LET over == [x EXCEPT !.d = x.d + 31, !.H = IF AllDay(x) THEN 255 ELSE x.H + 24, !.S = IF AllDay(x) THEN 0 ELSE x.S + 4]
      norm == Fixup(over)
      want == Add(x, IF AllDay(x) THEN <<31, 0>> ELSE <<32, 4000>>)
  IN  norm = want
EpochRoundTrip == AllDay(x) \/ FromEpoch(ToEpoch(x)) = [x EXCEPT !.ms = ALLSEC]
WeekdayStep == WeekdayOfDays(a + 1) = (WeekdayOfDays(a) % 7) + 1
=============================================================================
