------------------------------ MODULE EchsdE1 ------------------------------
(* E1 configuration of Echsd: two tasks, occurrence lists with duplicates, *)
(* a past-only list after a replace, limits unset/1/2, clock 0..MaxNow,    *)
(* at most MaxReq replace/cancel requests, every interleaving of ticks,    *)
(* reify, callback deliveries and child exits.                              *)
EXTENDS Echsd, IOUtils
Thorough == "TIER" \in DOMAIN IOEnv /\ IOEnv.TIER = "thorough"
UidsV == {"t1", "t2"}
Graph == "TIER" \in DOMAIN IOEnv /\ IOEnv.TIER = "graph"
OccsV == IF Thorough THEN {<<1>>, <<1, 1>>, <<2, 4>>, <<1, 2>>, <<0, 3>>} ELSE IF Graph THEN {<<1>>, <<1, 2>>} ELSE {<<1>>, <<1, 1>>, <<1, 2>>}
MaxSimsV == IF Thorough THEN {0, 1, 2} ELSE {0, 1}
MaxNowV == IF Thorough THEN 5 ELSE IF Graph THEN 3 ELSE 4
MaxReqV == 1
=============================================================================
