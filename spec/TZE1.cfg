SPECIFICATION Spec
INVARIANT RoundTrip
INVARIANT GapHasNoSolution
INVARIANT OverlapHasTwo
INVARIANT CountIsMonotone
CHECK_DEADLOCK FALSE
