SPECIFICATION SpecE
CONSTANTS Users = {"a", "b", "root"}
          Root = "root"
          U = {"x", "y"}
          C = {"c1", "c2"}
INVARIANTS OneOwnerPerUid RepliesTrue NoPeeking RootSeesAll
PROPERTY OnlyOwn
