SPECIFICATION Spec
CONSTANTS
 Procs = {p1, p2, p3}
 Chunks = 3
 UseLock = TRUE
INVARIANT WholeEntries
INVARIANT AllThere
CHECK_DEADLOCK FALSE
