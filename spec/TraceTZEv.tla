----------------------------- MODULE TraceTZEv -----------------------------
(* E2 for C07 at event level: an event whose DTSTART carries a TZID and     *)
(* whose rule has no time-of-day part occurs, on every day the rule         *)
(* selects, at DTSTART's wall-clock time in that zone.  The recorded stream  *)
(* (UTC instants handed out by the real code) is compared with              *)
(*    the recurrence set of the rule evaluated on the LOCAL DTSTART          *)
(*    (RRule!RSet), each member converted with the zone table (TZ.tla).      *)
(* Zone lines carry the table read by the independent TZif reader; every    *)
(* event line names the line number of its zone record.  Cases with a       *)
(* member whose wall-clock time falls into a gap or an overlap are skipped. *)
EXTENDS RRule, TZ, TLC, Json, IOUtils
Tr == ndJsonDeserialize(IOEnv.TRACE)
Hz(r) == <<DaysFromCivil(r.hz[1], r.hz[2], r.hz[3]), 86399>>
LocalSecs(p) == (p[1] * 86400) + p[2]
ObsSecs(o) == (DaysFromCivil(o[1], o[2], o[3]) * 86400) + (o[4] * 3600) + (o[5] * 60) + o[6]
Verdict(r) ==
  IF r.e = "Zone" THEN "skip"
  ELSE IF "crash" \in DOMAIN r \/ "timeout" \in DOMAIN r \/ "noevent" \in DOMAIN r THEN "bad"
  ELSE LET z == Tr[r.z]
           ds == I(r.ds)
           lim == IF r.stop = "n" THEN Len(r.occ) ELSE Len(r.occ) + 1
           x == RSet(r.rule, ds, Hz(r), lim, 400)
           loc == [i \in 1..Len(x.occ) |-> LocalSecs(x.occ[i])]
       IN IF ~WellFormed(r.rule, ds) \/ ~Synchronised(r.rule, ds, Hz(r)) THEN "skip"
          ELSE IF ~x.decided /\ Len(x.occ) < lim THEN "skip"
          ELSE IF \E i \in 1..Len(loc) : ~Unambiguous(z, loc[i]) THEN "skip"
          ELSE IF Len(r.occ) = Len(loc) /\ \A i \in 1..Len(loc) : ObsSecs(r.occ[i]) = LocalToUTC(z, loc[i]) THEN "ok" ELSE "bad"
N == Len(Tr)
BadSet == {k \in 1..N : Verdict(Tr[k]) = "bad"}
SkipSet == {k \in 1..N : Verdict(Tr[k]) = "skip"}
ASSUME JsonSerialize(IOEnv.OUT, [n |-> N, nbad |-> Cardinality(BadSet), nskip |-> Cardinality(SkipSet), bad |-> BadSet])
=============================================================================
