------------------------------ MODULE ExecSeq ------------------------------
(* I-level model of the executor's main loop (src/echsx.c main(), echsx(), *)
(* set_timeout(), timeo_cb(), run_task()): one echsx process takes the       *)
(* VTODOs of an execution request in turn.  Per task: set_timeout installs   *)
(* the SIGALRM handler, unblocks SIGALRM and arms alarm(L); prep_task may    *)
(* fail (task not run); the job is spawned and the loop waits for it; when   *)
(* it exits alarm(0) disarms and all signals are blocked again; when the     *)
(* alarm fires first, timeo_cb resets the handler to SIG_DFL, blocks all     *)
(* signals and kills the job with SIGXCPU.  Time is discrete (seconds).      *)
(* What the model keeps track of is exactly the state that outlives one      *)
(* task: the handler disposition, the pending alarm, the signal mask.        *)
(*                                                                           *)
(* A-level contract (C14) per task t of the request:                         *)
(*   limit L > 0 and job time W > L : killed L after ITS start               *)
(*   otherwise (no limit, or W < L)  : runs to its end, unaffected           *)
(*   the executor itself survives the whole request.                         *)
EXTENDS Deadline
CONSTANTS Reqs,            \* the requests tried: sequences of [L |-> 0.., W |-> 1.., prep |-> BOOLEAN]
          DisarmOnFailure  \* TRUE: the task's alarm is disarmed on every way out of echsx() (the repaired code)
VARIABLES req, i, phase, handler, alarmAt, blocked, now, start, res, alive
vars == <<req, i, phase, handler, alarmAt, blocked, now, start, res, alive>>

Init == /\ req \in Reqs /\ i = 1 /\ phase = "idle" /\ handler = "dfl" /\ alarmAt = 0 /\ blocked = TRUE
        /\ now = 0 /\ start = 0 /\ res = <<>> /\ alive = TRUE

T == req[i]
Done == i > Len(req)
AlarmDue == alarmAt # 0 /\ alarmAt <= now /\ ~blocked
ChildDue == phase = "running" /\ start + T.W <= now

(* echsx() up to run_task(): set_timeout, prep_task, spawn *)
Begin ==
  /\ alive /\ ~Done /\ phase = "idle" /\ ~AlarmDue
  /\ LET armed == T.L > 0 IN
     /\ handler' = (IF armed THEN "timeo" ELSE handler)
     /\ blocked' = (IF armed \/ T.prep THEN FALSE ELSE blocked)          \* unblock_sig(SIGALRM); unblock_sigs() before run_task
     /\ IF T.prep
        THEN /\ phase' = "running" /\ start' = now /\ i' = i /\ res' = res
             /\ alarmAt' = (IF armed THEN now + T.L ELSE alarmAt)
        ELSE /\ phase' = "idle" /\ start' = start /\ i' = i + 1           \* prep_task failed: clean_up
             /\ res' = Append(res, [kind |-> "notrun", at |-> 0])
             /\ alarmAt' = (IF DisarmOnFailure THEN 0 ELSE IF armed THEN now + T.L ELSE alarmAt)
  /\ UNCHANGED <<req, now, alive>>

(* the job exits: chld_cb -> run_task returns: alarm(0), block_sigs, journal *)
ChildExits ==
  /\ alive /\ ChildDue /\ ~AlarmDue
  /\ res' = Append(res, [kind |-> "finished", at |-> now - start])
  /\ alarmAt' = 0 /\ blocked' = TRUE /\ phase' = "idle" /\ i' = i + 1
  /\ UNCHANGED <<req, handler, now, start, alive>>

(* SIGALRM is delivered *)
AlarmFires ==
  /\ alive /\ AlarmDue
  /\ alarmAt' = 0
  /\ IF handler = "dfl" THEN                    \* default action: the executor itself is terminated
          /\ alive' = FALSE /\ UNCHANGED <<handler, blocked, phase, i, res>>
     ELSE /\ handler' = "dfl" /\ blocked' = TRUE /\ alive' = alive
          /\ IF phase = "running"
             THEN /\ res' = Append(res, [kind |-> "killed", at |-> now - start]) /\ phase' = "idle" /\ i' = i + 1
             ELSE /\ UNCHANGED <<res, phase, i>>                          \* kill(0, SIGXCPU) with all signals blocked: no job to hit
  /\ UNCHANGED <<req, now, start>>

Tick == /\ alive /\ ~Done /\ phase = "running" /\ ~AlarmDue /\ ~ChildDue /\ now' = now + 1
        /\ UNCHANGED <<req, i, phase, handler, alarmAt, blocked, start, res, alive>>

Next == Begin \/ ChildExits \/ AlarmFires \/ Tick
Spec == Init /\ [][Next]_vars

TaskContract == \A k \in 1..Len(res) : res[k] = Expected(req[k])
ExecutorSurvives == alive
Completes == (Done \/ ~alive) \/ ENABLED Next
=============================================================================
