------------------------------- MODULE RRule -------------------------------
(* RFC 5545 section 3.3.10 recurrence sets, contract level, written in    *)
(* the RFC's own structure: periods of FREQ*INTERVAL starting at DTSTART's *)
(* period (weeks start on Monday), the BYxxx expand/limit table per FREQ, *)
(* invalid dates dropped, BYSETPOS on each period's ordered set, then     *)
(* >= DTSTART, COUNT, UNTIL.  Extensions of echse's README: BYEASTER and  *)
(* SHIFT.                                                                  *)
(*                                                                         *)
(* An occurrence is a pair <<day, sod>>: day number (Cal) and second of   *)
(* the day, sod = -1 for DATE values.                                      *)
(* A rule is a record                                                      *)
(*   freq, inter, count (0 = none), until (<<>> or 7-tuple),               *)
(*   mon, wk, yd, md, H, M, S, pos, easter : sequences of integers,        *)
(*   dow : sequence of <<ordinal, weekday>> (Mon = 1, ordinal 0 = every),  *)
(*   shift : <<days, biz, dir, inv>>  (biz business days, signed; dir      *)
(*           -1/0/+1 is the direction of the business day part, 0 = none;  *)
(*           inv = 1 for the B+ / B- spellings, see ShiftDay)              *)
EXTENDS Instant, SequencesExt, FiniteSets

SS(s) == {s[i] : i \in 1..Len(s)}
Pair(i) == <<Day(i), IF AllDay(i) THEN -1 ELSE SoD(i)>>
PLt(a, b) == a[1] < b[1] \/ (a[1] = b[1] /\ a[2] < b[2])
PLe(a, b) == ~PLt(b, a)
SortInts(S) == SetToSortSeq(S, LAMBDA a, b : a < b)

DailyOrLonger(f) == f \in {"YEARLY", "MONTHLY", "WEEKLY", "DAILY"}
Unit(f) == CASE f = "HOURLY" -> 3600 [] f = "MINUTELY" -> 60 [] f = "SECONDLY" -> 1 [] OTHER -> 86400

(* ---------------- what the RFC leaves out (MUST NOTs) ---------------- *)
NoDayParts(r) == r.wk = <<>> /\ r.yd = <<>> /\ r.md = <<>> /\ r.dow = <<>> /\ r.easter = <<>>
HasOrd(r) == \E p \in SS(r.dow) : p[1] # 0
WellFormed(r, ds) ==
  /\ r.inter >= 1
  /\ r.wk # <<>> => (r.freq = "YEARLY" /\ r.dow # <<>> /\ ~HasOrd(r))
  /\ HasOrd(r) => r.freq \in {"MONTHLY", "YEARLY"}
  /\ r.yd # <<>> => r.freq \notin {"DAILY", "WEEKLY", "MONTHLY"}
  /\ r.md # <<>> => r.freq # "WEEKLY"
  /\ AllDay(ds) => (r.H = <<>> /\ r.M = <<>> /\ r.S = <<>> /\ DailyOrLonger(r.freq))
  /\ r.until # <<>> => AllDay(I(r.until)) = AllDay(ds)
  /\ \A x \in SS(r.S) : x \in 0..59
  /\ \A x \in SS(r.M) : x \in 0..59
  /\ \A x \in SS(r.H) : x \in 0..23
  /\ \A x \in SS(r.mon) : x \in 1..12
  /\ \A x \in SS(r.md) : x \in (1..31) \cup (-31..-1)
  /\ \A x \in SS(r.yd) : x \in (1..366) \cup (-366..-1)
  /\ \A x \in SS(r.wk) : x \in (1..53) \cup (-53..-1)
  /\ \A x \in SS(r.pos) : x \in (1..366) \cup (-366..-1)
  /\ \A p \in SS(r.dow) : p[2] \in 1..7 /\ p[1] \in -53..53
  /\ r.easter = <<>> \/ r.freq = "YEARLY"

(* ---------------- DTSTART defaults ---------------- *)
(* a rule part that is absent is taken from DTSTART, per the RFC *)
Eff(r, ds) ==
  IF ~NoDayParts(r) THEN r
  ELSE CASE r.freq = "YEARLY"  -> [r EXCEPT !.md = <<ds.d>>, !.mon = IF r.mon = <<>> THEN <<ds.m>> ELSE r.mon]
         [] r.freq = "MONTHLY" -> [r EXCEPT !.md = <<ds.d>>]
         [] r.freq = "WEEKLY"  -> [r EXCEPT !.dow = << <<0, WeekdayOfDays(Day(ds))>> >>]
         [] OTHER -> r

(* ---------------- day-level rule parts ---------------- *)
MdOk(r, c) == r.md = <<>> \/ \E x \in SS(r.md) : (x > 0 /\ x = c.d) \/ (x < 0 /\ DIM(c.y, c.m) + 1 + x = c.d)
MonOk(r, c) == r.mon = <<>> \/ c.m \in SS(r.mon)
YdOk(r, n, c) == r.yd = <<>> \/
  LET k == n - DaysFromCivil(c.y, 1, 1) + 1 IN \E x \in SS(r.yd) : (x > 0 /\ x = k) \/ (x < 0 /\ DIY(c.y) + 1 + x = k)
(* ISO 8601 weeks of the period's year py *)
WkOk(r, n, py) == r.wk = <<>> \/
  LET w == ISOWeekOfDays(n) IN w.y = py /\ \E x \in SS(r.wk) : (x > 0 /\ x = w.w) \/ (x < 0 /\ WeeksInYear(py) + 1 + x = w.w)
(* ordinals count inside the month for MONTHLY and for YEARLY with BYMONTH, else inside the year *)
OrdInMonth(r) == r.freq = "MONTHLY" \/ (r.freq = "YEARLY" /\ r.mon # <<>>)
DowOk(r, n, c) == r.dow = <<>> \/
  LET lo == IF OrdInMonth(r) THEN DaysFromCivil(c.y, c.m, 1) ELSE DaysFromCivil(c.y, 1, 1)
      hi == IF OrdInMonth(r) THEN DaysFromCivil(c.y, c.m, DIM(c.y, c.m)) ELSE DaysFromCivil(c.y, 12, 31)
  IN \E p \in SS(r.dow) :
       /\ WeekdayOfDays(n) = p[2]
       /\ \/ p[1] = 0
          \/ p[1] > 0 /\ ((n - lo) \div 7) + 1 = p[1]
          \/ p[1] < 0 /\ ((hi - n) \div 7) + 1 = -p[1]
(* BYEASTER=N: N days after Easter Sunday of the period's year *)
EasterOk(r, n, py) == r.easter = <<>> \/ \E x \in SS(r.easter) : n = EasterDays(py) + x
DayOk(r, n, py) ==
  LET c == CivilFromDays(n) IN
  MonOk(r, c) /\ MdOk(r, c) /\ YdOk(r, n, c) /\ WkOk(r, n, py) /\ DowOk(r, n, c) /\ EasterOk(r, n, py)

(* ---------------- candidate days of a period (a superset, then filtered) ---------------- *)
MonthsOf(r) == IF r.mon = <<>> THEN 1..12 ELSE SS(r.mon)
MdDays(r, y, ms) ==
  {DaysFromCivil(y, m, IF x > 0 THEN x ELSE DIM(y, m) + 1 + x) :
     <<m, x>> \in {q \in ms \X SS(r.md) : (q[2] > 0 /\ q[2] <= DIM(y, q[1])) \/ (q[2] < 0 /\ DIM(y, q[1]) + 1 + q[2] >= 1)}}
YearCands(r, y) ==
  IF r.easter # <<>> THEN {EasterDays(y) + x : x \in SS(r.easter)}
  ELSE IF r.md # <<>> THEN MdDays(r, y, MonthsOf(r))
  ELSE IF r.yd # <<>> THEN {DaysFromCivil(y, 1, 1) + (IF x > 0 THEN x - 1 ELSE DIY(y) + x) : x \in {z \in SS(r.yd) : (z > 0 /\ z <= DIY(y)) \/ (z < 0 /\ -z <= DIY(y))}}
  ELSE IF r.wk # <<>> THEN ISOWeek1Monday(y)..(ISOWeek1Monday(y + 1) - 1)
  ELSE IF r.mon # <<>> THEN UNION {DaysFromCivil(y, m, 1)..DaysFromCivil(y, m, DIM(y, m)) : m \in SS(r.mon)}
  ELSE DaysFromCivil(y, 1, 1)..DaysFromCivil(y, 12, 31)
MonthCands(r, y, m) ==
  IF r.md # <<>> THEN MdDays(r, y, {m}) ELSE DaysFromCivil(y, m, 1)..DaysFromCivil(y, m, DIM(y, m))

(* ---------------- time-of-day expansion ---------------- *)
TimesOf(r, ds) ==
  IF AllDay(ds) THEN <<-1>>
  ELSE LET hs == SortInts(IF r.H = <<>> THEN {ds.H} ELSE SS(r.H))
           ms == SortInts(IF r.M = <<>> THEN {ds.M} ELSE SS(r.M))
           ss == SortInts(IF r.S = <<>> THEN {ds.S} ELSE SS(r.S))
           nm == Len(ms)  ns == Len(ss)
       IN SubSeq([i \in 1..(Len(hs) * nm * ns) |->
             (hs[((i - 1) \div (nm * ns)) + 1] * 3600) + (ms[(((i - 1) \div ns) % nm) + 1] * 60) + ss[((i - 1) % ns) + 1]], 1, Len(hs) * nm * ns)
Cross(days, times) ==
  LET nt == Len(times) IN SubSeq([i \in 1..(Len(days) * nt) |-> <<days[((i - 1) \div nt) + 1], times[((i - 1) % nt) + 1]>>], 1, Len(days) * nt)

(* ---------------- BYSETPOS ---------------- *)
SetPos(r, c) ==
  IF r.pos = <<>> THEN c
  ELSE LET L == Len(c)
           idx == {IF p > 0 THEN p ELSE L + 1 + p : p \in {q \in SS(r.pos) : (q > 0 /\ q <= L) \/ (q < 0 /\ -q <= L)}}
           si == SortInts(idx)
       IN [i \in 1..Len(si) |-> c[si[i]]]

(* ---------------- SHIFT extension ---------------- *)
RECURSIVE BizStep(_, _)
(* n is a business day; move k business days (k may be negative) *)
BizStep(n, k) ==
  IF k = 0 THEN n
  ELSE LET s == IF k > 0 THEN 1 ELSE -1
           nx == IF IsBizDay(n + s) THEN n + s ELSE IF IsBizDay(n + (2 * s)) THEN n + (2 * s) ELSE n + (3 * s)
       IN BizStep(nx, k - s)
RECURSIVE ToBiz(_, _)
ToBiz(n, dir) == IF IsBizDay(n) THEN n ELSE ToBiz(n + dir, dir)
HasShift(r) == r.shift[1] # 0 \/ r.shift[3] # 0
Abs(x) == IF x < 0 THEN -x ELSE x
(* SHIFT=d,bB: first d calendar days; then the business day part: a date on a weekend is moved to the adjacent   *)
(* business day in the direction of the shift - with the plain spelling (3B, -3B) that day is the first of the   *)
(* b business days (Sunday + 1B = Monday, as in the pinned test rrul_50), with the B+ / B- spellings (3B+, -3B-)  *)
(* it is not (Sunday + 1B+ = Tuesday) - and the remaining business days are counted from there.  0B / 0B+ move a *)
(* weekend date to Monday, -0B / 0B- to Friday.                                                                  *)
ShiftDay(r, n) ==
  IF ~HasShift(r) THEN n ELSE
  LET a == n + r.shift[1]
      dir == r.shift[3]
      b == Abs(r.shift[2])
      inv == Len(r.shift) >= 4 /\ r.shift[4] = 1
  IN IF dir = 0 THEN a
     ELSE IF IsBizDay(a) THEN BizStep(a, dir * b)
     ELSE BizStep(ToBiz(a, dir), dir * (IF b > 0 /\ ~inv THEN b - 1 ELSE b))
ShiftAll(r, c) == IF ~HasShift(r) THEN c ELSE [i \in 1..Len(c) |-> <<ShiftDay(r, c[i][1]), c[i][2]>>]
(* rules whose selected dates can end up in another period: BYEASTER offsets and SHIFT *)
Displaced(r) == HasShift(r) \/ r.easter # <<>>
(* no date is displaced by more than this many days: 366 + 366 business days + weekends *)
MaxDispl == 900

(* ---------------- one period for FREQ >= DAILY ---------------- *)
(* returns the period's ordered occurrence sequence, and whether the period starts after "last" *)
PeriodY(r, ds, k) ==
  LET y == ds.y + (k * r.inter) IN
  [start |-> DaysFromCivil(y, 1, 1) - 7, days |-> {n \in YearCands(r, y) : DayOk(r, n, y)}]
PeriodM(r, ds, k) ==
  LET m0 == (ds.m - 1) + (k * r.inter)
      y == ds.y + (m0 \div 12)
      m == (m0 % 12) + 1 IN
  [start |-> DaysFromCivil(y, m, 1),
   days |-> IF r.mon # <<>> /\ m \notin SS(r.mon) THEN {} ELSE {n \in MonthCands(r, y, m) : DayOk(r, n, y)}]
PeriodW(r, ds, k) ==
  LET mon == (Day(ds) - (WeekdayOfDays(Day(ds)) - 1)) + (7 * k * r.inter) IN
  [start |-> mon, days |-> {n \in mon..(mon + 6) : DayOk(r, n, CivilFromDays(n).y)}]
PeriodD(r, ds, k) ==
  LET n == Day(ds) + (k * r.inter) IN
  [start |-> n, days |-> IF DayOk(r, n, CivilFromDays(n).y) THEN {n} ELSE {}]
Period(r, ds, k) ==
  CASE r.freq = "YEARLY" -> PeriodY(r, ds, k) [] r.freq = "MONTHLY" -> PeriodM(r, ds, k)
    [] r.freq = "WEEKLY" -> PeriodW(r, ds, k) [] OTHER -> PeriodD(r, ds, k)

(* ---------------- the recurrence set as a bounded machine ---------------- *)
(* state: k period index (daily or longer) or cur = <<day, sod>> period start (sub-daily); *)
(* out collected members, done                                               *)
LastOf(r, hz) == IF r.until = <<>> THEN hz ELSE LET u == Pair(I(r.until)) IN IF PLt(u, hz) THEN u ELSE hz
RECURSIVE Take(_, _, _, _, _, _)
(* append members of c (ordered) that are >= first and <= last, until lim members are there *)
Take(c, i, first, last, lim, out) ==
  IF i > Len(c) \/ Len(out) >= lim THEN out
  ELSE IF PLt(c[i], first) \/ PLt(last, c[i]) THEN Take(c, i + 1, first, last, lim, out)
  ELSE Take(c, i + 1, first, last, lim, Append(out, c[i]))
RECURSIVE TakeT(_, _, _, _, _, _, _), TakeD(_, _, _, _, _, _, _)
(* the same, day by day, without building the (days x times) product *)
TakeT(d, times, j, first, last, lim, out) ==
  IF j > Len(times) \/ Len(out) >= lim THEN out
  ELSE LET x == <<d, times[j]>> IN
       IF PLt(x, first) \/ PLt(last, x) THEN TakeT(d, times, j + 1, first, last, lim, out)
       ELSE TakeT(d, times, j + 1, first, last, lim, Append(out, x))
TakeD(days, times, i, first, last, lim, out) ==
  IF i > Len(days) \/ Len(out) >= lim THEN out
  ELSE IF days[i] < first[1] \/ days[i] > last[1] THEN TakeD(days, times, i + 1, first, last, lim, out)
  ELSE TakeD(days, times, i + 1, first, last, lim, TakeT(days[i], times, 1, first, last, lim, out))
StepLong0(r, ds, times, st, last, lim) ==
  LET p == Period(r, ds, st.k) IN
  IF p.start > last[1] THEN [st EXCEPT !.done = TRUE]
  ELSE LET o == IF r.pos = <<>>
                THEN TakeD(SortInts(p.days), times, 1, Pair(ds), last, lim, st.out)
                ELSE Take(SetPos(r, Cross(SortInts(p.days), times)), 1, Pair(ds), last, lim, st.out)
       IN [st EXCEPT !.k = @ + 1, !.out = o, !.done = Len(o) >= lim]
(* displaced rules: the selected dates of every period - those before DTSTART's period included - are moved,    *)
(* dates that coincide are one date, and the moved date is what DTSTART, UNTIL and COUNT apply to.  Moved dates  *)
(* wait in st.pend until no later period can still produce an earlier one.                                       *)
StepLongX(r, ds, times, st, last, lim) ==
  LET p == Period(r, ds, st.k)
      nxt == Period(r, ds, st.k + 1).start
      sel == IF r.pos = <<>> THEN {<<ShiftDay(r, n), times[j]>> : n \in p.days, j \in 1..Len(times)}
             ELSE LET c == ShiftAll(r, SetPos(r, Cross(SortInts(p.days), times))) IN {c[i] : i \in 1..Len(c)}
      pend == st.pend \cup {x \in sel : ~PLt(x, Pair(ds)) /\ ~PLt(last, x)}
      over == p.start - MaxDispl > last[1]
      safe == IF over THEN pend ELSE {x \in pend : x[1] < nxt - MaxDispl}
      srt == SetToSortSeq(safe, PLt)
      room == lim - Len(st.out)
      o == st.out \o (IF Len(srt) > room THEN SubSeq(srt, 1, room) ELSE srt)
  IN [st EXCEPT !.k = @ + 1, !.out = o, !.pend = pend \ safe, !.done = over \/ Len(o) >= lim]
StepLong(r, ds, times, st, last, lim) ==
  IF Displaced(r) THEN StepLongX(r, ds, times, st, last, lim) ELSE StepLong0(r, ds, times, st, last, lim)
(* the first period looked at: far enough before DTSTART's for displaced rules *)
FirstK(r) ==
  IF ~Displaced(r) \/ ~DailyOrLonger(r.freq) THEN 0
  ELSE CASE r.freq = "YEARLY" -> -((3 \div r.inter) + 1)
         [] r.freq = "MONTHLY" -> -((31 \div r.inter) + 1)
         [] r.freq = "WEEKLY" -> -((130 \div r.inter) + 1)
         [] OTHER -> -((MaxDispl \div r.inter) + 1)

(* sub-daily: the period is one hour / minute / second starting at cur *)
AddSecs(cur, s) == <<cur[1] + ((cur[2] + s) \div 86400), (cur[2] + s) % 86400>>
(* smallest multiple of P = inter*unit that moves cur to the next boundary of size g at least *)
JumpTo(cur, P, g) ==
  LET rest == g - (cur[2] % g)
      j == ((rest + P) - 1) \div P
  IN AddSecs(cur, j * P)
StepShort(r, ds, st, last, lim) ==
  LET cur == st.cur
      P == r.inter * Unit(r.freq)
      hh == cur[2] \div 3600  mm == (cur[2] % 3600) \div 60  ss == cur[2] % 60
  IN
  IF PLt(last, cur) THEN [st EXCEPT !.done = TRUE]
  ELSE IF ~DayOk(r, cur[1], CivilFromDays(cur[1]).y) THEN [st EXCEPT !.cur = JumpTo(cur, P, 86400)]
  ELSE IF r.H # <<>> /\ hh \notin SS(r.H) THEN [st EXCEPT !.cur = JumpTo(cur, P, 3600)]
  ELSE IF r.freq # "HOURLY" /\ r.M # <<>> /\ mm \notin SS(r.M) THEN [st EXCEPT !.cur = JumpTo(cur, P, 60)]
  ELSE IF r.freq = "SECONDLY" /\ r.S # <<>> /\ ss \notin SS(r.S) THEN [st EXCEPT !.cur = AddSecs(cur, P)]
  ELSE LET mins == IF r.freq = "HOURLY" THEN SortInts(IF r.M = <<>> THEN {ds.M} ELSE SS(r.M)) ELSE <<mm>>
           secs == IF r.freq = "SECONDLY" THEN <<ss>> ELSE SortInts(IF r.S = <<>> THEN {ds.S} ELSE SS(r.S))
           ns == Len(secs)
           c0 == [i \in 1..(Len(mins) * ns) |-> <<cur[1], (hh * 3600) + (mins[((i - 1) \div ns) + 1] * 60) + secs[((i - 1) % ns) + 1]>>]
           o == Take(SetPos(r, c0), 1, Pair(ds), last, lim, st.out)
       IN [st EXCEPT !.cur = AddSecs(cur, P), !.out = o, !.done = Len(o) >= lim]

Step(r, ds, times, st, last, lim) ==
  IF DailyOrLonger(r.freq) THEN StepLong(r, ds, times, st, last, lim) ELSE StepShort(r, ds, st, last, lim)

(* two-level iteration keeps the recursion shallow: at most B1*B2 steps *)
B1 == 64
RECURSIVE Run1(_, _, _, _, _, _, _), Run2(_, _, _, _, _, _, _)
Run1(r, ds, times, st, last, lim, n) ==
  IF n = 0 \/ st.done THEN st ELSE Run1(r, ds, times, Step(r, ds, times, st, last, lim), last, lim, n - 1)
Run2(r, ds, times, st, last, lim, m) ==
  IF m = 0 \/ st.done THEN st ELSE Run2(r, ds, times, Run1(r, ds, times, st, last, lim, B1), last, lim, m - 1)

(* period start of DTSTART for the sub-daily frequencies *)
Start(r, ds) ==
  LET p == Pair(ds) IN
  CASE r.freq = "HOURLY" -> <<p[1], (p[2] \div 3600) * 3600>>
    [] r.freq = "MINUTELY" -> <<p[1], (p[2] \div 60) * 60>>
    [] OTHER -> p

(* first lim members of the recurrence set not after hz; exhausted = the set has no further member up to hz *)
RSet(r0, ds, hz, lim0, budget) ==
  LET r == Eff(r0, ds)
      lim == IF r.count > 0 /\ r.count < lim0 THEN r.count ELSE lim0
      last == LastOf(r, hz)
      st0 == [k |-> FirstK(r), cur |-> Start(r, ds), out |-> <<>>, done |-> FALSE, pend |-> {}]
      fin == Run2(r, ds, TimesOf(r, ds), st0, last, lim, budget)
  IN [occ |-> fin.out, decided |-> fin.done, hitcount |-> r.count > 0 /\ Len(fin.out) >= r.count]

(* the RFC leaves the result undefined unless DTSTART is the first instance *)
Synchronised(r, ds, hz) ==
  LET x == RSet(r, ds, hz, 1, 16) IN x.decided /\ Len(x.occ) = 1 /\ x.occ[1] = Pair(ds)
=============================================================================
