SPECIFICATION Spec
CONSTANTS
 Users <- UsersV
 Tasks <- TasksV
 MaxChanges = 3
 FallbackFixed = TRUE
 SweepSpool = TRUE
INVARIANT LiveNeverTorn
INVARIANT NothingForgotten
CHECK_DEADLOCK FALSE
