---------------------------- MODULE ConnProtoE1 ----------------------------
(* E1 for ConnProto: every way of cutting a listing request and a short    *)
(* piece of calendar data into up to three reads; the connection is closed *)
(* once the peer is done, a listing is answered exactly when its request   *)
(* line is inside the first read, and the step relation agrees with the    *)
(* function Outcome the trace evaluator uses.                              *)
EXTENDS ConnProto, TLC
Listing == Verb \o <<113>> \o Vers \o <<13, 10>>               \* GET /q HTTP/1.1 CR LF CR LF
Cal == <<66, 69, 71, 73, 78, 58, 86, 10>>                       \* BEGIN:V LF
Texts == {Listing, Cal}
Cuts(t) == {<<t>>} \cup {<<SubSeq(t, 1, i), SubSeq(t, i + 1, Len(t))>> : i \in 1..(Len(t) - 1)}
            \cup {<<SubSeq(t, 1, i), SubSeq(t, i + 1, j), SubSeq(t, j + 1, Len(t))>> : i \in 1..(Len(t) - 2), j \in 2..(Len(t) - 1)}
AllReads == UNION {{c \in Cuts(t) : \A k \in 1..Len(c) : c[k] # <<>>} : t \in Texts}
VARIABLE given
InitE == \E rs \in AllReads : given = rs /\ Init(rs)
NextE == Next /\ UNCHANGED given
SpecE == InitE /\ [][NextE]_<<vars, given>>
Whole(rs) == LET RECURSIVE Cat(_) Cat(s) == IF s = <<>> THEN <<>> ELSE Head(s) \o Cat(Tail(s)) IN Cat(rs)
AgreesWithOutcome == reads = <<>> => (kind = Outcome(given).kind /\ answered = Outcome(given).answered)
ListingRule == reads = <<>> => (answered <=> IsListing(given[1]))
=============================================================================
