------------------------------- MODULE TextE1 -------------------------------
(* E1 for C18: the text contract is self-consistent: on the model,        *)
(* ParseDT(PrintISO(i)) = i, ParseDT(PrintICal(i)) = i up to what the     *)
(* form carries, for every instant of a boundary grid; and equivalent     *)
(* duration spellings built from (d,h,m,s) denote the same value.         *)
EXTENDS DtText, TLC, IOUtils
Thorough == "TIER" \in DOMAIN IOEnv /\ IOEnv.TIER = "thorough"
Ys == IF Thorough THEN {1901, 2000, 2024, 2099} ELSE {2000, 2099}
Hs == {255, 0, 9, 10, 23}
MSs == {1023, 0, 7, 999}
VARIABLES y, m, d, H, ms
vars == <<y, m, d, H, ms>>
Init == y \in Ys /\ m \in 1..12 /\ d \in {1, 9, 10, 28, 29, 30, 31} /\ H \in Hs /\ ms \in MSs
Next == UNCHANGED vars
Spec == Init /\ [][Next]_vars
inst == IF H = 255 THEN [y |-> y, m |-> m, d |-> d, H |-> 255, M |-> 0, S |-> 0, ms |-> 0]
        ELSE [y |-> y, m |-> m, d |-> d, H |-> H, M |-> (H * 7) % 60, S |-> (d * 2) % 60, ms |-> ms]
RoundTripISO == ValidDate(y, m, d) => ParseDT(PrintISO(inst)) = inst
RoundTripICal == ValidDate(y, m, d) => ParseDT(PrintICal(inst)) = CarriedByICal(inst)
InvalidRejected == ~ValidDate(y, m, d) => IsNul(ParseDT(PrintISO(inst)))
(* duration spellings: P{d}DT{h}H{mi}M{s}S == PT{total}S *)
Dec(n) == IF n < 10 THEN <<48 + n>> ELSE IF n < 100 THEN D2(n) ELSE IF n < 1000 THEN D3(n) ELSE D4(n)
DurA == <<PEE>> \o Dec(d) \o <<DEE, TEE>> \o Dec(H % 24) \o <<AITCH>> \o Dec(m) \o <<EM>> \o Dec(d + 20) \o <<ESS>>
DurB == <<PLUS, PEE, TEE>> \o Dec(((d * 24) + (H % 24)) \div 1) \o <<AITCH>> \o Dec(m) \o <<EM>> \o Dec(d + 20) \o <<ESS>>
DurSpellingsAgree == ParseDur(DurA) = ParseDur(DurB) /\ ParseDur(DurA) # DurUndef
                     /\ ParseDur(DurA) = NormDur(d, ((H % 24) * 3600000) + (m * 60000) + ((d + 20) * 1000))
WeekIsSevenDays == ParseDur(<<PEE>> \o Dec(m) \o <<WEE>>) = <<7 * m, 0>>
=============================================================================
