------------------------------ MODULE TraceExec ------------------------------
(* E2 for C13: every recorded run of the real echsx process is judged      *)
(* against Executor.tla.                                                    *)
EXTENDS Executor, TLC, Json, IOUtils
Tr == ndJsonDeserialize(IOEnv.TRACE)
Tok(s) == [i \in 1..Len(s) |-> <<s[i][1], s[i][2], s[i][3]>>]
Obs(o) == [o EXCEPT !.ofile = Tok(@), !.efile = Tok(@), !.mail = Tok(@)]
Job(j) == [j EXCEPT !.out = Tok(@), !.err = Tok(@)]
Verdict(r) == IF "died" \in DOMAIN r THEN "bad" ELSE IF ExecOk(r.rq, Job(r.job), Obs(r.obs)) THEN "ok" ELSE "bad"
N == Len(Tr)
BadSet == {k \in 1..N : Verdict(Tr[k]) = "bad"}
ASSUME JsonSerialize(IOEnv.OUT, [n |-> N, nbad |-> Cardinality(BadSet), nskip |-> 0, bad |-> BadSet])
=============================================================================
