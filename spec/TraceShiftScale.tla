-------------------------- MODULE TraceShiftScale --------------------------
(* E2 for C17, SHIFT in rules with a calendar scale (any SCALE=HIJRI).  A   *)
(* shift moves a date by calendar days and business days; both are notions  *)
(* of the day count and the week, not of any month-and-day calendar, so the *)
(* README reading of SHIFT (RRule!ShiftDay) applies to the dates a scaled   *)
(* rule selects exactly as it applies to Gregorian ones.  A record holds    *)
(* two recorded streams of the real code: base, the rule WITHOUT SHIFT,     *)
(* UNTIL and COUNT from a DTSTART 90 days earlier (what the scaled rule     *)
(* selects is C15/C16 matter and taken as given), and occ, the rule as      *)
(* written.  occ must be: the base dates moved by ShiftDay, coinciding      *)
(* dates one date, none before DTSTART, none after UNTIL, the first COUNT.  *)
(* Only the stretch of time for which base is complete is compared.         *)
EXTENDS RRule, TLC, Json, IOUtils
Tr == ndJsonDeserialize(IOEnv.TRACE)
Span == 60                \* no shift generated moves a date by more than this many days
P(s) == [i \in 1..Len(s) |-> Pair(I(s[i]))]
Verdict(r) ==
  IF "crash" \in DOMAIN r \/ "timeout" \in DOMAIN r \/ "noevent" \in DOMAIN r THEN "bad"
  ELSE IF r.base = <<>> THEN "skip"
  ELSE
  LET ds    == Pair(I(r.ds))
      base  == P(r.base)
      obs   == P(r.occ)
      H     == IF r.basestop = "eos" THEN 100000000 ELSE base[Len(base)][1] - Span      \* base is complete up to here
      moved == {<<ShiftDay(r.rule, base[i][1]), base[i][2]>> : i \in 1..Len(base)}
      u     == IF r.until = <<>> THEN <<100000000, 0>> ELSE Pair(I(r.until))
      kept  == {m \in moved : ~PLt(m, ds) /\ ~PLt(u, m) /\ m[1] <= H}
      all   == SetToSortSeq(kept, PLt)
      exp   == IF r.count > 0 /\ Len(all) > r.count THEN SubSeq(all, 1, r.count) ELSE all
      obsH  == SelectSeq(obs, LAMBDA o : o[1] <= H)
      (* the recorded stream ended by itself: is that end inside the stretch we can judge?  By UNTIL, or by COUNT *)
      ended == (r.until # <<>> /\ u[1] < H) \/ (r.count > 0 /\ Len(all) >= r.count)
  IN IF r.stop = "n"
     THEN (* cut off after so many occurrences: what came out is the beginning of what is expected *)
          IF Len(obsH) = 0 THEN "skip"
          ELSE IF r.peekmism # 0 THEN "bad"
          ELSE IF Len(obsH) = Len(obs) THEN (IF Len(obs) <= Len(exp) /\ SubSeq(exp, 1, Len(obs)) = obs THEN "ok" ELSE "bad")
          ELSE (IF exp = obsH THEN "ok" ELSE "bad")
     ELSE IF ~ended THEN (IF Len(obsH) <= Len(exp) /\ SubSeq(exp, 1, Len(obsH)) = obsH THEN "skip" ELSE "bad")
     ELSE IF exp = obs /\ r.peekmism = 0 THEN "ok" ELSE "bad"
N == Len(Tr)
VS == {<<k, Verdict(Tr[k])>> : k \in 1..N}
Res == LET vs == VS IN [bad |-> {p[1] : p \in {q \in vs : q[2] = "bad"}}, skip |-> {p[1] : p \in {q \in vs : q[2] = "skip"}}]
ASSUME LET res == Res IN JsonSerialize(IOEnv.OUT, [n |-> N, nbad |-> Cardinality(res.bad), nskip |-> Cardinality(res.skip), bad |-> res.bad, skip |-> res.skip])
=============================================================================
