------------------------------- MODULE SortE1 -------------------------------
(* E1 for C20: the contract IsStableSortedPerm is neither vacuous nor     *)
(* ambiguous: for every input of length <= MaxLen over a key table that   *)
(* contains an all-day, a whole-second and two timed instants of the same *)
(* day plus a later day, exactly one output satisfies it, namely the one  *)
(* a textbook stable insertion sort produces.                             *)
EXTENDS Sort, TLC

Keys == << <<2020,2,29,255,0,0,0>>, <<2020,2,29,0,0,0,1023>>, <<2020,2,29,0,0,0,0>>, <<2020,2,29,0,0,0,1>>, <<2020,3,1,255,0,0,0>> >>
MaxLen == 4
VARIABLES in
Init == in \in UNION {[1..n -> 1..Len(Keys)] : n \in 0..MaxLen}
Next == UNCHANGED in
Spec == Init /\ [][Next]_in

KLt(a, b) == Lt(I(Keys[a]), I(Keys[b]))
RECURSIVE Ins(_, _), ISort(_, _)
(* insert element e = <<key, id>> after all elements not greater than it *)
Ins(s, e) == IF s = <<>> THEN <<e>>
             ELSE IF KLt(e[1], s[Len(s)][1]) THEN Append(Ins(SubSeq(s, 1, Len(s) - 1), e), s[Len(s)])
             ELSE Append(s, e)
ISort(k, acc) == IF k > Len(in) THEN acc ELSE ISort(k + 1, Ins(acc, <<in[k], k>>))
Reference == ISort(1, <<>>)
ContractAcceptsReference == IsStableSortedPerm(Keys, in, Reference)
(* any output that differs from the reference in one transposition is rejected *)
Swapped(s, j) == [s EXCEPT ![j] = s[j + 1], ![j + 1] = s[j]]
ContractRejectsTranspositions ==
  \A j \in 1..(Len(in) - 1) : ~IsStableSortedPerm(Keys, in, Swapped(Reference, j))
ContractRejectsLossAndDup ==
  Len(in) >= 2 => /\ ~IsStableSortedPerm(Keys, in, SubSeq(Reference, 1, Len(in) - 1))
                  /\ ~IsStableSortedPerm(Keys, in, [Reference EXCEPT ![2] = Reference[1]])
AllDayFirstInOrder == KLt(1, 2) /\ KLt(2, 3) /\ KLt(3, 4) /\ KLt(4, 5)
=============================================================================
