------------------------------- MODULE DtText -------------------------------
(* Contract for the text forms of instants and durations (src/dt-strpf.c) *)
(* Text is a sequence of ASCII codes (TLC strings cannot be indexed).     *)
(* Date-times: iCalendar basic form YYYYMMDD[THHMMSS[Z]] and ISO extended *)
(* form YYYY-MM-DD[(T| )HH:MM[:SS[.fff]]][Z].  Durations: RFC 5545 / ISO  *)
(* 8601  [+|-]P(nW | [nD][T[nH][nM][nS]]), value as <<days, ms>>.         *)
EXTENDS Instant

IsDigit(c) == c \in 48..57
At(s, p) == IF p >= 1 /\ p <= Len(s) THEN s[p] ELSE 0
RECURSIVE NumAt(_, _, _, _)
(* value of exactly n digits starting at p, -1 if not all digits *)
NumAt(s, p, n, acc) ==
  IF n = 0 THEN acc
  ELSE IF IsDigit(At(s, p)) THEN NumAt(s, p + 1, n - 1, (acc * 10) + (At(s, p) - 48)) ELSE -1
Num(s, p, n) == NumAt(s, p, n, 0)

DASH == 45  COLON == 58  TEE == 84  ZED == 90  DOT == 46  SPACE == 32
PLUS == 43  MINUS == 45  PEE == 80  WEE == 87  DEE == 68  AITCH == 72  EM == 77  ESS == 83

(* ---- date-time parsing: returns an instant or Nul (= rejected) ---- *)
ParseTime(s, p, ext, y, m, d) ==
  LET H  == Num(s, p, 2)
      pm == p + 2 + (IF ext THEN 1 ELSE 0)
      M  == Num(s, pm, 2)
      ps == pm + 2 + (IF ext THEN 1 ELSE 0)
      sepOk == ext => (At(s, p + 2) = COLON)
      hasS == IF ext THEN At(s, pm + 2) = COLON ELSE IsDigit(At(s, pm + 2))
      S  == IF hasS THEN Num(s, ps, 2) ELSE 0
      pe == IF hasS THEN ps + 2 ELSE pm + 2
      hasF == ext /\ hasS /\ At(s, pe) = DOT
      F  == IF hasF THEN Num(s, pe + 1, 3) ELSE 0
      pz == IF hasF THEN pe + 4 ELSE pe
      tailOk == pz = Len(s) + 1 \/ (pz = Len(s) /\ At(s, pz) = ZED)
  (* the printers always write seconds, so HH:MM alone is outside the contract *)
  IN IF H \in 0..23 /\ M \in 0..59 /\ hasS /\ S \in 0..59 /\ F >= 0 /\ sepOk /\ tailOk
     THEN [y |-> y, m |-> m, d |-> d, H |-> H, M |-> M, S |-> S, ms |-> IF hasF THEN F ELSE ALLSEC]
     ELSE Nul
ParseDT(s) ==
  LET y   == Num(s, 1, 4)
      ext == At(s, 5) = DASH
      pm  == IF ext THEN 6 ELSE 5
      m   == Num(s, pm, 2)
      pd  == pm + 2 + (IF ext THEN 1 ELSE 0)
      d   == Num(s, pd, 2)
      pt  == pd + 2
      dateOk == y >= 0 /\ m >= 0 /\ d >= 0 /\ (ext => At(s, pm + 2) = DASH) /\ ValidDate(y, m, d)
  IN IF ~dateOk THEN Nul
     ELSE IF pt = Len(s) + 1 THEN [y |-> y, m |-> m, d |-> d, H |-> ALLDAY, M |-> 0, S |-> 0, ms |-> 0]
     ELSE IF At(s, pt) = TEE \/ (ext /\ At(s, pt) = SPACE) THEN ParseTime(s, pt + 1, ext, y, m, d)
     ELSE Nul

(* ---- printing ---- *)
D2(n) == <<48 + (n \div 10), 48 + (n % 10)>>
D3(n) == <<48 + (n \div 100), 48 + ((n \div 10) % 10), 48 + (n % 10)>>
D4(n) == <<48 + (n \div 1000), 48 + ((n \div 100) % 10), 48 + ((n \div 10) % 10), 48 + (n % 10)>>
PrintISO(i) ==
  D4(i.y) \o <<DASH>> \o D2(i.m) \o <<DASH>> \o D2(i.d) \o
  (IF AllDay(i) THEN <<>> ELSE <<TEE>> \o D2(i.H) \o <<COLON>> \o D2(i.M) \o <<COLON>> \o D2(i.S) \o
     (IF AllSec(i) THEN <<>> ELSE <<DOT>> \o D3(i.ms)))
PrintICal(i) ==
  D4(i.y) \o D2(i.m) \o D2(i.d) \o
  (IF AllDay(i) THEN <<>> ELSE <<TEE>> \o D2(i.H) \o D2(i.M) \o D2(i.S) \o <<ZED>>)
(* what a form can carry: iCalendar text has second resolution *)
CarriedByICal(i) == IF AllDay(i) THEN i ELSE [i EXCEPT !.ms = ALLSEC]

(* ---- durations ---- *)
RECURSIVE DigitsEnd(_, _)
DigitsEnd(s, p) == IF IsDigit(At(s, p)) THEN DigitsEnd(s, p + 1) ELSE p   \* first non-digit at or after p
NumRun(s, p) == LET e == DigitsEnd(s, p) IN IF e = p \/ e - p > 9 THEN -1 ELSE Num(s, p, e - p)
DurUndef == <<-1000000, 0>>
(* n units of u ms (u divides a day) as <<days, ms>> without leaving 32 bits *)
Units(n, u) == LET perDay == MSPD \div u IN <<n \div perDay, (n % perDay) * u>>
DAdd(a, b) == NormDur(a[1] + b[1], a[2] + b[2])
(* optional "n X" element at p: returns [ok, next, val] *)
Elem(s, p, letter, u) ==
  LET e == DigitsEnd(s, p) IN
  IF e > p /\ At(s, e) = letter /\ e - p <= 9 THEN [hit |-> TRUE, nxt |-> e + 1, val |-> Units(Num(s, p, e - p), u)]
  ELSE [hit |-> FALSE, nxt |-> p, val |-> <<0, 0>>]
ParseDur(s) ==
  LET sg == IF At(s, 1) = MINUS THEN -1 ELSE 1
      p0 == IF At(s, 1) \in {PLUS, MINUS} THEN 2 ELSE 1
      w  == Elem(s, p0 + 1, WEE, MSPD)
      (* the code reads [nW][nD] in that order before the time part, beyond the RFC 5545 grammar it quotes: nW alone is  *)
      (* the legal form, nWnD[T..] and nWT.. are the combinations the statement speaks of, read as the sum             *)
      d  == Elem(s, w.nxt, DEE, MSPD)
      pt == d.nxt
      hasT == At(s, pt) = TEE
      h  == Elem(s, pt + 1, AITCH, 3600000)
      mi == Elem(s, h.nxt, EM, 60000)
      se == Elem(s, mi.nxt, ESS, 1000)
      wv == <<w.val[1] * 7, 0>>
      dat == DAdd(wv, d.val)
      tot == DAdd(DAdd(dat, h.val), DAdd(mi.val, se.val))
  (* the contract covers non-negative durations only *)
  IN IF At(s, p0) # PEE \/ sg = -1 THEN DurUndef
     ELSE IF ~hasT THEN (IF (w.hit \/ d.hit) /\ pt = Len(s) + 1 THEN (IF sg = 1 THEN dat ELSE NegDur(dat)) ELSE DurUndef)
     ELSE IF (h.hit \/ mi.hit \/ se.hit) /\ se.nxt = Len(s) + 1 THEN (IF sg = 1 THEN tot ELSE NegDur(tot))
     ELSE DurUndef
=============================================================================
