------------------------------ MODULE DebugAlg ------------------------------
(* triage aid: what RSetAlg expects for every line of a (small) trace *)
EXTENDS RSetAlg, TLC, Json, IOUtils
Tr == ndJsonDeserialize(IOEnv.TRACE)
Hz(r) == <<DaysFromCivil(r.hz[1], r.hz[2], r.hz[3]), 86399>>
Civ(p) == LET c == CivilFromDays(p[1]) IN IF p[2] < 0 THEN <<c.y, c.m, c.d>> ELSE <<c.y, c.m, c.d, p[2] \div 3600, (p[2] % 3600) \div 60, p[2] % 60>>
Exp(r) == LET x == EventSet(r, Hz(r), 700, 400) IN [decided |-> x.decided, occ |-> [i \in 1..Len(x.occ) |-> Civ(x.occ[i])]]
ASSUME JsonSerialize(IOEnv.OUT, [k \in 1..Len(Tr) |-> Exp(Tr[k])])
=============================================================================
