\* constant-level evaluation only
