----------------------------- MODULE ConnTable -----------------------------
(* The daemon's table of connections (src/echsd.c: conns[], free_conns,     *)
(* make_conn(), free_conn()): 2 * H slots, a bit map of free slots that is  *)
(* searched in two halves (the code: 64 slots, two 32 bit halves, ffs() on  *)
(* each), a slot is taken and given back by flipping its bit.  A slot holds *)
(* everything that belongs to one peer: the descriptor watcher, the peer's  *)
(* credentials, the partly parsed request.                                  *)
(*                                                                          *)
(* Variant "asfound" is the search as it was: the index found in the upper  *)
(* half was used without adding H.  TLC shows what that does (SlotsSound,   *)
(* NoTakeover violated after H + 1 opens); "repaired" holds.                *)
EXTENDS Integers, FiniteSets
CONSTANTS H, MaxId, Variant
VARIABLES free,      \* the bit map: set of slots whose bit is set
          owner,     \* slot -> id of the connection living there, 0 = none
          nextid,    \* connections are numbered as they come
          refused    \* ids that were turned away
vars == <<free, owner, nextid, refused>>
Slots == 0..(2 * H - 1)
Lowest(S) == CHOOSE x \in S : \A y \in S : x <= y
Flip(S, s) == IF s \in S THEN S \ {s} ELSE S \cup {s}
Pick == LET lo == {i \in free : i < H}
            hi == {i \in free : i >= H}
        IN IF lo # {} THEN Lowest(lo)
           ELSE IF hi # {} THEN (IF Variant = "asfound" THEN Lowest(hi) - H ELSE Lowest(hi))
           ELSE -1
Init == free = Slots /\ owner = [s \in Slots |-> 0] /\ nextid = 1 /\ refused = {}
Open == /\ nextid <= MaxId
        /\ nextid' = nextid + 1
        /\ LET s == Pick IN
           IF s = -1 THEN refused' = refused \cup {nextid} /\ UNCHANGED <<free, owner>>
           ELSE free' = Flip(free, s) /\ owner' = [owner EXCEPT ![s] = nextid] /\ UNCHANGED refused
Close(s) == /\ owner[s] # 0
            /\ free' = Flip(free, s) /\ owner' = [owner EXCEPT ![s] = 0] /\ UNCHANGED <<nextid, refused>>
Next == Open \/ \E s \in Slots : Close(s)
Spec == Init /\ [][Next]_vars
(* the bit map says what the table holds *)
SlotsSound == \A s \in Slots : (s \in free) <=> (owner[s] = 0)
(* a connection keeps its slot until it is closed: nobody else is ever put there *)
NoTakeover == [][\A s \in Slots : owner[s] # 0 /\ owner'[s] # 0 => owner'[s] = owner[s]]_vars
(* a peer is turned away only when the table is full *)
RefusedOnlyWhenFull == [][refused' # refused => \A s \in Slots : owner[s] # 0]_vars
=============================================================================
