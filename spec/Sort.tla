-------------------------------- MODULE Sort --------------------------------
(* Contract of echs_instant_sort / echs_event_sort: the output is a       *)
(* permutation of the input, non-decreasing in chronological order        *)
(* (Instant!Lt: all-day before timed of the same day), and elements that  *)
(* compare equal keep their original relative order.                       *)
EXTENDS Instant, FiniteSets

(* events: in[k] = key index, element k has id k; out[j] = <<key index, id>> *)
IsStableSortedPerm(keys, in, out) ==
  LET n == Len(in) K(j) == I(keys[out[j][1]]) IN
  /\ Len(out) = n
  /\ {out[j][2] : j \in 1..n} = 1..n                       \* ids: a permutation
  /\ \A j \in 1..n : out[j][2] \in 1..n /\ out[j][1] = in[out[j][2]]  \* elements intact
  /\ \A j \in 1..(n - 1) :
       /\ ~Lt(K(j + 1), K(j))                                \* non-decreasing
       /\ (~Lt(K(j), K(j + 1))) => out[j][2] < out[j + 1][2] \* ties keep input order

(* instants carry no id: same multiset of keys, non-decreasing *)
Count(s, x) == Cardinality({k \in 1..Len(s) : s[k] = x})
IsSortedPerm(keys, in, out) ==
  /\ Len(out) = Len(in)
  /\ \A x \in 0..Len(keys) : Count(in, x) = Count(out, x)
  /\ \A j \in 1..(Len(out) - 1) : out[j] \in 1..Len(keys) /\ out[j + 1] \in 1..Len(keys)
                                  /\ ~Lt(I(keys[out[j + 1]]), I(keys[out[j]]))
=============================================================================
