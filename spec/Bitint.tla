------------------------------- MODULE Bitint -------------------------------
(* Contract of the compact integer-set containers (src/bitint.h):         *)
(* an abstract finite set over the documented range of each type.         *)
EXTENDS Integers, Sequences, FiniteSets

Range(t) ==
  CASE t = "bui31" -> 0..30
    [] t = "bui63" -> 0..62
    [] t = "bi31"  -> -31..31
    [] t = "bi63"  -> -63..63
    [] t = "bi383" -> -383..383
    [] t = "bi447" -> -447..447

SetOf(s) == {s[k] : k \in 1..Len(s)}
InRangeSeq(t, s) == \A k \in 1..Len(s) : s[k] \in Range(t)

(* it enumerates S: every member exactly once, nothing else *)
IsEnumerationOf(it, S) == SetOf(it) = S /\ Len(it) = Cardinality(S)
=============================================================================
