----------------------------- MODULE Instant -----------------------------
(* echse instants and durations, contract level.                          *)
(* An instant is a record [y,m,d,H,M,S,ms]; H = 255 marks an all-day      *)
(* value, ms = 1023 marks a whole-second value.  Durations are pairs      *)
(* <<days, ms>> with 0 <= ms < 86400000 (floor convention), because TLC   *)
(* integers are 32 bit and 64-bit millisecond counts do not fit.          *)
EXTENDS Cal

ALLDAY == 255
ALLSEC == 1023
MSPD   == 86400000

I(a) == [y |-> a[1], m |-> a[2], d |-> a[3], H |-> a[4], M |-> a[5], S |-> a[6], ms |-> a[7]]
Tup(i) == <<i.y, i.m, i.d, i.H, i.M, i.S, i.ms>>

AllDay(i) == i.H = ALLDAY
AllSec(i) == i.ms = ALLSEC
Nul == [y |-> 0, m |-> 0, d |-> 0, H |-> 0, M |-> 0, S |-> 0, ms |-> 0]
IsNul(i) == i = Nul

(* a well-formed (normalised) instant inside the supported range *)
WF(i) ==
  /\ i.y \in 1601..2199 /\ ValidDate(i.y, i.m, i.d)
  /\ \/ AllDay(i) /\ i.M = 0 /\ i.S = 0 /\ i.ms = 0
     \/ /\ i.H \in 0..23 /\ i.M \in 0..59 /\ i.S \in 0..59
        /\ (i.ms \in 0..999 \/ AllSec(i))

Day(i)   == DaysFromCivil(i.y, i.m, i.d)
SoD(i)   == IF AllDay(i) THEN 0 ELSE (i.H * 3600) + (i.M * 60) + i.S
MsFrac(i) == IF AllDay(i) \/ AllSec(i) THEN 0 ELSE i.ms
MsOfDay(i) == (SoD(i) * 1000) + MsFrac(i)

(* chronological order with "all-day sorts before timed of the same day"  *)
(* and "whole-second sorts before .000 of the same second"               *)
HKey(i) == (i.H + 1) % 256
MsKey(i) == (i.ms + 1) % 1024
SortKey(i) == <<i.y, i.m, i.d, HKey(i), i.M, i.S, MsKey(i)>>
RECURSIVE LexLt(_, _, _)
LexLt(a, b, k) ==
  IF k > Len(a) THEN FALSE
  ELSE IF a[k] < b[k] THEN TRUE
  ELSE IF a[k] > b[k] THEN FALSE
  ELSE LexLt(a, b, k + 1)
Lt(x, y) == LexLt(SortKey(x), SortKey(y), 1)
Le(x, y) == ~Lt(y, x)

(* normalise a <<days, ms>> pair with arbitrary ms *)
NormDur(dd, ms) == <<dd + (ms \div MSPD), ms % MSPD>>
NegDur(p) == IF p[2] = 0 THEN <<-p[1], 0>> ELSE <<-p[1] - 1, MSPD - p[2]>>

(* elapsed time from beg to end *)
Diff(end, beg) == NormDur(Day(end) - Day(beg), MsOfDay(end) - MsOfDay(beg))
DiffDefined(end, beg) ==
  /\ WF(end) /\ WF(beg)
  /\ AllDay(end) = AllDay(beg) /\ AllSec(end) = AllSec(beg)

(* instant reached from bas after <<dd, ms>> *)
FromDayMs(n, msod, tmpl) ==
  LET c == CivilFromDays(n)
      s == msod \div 1000
  IN  IF AllDay(tmpl)
      THEN [y |-> c.y, m |-> c.m, d |-> c.d, H |-> ALLDAY, M |-> 0, S |-> 0, ms |-> 0]
      ELSE [y |-> c.y, m |-> c.m, d |-> c.d, H |-> s \div 3600, M |-> (s % 3600) \div 60,
            S |-> s % 60, ms |-> IF AllSec(tmpl) THEN ALLSEC ELSE msod % 1000]
Add(bas, dur) ==
  LET p == NormDur(Day(bas) + dur[1], MsOfDay(bas) + dur[2])
  IN  FromDayMs(p[1], p[2], bas)
AddDefined(bas, dur) ==
  /\ WF(bas)
  /\ AllDay(bas) => dur[2] = 0
  /\ AllSec(bas) => dur[2] % 1000 = 0

(* the point in time denoted by an overflowed instant (day 32, hour 25 ..) *)
Fixup(e) ==
  LET yy  == e.y + ((e.m - 1) \div 12)
      mm  == ((e.m - 1) % 12) + 1
      d0  == DaysFromCivil(yy, mm, 1) + (e.d - 1)
  IN  IF AllDay(e) THEN FromDayMs(d0, 0, e)
      ELSE LET secs == (e.H * 3600) + (e.M * 60) + e.S + (IF AllSec(e) THEN 0 ELSE e.ms \div 1000)
               msf  == IF AllSec(e) THEN 0 ELSE e.ms % 1000
           IN  FromDayMs(d0 + (secs \div 86400), ((secs % 86400) * 1000) + msf, e)

(* unix time as <<days, seconds-of-day>> *)
ToEpoch(i) == <<Day(i), SoD(i)>>
FromEpoch(p) == FromDayMs(p[1], p[2] * 1000, [H |-> 0, ms |-> ALLSEC])
=============================================================================
