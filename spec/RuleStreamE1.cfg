SPECIFICATION SpecE
CONSTANTS
 C = 3
 N = 9
 Counts <- CountsV
INVARIANT PrefixOfSet
INVARIANT PeekIsNextPop
INVARIANT EndsRight
INVARIANT NeverTooMany
CHECK_DEADLOCK FALSE
