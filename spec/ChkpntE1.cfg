SPECIFICATION Spec
CONSTANTS
 Users <- UsersV
 Tasks <- TasksV
 MaxChanges = 4
 MaxWrites = 3
INVARIANT LiveNeverTorn
INVARIANT ReloadIsLastCheckpoint
INVARIANT CleanCheckpointSavesAll
CHECK_DEADLOCK FALSE
