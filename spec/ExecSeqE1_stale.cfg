SPECIFICATION Spec
CONSTANTS
 Reqs <- ReqsV
 DisarmOnFailure = FALSE
INVARIANT TaskContract
INVARIANT ExecutorSurvives
INVARIANT Completes
CHECK_DEADLOCK FALSE
