------------------------------- MODULE MuxE1 -------------------------------
(* E1 for C03: the lookahead merge of next_evmux (I-level) satisfies the  *)
(* merge contract for every choice of up to NS constituents with up to    *)
(* ML occurrences over times 1..NT and uids {a,b} (one uid per            *)
(* constituent, as a VEVENT has one UID) and every interleaving of peeks  *)
(* and pops (at most two peeks in a row) until the end has been seen      *)
(* twice.  The contract is carried by a monitor (delivered counts, last   *)
(* start time, last peek) so that runs which reach the same situation     *)
(* share a state.                                                          *)
EXTENDS Streams, TLC, IOUtils
Thorough == "TIER" \in DOMAIN IOEnv /\ IOEnv.TIER = "thorough"
NS == 3
NT == 3
ML == IF Thorough THEN 3 ELSE 2
Uids == {"a", "b"}
NonDec(s) == \A i \in 1..(Len(s) - 1) : s[i] <= s[i + 1]
TimeSeqs == {s \in UNION {[1..n -> 1..NT] : n \in 0..ML} : NonDec(s)}
Strm(u, ts) == [i \in 1..Len(ts) |-> <<ts[i], u>>]
AllStrms == {Strm(u, ts) : u \in Uids, ts \in TimeSeqs}
VARIABLES cons, m, del, last, lp, nuls, peeks, ok
vars == <<cons, m, del, last, lp, nuls, peeks, ok>>
Init == /\ cons \in UNION {[1..n -> AllStrms] : n \in 2..NS}
        /\ m = MuxInit(cons) /\ del = [x \in AllOcc(cons) |-> 0] /\ last = 0 /\ lp = <<"none">> /\ nuls = 0 /\ peeks = 0 /\ ok = TRUE
(* the contract, one step at a time *)
StepOk(op, r) ==
  /\ lp # <<"none">> => r = lp                                     \* a peek announced this result
  /\ op = "P" /\ r # Nul =>
       /\ r \in AllOcc(cons) /\ del[r] + 1 <= Mult(cons, r)      \* a constituent's occurrence, not more often than it occurs
       /\ r[1] >= last                                           \* chronological
       /\ \A y \in AllOcc(cons) : y[1] < r[1] => del[y] >= 1     \* nothing skipped
       /\ nuls = 0                                               \* nothing after the end
  /\ op = "P" /\ r = Nul => \A y \in AllOcc(cons) : del[y] >= 1  \* ends only when all constituents have ended
Do(op) == LET x == MuxNext(cons, m, op = "P") IN
  /\ m' = x.m
  /\ ok' = (ok /\ StepOk(op, x.r))
  /\ del' = IF op = "P" /\ x.r # Nul /\ x.r \in DOMAIN del THEN [del EXCEPT ![x.r] = @ + 1] ELSE del
  /\ last' = IF op = "P" /\ x.r # Nul THEN x.r[1] ELSE last
  /\ lp' = IF op = "N" THEN x.r ELSE <<"none">>
  /\ nuls' = IF op = "P" /\ x.r = Nul THEN nuls + 1 ELSE nuls
  /\ peeks' = IF op = "N" THEN peeks + 1 ELSE 0
  /\ UNCHANGED cons
Peek == nuls < 2 /\ peeks < 2 /\ Do("N")
Pop == nuls < 2 /\ Do("P")
Next == Peek \/ Pop
Spec == Init /\ [][Next]_vars
Contract == ok
(* reachability witnesses (must be violated when checked): ties were collapsed, ties were delivered twice *)
NoCollapse == ~(nuls = 1 /\ \E x \in DOMAIN del : del[x] < Mult(cons, x))
NoDoubleDelivery == \A x \in DOMAIN del : del[x] <= 1
=============================================================================
