----------------------------- MODULE DebugDaemon -----------------------------
EXTENDS DaemonContract, TLC, Json, IOUtils
Tr == ndJsonDeserialize(IOEnv.TRACE)
Clauses(ev, u, i, k) ==
  LET b == EpochEnd(ev, u, i) F == Future(ev, i, k) S == SpawnsOf(ev, u, i, b) IN
  [u |-> u, i |-> i, b |-> b, F |-> F, S |-> S,
   count |-> \A j \in S : Cardinality({x \in S : x <= j}) <= DueBefore(F, ev[j].now),
   nofuture |-> (F = <<>> => S = {}),
   neverzero |-> {j \in i..b : Quiescent(ev[j]) /\ ~(\A x \in 1..Len(F) : F[x] < ev[j].now => \E s \in S : s < j /\ ev[s].now > F[x])},
   removed |-> {j \in i..b : (Quiescent(ev[j]) /\ ev[j].children = <<>> /\ ev[j].now > ev[i].now /\ \A x \in 1..Len(F) : F[x] < ev[j].now) /\ (\E t \in SeqSet(ev[j].tasks) : t.uid = u)}]
Exp(r) == [died |-> ~NoDeath(r.ev),
           c04 |-> {Clauses(r.ev, u, p[1], p[2]) : <<u, p>> \in {<<uu, pp>> \in Uids(r.ev) \X ((1..Len(r.ev)) \X (1..8)) : pp \in AddIdx(r.ev, uu)}},
           c12 |-> {j \in 1..Len(r.ev) : r.ev[j].e = "Spawn" /\ ~SpawnLimitOk(r.ev, j)}]
ASSUME JsonSerialize(IOEnv.OUT, [k \in 1..Len(Tr) |-> Exp(Tr[k])])
=============================================================================
