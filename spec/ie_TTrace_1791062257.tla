---- MODULE ie_TTrace_1791062257 ----
EXTENDS Sequences, TLCExt, Toolbox, Naturals, TLC, ie

_expression ==
    LET ie_TEExpression == INSTANCE ie_TEExpression
    IN ie_TEExpression!expression
----

_trace ==
    LET ie_TETrace == INSTANCE ie_TETrace
    IN ie_TETrace!trace
----

_inv ==
    ~(
        TLCGet("level") = Len(_TETrace)
        /\
        hist = (3)
        /\
        M = ({<<"a", 0>>})
    )
----

_init ==
    /\ M = _TETrace[1].M
    /\ hist = _TETrace[1].hist
----

_next ==
    /\ \E i,j \in DOMAIN _TETrace:
        /\ \/ /\ j = i + 1
              /\ i = TLCGet("level")
        /\ M  = _TETrace[i].M
        /\ M' = _TETrace[j].M
        /\ hist  = _TETrace[i].hist
        /\ hist' = _TETrace[j].hist

\* Uncomment the ASSUME below to write the states of the error trace
\* to the given file in Json format. Note that you can pass any tuple
\* to `JsonSerialize`. For example, a sub-sequence of _TETrace.
    \* ASSUME
    \*     LET J == INSTANCE Json
    \*         IN J!JsonSerialize("ie_TTrace_1791062257.json", _TETrace)

=============================================================================

 Note that you can extract this module `ie_TEExpression`
  to a dedicated file to reuse `expression` (the module in the 
  dedicated `ie_TEExpression.tla` file takes precedence 
  over the module `ie_TEExpression` below).

---- MODULE ie_TEExpression ----
EXTENDS Sequences, TLCExt, Toolbox, Naturals, TLC, ie

expression == 
    [
        \* To hide variables of the `ie` spec from the error trace,
        \* remove the variables below.  The trace will be written in the order
        \* of the fields of this record.
        M |-> M
        ,hist |-> hist
        
        \* Put additional constant-, state-, and action-level expressions here:
        \* ,_stateNumber |-> _TEPosition
        \* ,_MUnchanged |-> M = M'
        
        \* Format the `M` variable as Json value.
        \* ,_MJson |->
        \*     LET J == INSTANCE Json
        \*     IN J!ToJson(M)
        
        \* Lastly, you may build expressions over arbitrary sets of states by
        \* leveraging the _TETrace operator.  For example, this is how to
        \* count the number of times a spec variable changed up to the current
        \* state in the trace.
        \* ,_MModCount |->
        \*     LET F[s \in DOMAIN _TETrace] ==
        \*         IF s = 1 THEN 0
        \*         ELSE IF _TETrace[s].M # _TETrace[s-1].M
        \*             THEN 1 + F[s-1] ELSE F[s-1]
        \*     IN F[_TEPosition - 1]
    ]

=============================================================================



Parsing and semantic processing can take forever if the trace below is long.
 In this case, it is advised to uncomment the module below to deserialize the
 trace from a generated binary file.

\*
\*---- MODULE ie_TETrace ----
\*EXTENDS IOUtils, TLC, ie
\*
\*trace == IODeserialize("ie_TTrace_1791062257.bin", TRUE)
\*
\*=============================================================================
\*

---- MODULE ie_TETrace ----
EXTENDS TLC, ie

trace == 
    <<
    ([hist |-> 0,M |-> {}]),
    ([hist |-> 1,M |-> {<<"a", 0>>}]),
    ([hist |-> 2,M |-> {<<"a", 0>>}]),
    ([hist |-> 3,M |-> {<<"a", 0>>}])
    >>
----


=============================================================================

---- CONFIG ie_TTrace_1791062257 ----

INVARIANT
    _inv

CHECK_DEADLOCK
    \* CHECK_DEADLOCK off because of PROPERTY or INVARIANT above.
    FALSE

INIT
    _init

NEXT
    _next

CONSTANT
    _TETrace <- _trace

ALIAS
    _expression
=============================================================================
\* Generated on Sat Oct 03 21:17:38 UTC 2026