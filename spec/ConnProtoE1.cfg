SPECIFICATION SpecE
INVARIANT ClosedAtEnd
INVARIANT AnsweredOnlyListings
INVARIANT AgreesWithOutcome
INVARIANT ListingRule
CHECK_DEADLOCK FALSE
