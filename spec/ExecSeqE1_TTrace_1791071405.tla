---- MODULE ExecSeqE1_TTrace_1791071405 ----
EXTENDS Sequences, TLCExt, Toolbox, Naturals, TLC, ExecSeqE1

_expression ==
    LET ExecSeqE1_TEExpression == INSTANCE ExecSeqE1_TEExpression
    IN ExecSeqE1_TEExpression!expression
----

_trace ==
    LET ExecSeqE1_TETrace == INSTANCE ExecSeqE1_TETrace
    IN ExecSeqE1_TETrace!trace
----

_inv ==
    ~(
        TLCGet("level") = Len(_TETrace)
        /\
        alarmAt = (0)
        /\
        phase = ("idle")
        /\
        res = (<<[kind |-> "notrun", at |-> 0], [kind |-> "killed", at |-> 1]>>)
        /\
        handler = ("dfl")
        /\
        blocked = (TRUE)
        /\
        alive = (TRUE)
        /\
        now = (1)
        /\
        start = (0)
        /\
        i = (3)
        /\
        req = (<<[L |-> 1, W |-> 2, prep |-> FALSE], [L |-> 0, W |-> 2, prep |-> TRUE]>>)
    )
----

_init ==
    /\ now = _TETrace[1].now
    /\ blocked = _TETrace[1].blocked
    /\ alarmAt = _TETrace[1].alarmAt
    /\ alive = _TETrace[1].alive
    /\ i = _TETrace[1].i
    /\ req = _TETrace[1].req
    /\ res = _TETrace[1].res
    /\ phase = _TETrace[1].phase
    /\ start = _TETrace[1].start
    /\ handler = _TETrace[1].handler
----

_next ==
    /\ \E i,j \in DOMAIN _TETrace:
        /\ \/ /\ j = i + 1
              /\ i = TLCGet("level")
        /\ now  = _TETrace[i].now
        /\ now' = _TETrace[j].now
        /\ blocked  = _TETrace[i].blocked
        /\ blocked' = _TETrace[j].blocked
        /\ alarmAt  = _TETrace[i].alarmAt
        /\ alarmAt' = _TETrace[j].alarmAt
        /\ alive  = _TETrace[i].alive
        /\ alive' = _TETrace[j].alive
        /\ i  = _TETrace[i].i
        /\ i' = _TETrace[j].i
        /\ req  = _TETrace[i].req
        /\ req' = _TETrace[j].req
        /\ res  = _TETrace[i].res
        /\ res' = _TETrace[j].res
        /\ phase  = _TETrace[i].phase
        /\ phase' = _TETrace[j].phase
        /\ start  = _TETrace[i].start
        /\ start' = _TETrace[j].start
        /\ handler  = _TETrace[i].handler
        /\ handler' = _TETrace[j].handler

\* Uncomment the ASSUME below to write the states of the error trace
\* to the given file in Json format. Note that you can pass any tuple
\* to `JsonSerialize`. For example, a sub-sequence of _TETrace.
    \* ASSUME
    \*     LET J == INSTANCE Json
    \*         IN J!JsonSerialize("ExecSeqE1_TTrace_1791071405.json", _TETrace)

=============================================================================

 Note that you can extract this module `ExecSeqE1_TEExpression`
  to a dedicated file to reuse `expression` (the module in the 
  dedicated `ExecSeqE1_TEExpression.tla` file takes precedence 
  over the module `ExecSeqE1_TEExpression` below).

---- MODULE ExecSeqE1_TEExpression ----
EXTENDS Sequences, TLCExt, Toolbox, Naturals, TLC, ExecSeqE1

expression == 
    [
        \* To hide variables of the `ExecSeqE1` spec from the error trace,
        \* remove the variables below.  The trace will be written in the order
        \* of the fields of this record.
        now |-> now
        ,blocked |-> blocked
        ,alarmAt |-> alarmAt
        ,alive |-> alive
        ,i |-> i
        ,req |-> req
        ,res |-> res
        ,phase |-> phase
        ,start |-> start
        ,handler |-> handler
        
        \* Put additional constant-, state-, and action-level expressions here:
        \* ,_stateNumber |-> _TEPosition
        \* ,_nowUnchanged |-> now = now'
        
        \* Format the `now` variable as Json value.
        \* ,_nowJson |->
        \*     LET J == INSTANCE Json
        \*     IN J!ToJson(now)
        
        \* Lastly, you may build expressions over arbitrary sets of states by
        \* leveraging the _TETrace operator.  For example, this is how to
        \* count the number of times a spec variable changed up to the current
        \* state in the trace.
        \* ,_nowModCount |->
        \*     LET F[s \in DOMAIN _TETrace] ==
        \*         IF s = 1 THEN 0
        \*         ELSE IF _TETrace[s].now # _TETrace[s-1].now
        \*             THEN 1 + F[s-1] ELSE F[s-1]
        \*     IN F[_TEPosition - 1]
    ]

=============================================================================



Parsing and semantic processing can take forever if the trace below is long.
 In this case, it is advised to uncomment the module below to deserialize the
 trace from a generated binary file.

\*
\*---- MODULE ExecSeqE1_TETrace ----
\*EXTENDS IOUtils, TLC, ExecSeqE1
\*
\*trace == IODeserialize("ExecSeqE1_TTrace_1791071405.bin", TRUE)
\*
\*=============================================================================
\*

---- MODULE ExecSeqE1_TETrace ----
EXTENDS TLC, ExecSeqE1

trace == 
    <<
    ([alarmAt |-> 0,phase |-> "idle",res |-> <<>>,handler |-> "dfl",blocked |-> TRUE,alive |-> TRUE,now |-> 0,start |-> 0,i |-> 1,req |-> <<[L |-> 1, W |-> 2, prep |-> FALSE], [L |-> 0, W |-> 2, prep |-> TRUE]>>]),
    ([alarmAt |-> 1,phase |-> "idle",res |-> <<[kind |-> "notrun", at |-> 0]>>,handler |-> "timeo",blocked |-> FALSE,alive |-> TRUE,now |-> 0,start |-> 0,i |-> 2,req |-> <<[L |-> 1, W |-> 2, prep |-> FALSE], [L |-> 0, W |-> 2, prep |-> TRUE]>>]),
    ([alarmAt |-> 1,phase |-> "running",res |-> <<[kind |-> "notrun", at |-> 0]>>,handler |-> "timeo",blocked |-> FALSE,alive |-> TRUE,now |-> 0,start |-> 0,i |-> 2,req |-> <<[L |-> 1, W |-> 2, prep |-> FALSE], [L |-> 0, W |-> 2, prep |-> TRUE]>>]),
    ([alarmAt |-> 1,phase |-> "running",res |-> <<[kind |-> "notrun", at |-> 0]>>,handler |-> "timeo",blocked |-> FALSE,alive |-> TRUE,now |-> 1,start |-> 0,i |-> 2,req |-> <<[L |-> 1, W |-> 2, prep |-> FALSE], [L |-> 0, W |-> 2, prep |-> TRUE]>>]),
    ([alarmAt |-> 0,phase |-> "idle",res |-> <<[kind |-> "notrun", at |-> 0], [kind |-> "killed", at |-> 1]>>,handler |-> "dfl",blocked |-> TRUE,alive |-> TRUE,now |-> 1,start |-> 0,i |-> 3,req |-> <<[L |-> 1, W |-> 2, prep |-> FALSE], [L |-> 0, W |-> 2, prep |-> TRUE]>>])
    >>
----


=============================================================================

---- CONFIG ExecSeqE1_TTrace_1791071405 ----
CONSTANTS
    Reqs <- ReqsV
    DisarmOnFailure = FALSE

INVARIANT
    _inv

CHECK_DEADLOCK
    \* CHECK_DEADLOCK off because of PROPERTY or INVARIANT above.
    FALSE

INIT
    _init

NEXT
    _next

CONSTANT
    _TETrace <- _trace

ALIAS
    _expression
=============================================================================
\* Generated on Sat Oct 03 23:50:06 UTC 2026