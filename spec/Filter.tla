------------------------------- MODULE Filter -------------------------------
(* I-level model of the exception filter (src/evfilt.c: make_evfilt(),      *)
(* next_evfilt()): a two-pointer walk over the stream of candidate          *)
(* occurrences and the stream of exceptions, both in time order.  The       *)
(* filter keeps ONE pending exception ex (0 = none left); for the candidate *)
(* at hand it either drops it (starts are equal), moves on to the next      *)
(* exception (the pending one starts earlier) or hands it out.  Peek and    *)
(* pop share the walk, a peek must not lose anything.                        *)
(* A-level contract (C02): what comes out is the candidate sequence without *)
(* every member an exception names - however the two are interleaved, with  *)
(* exceptions before, at and after the first candidate, exceptions naming   *)
(* no candidate, several in a row, and repeated values on either side.      *)
EXTENDS Integers, Sequences, FiniteSets
CONSTANTS T, N          \* instants 1..T; streams of up to N members
VARIABLES es, xs, ex, out, es0, xs0, ended
vars == <<es, xs, ex, out, es0, xs0, ended>>
NonDecr(s) == \A i \in 1..(Len(s) - 1) : s[i] <= s[i + 1]
Streams == {s \in UNION {[1..n -> 1..T] : n \in 0..N} : NonDecr(s)}
Init == /\ es0 \in Streams /\ xs0 \in Streams /\ es = es0
        /\ ex = (IF xs0 = <<>> THEN 0 ELSE Head(xs0)) /\ xs = (IF xs0 = <<>> THEN <<>> ELSE Tail(xs0))      \* make_evfilt pops the first exception
        /\ out = <<>> /\ ended = FALSE
RECURSIVE Walk(_, _, _)
(* the check: loop of next_evfilt; returns the state it leaves behind *)
Walk(e_s, x_s, x) ==
  LET e == IF e_s = <<>> THEN 0 ELSE Head(e_s) IN
  IF x = 0 \/ e = 0 THEN [es |-> e_s, xs |-> x_s, ex |-> x]
  ELSE IF e = x THEN Walk(Tail(e_s), x_s, x)                                         \* named: drop the candidate
  ELSE IF x < e THEN Walk(e_s, IF x_s = <<>> THEN <<>> ELSE Tail(x_s), IF x_s = <<>> THEN 0 ELSE Head(x_s))   \* exception is past
  ELSE [es |-> e_s, xs |-> x_s, ex |-> x]
Step(popp) ==
  LET w == Walk(es, xs, ex) IN
  /\ xs' = w.xs /\ ex' = w.ex
  /\ IF w.es = <<>> THEN es' = w.es /\ out' = out /\ ended' = TRUE
     ELSE IF popp THEN es' = Tail(w.es) /\ out' = Append(out, Head(w.es)) /\ ended' = ended
     ELSE es' = w.es /\ out' = out /\ ended' = ended
  /\ UNCHANGED <<es0, xs0>>
Peek == ~ended /\ Step(FALSE)
Pop == ~ended /\ Step(TRUE)
Next == Peek \/ Pop
Spec == Init /\ [][Next]_vars
Named == {xs0[i] : i \in 1..Len(xs0)}
Expected == SelectSeq(es0, LAMBDA v : v \notin Named)
IsPrefix(a, b) == Len(a) <= Len(b) /\ \A i \in 1..Len(a) : a[i] = b[i]
NeverWrong == IsPrefix(out, Expected)
CompleteAtEnd == ended => out = Expected
=============================================================================
