\* constant-level evaluation only
