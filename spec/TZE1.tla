-------------------------------- MODULE TZE1 --------------------------------
(* E1 for C07: on a synthetic zone with a spring-forward gap and a        *)
(* fall-back overlap the contract operators are mutually inverse:         *)
(* LocalToUTC(UTCToLocal(u)) = u for every unambiguous wall-clock time,   *)
(* gap times have no solution, overlap times have two.                     *)
EXTENDS TZ, TLC
Z == [off0 |-> 0, trans |-> <<100, 200, 300>>, offs |-> <<10, 0, -7>>]
VARIABLE u
Init == u \in 80..330
Next == UNCHANGED u
Spec == Init /\ [][Next]_u
l == UTCToLocal(Z, u)
RoundTrip == Unambiguous(Z, l) => LocalToUTC(Z, l) = u
GapHasNoSolution == \A w \in 100..109 : Solutions(Z, w) = {}
OverlapHasTwo == \A w \in 200..209 : Cardinality(Solutions(Z, w)) = 2
CountIsMonotone == OffAt(Z, u) \in {0, 10, -7}
=============================================================================
