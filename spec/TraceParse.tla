----------------------------- MODULE TraceParse -----------------------------
(* E2 for C10.  Contract (IcalLines!PartitionIndependent): for one byte   *)
(* string, the instruction sequence pulled from the parser is the same    *)
(* for every partition into chunks as for the single-chunk feed, and no   *)
(* input makes the parser crash or hang.  Every line names (ref) the line *)
(* holding the single-chunk run of the same byte string.                   *)
EXTENDS IcalLines, TLC, Json, IOUtils, FiniteSets
Tr == ndJsonDeserialize(IOEnv.TRACE)
Died(r) == "crash" \in DOMAIN r \/ "timeout" \in DOMAIN r
Verdict(r) ==
  IF Died(r) THEN "bad"
  ELSE IF Died(Tr[r.ref]) THEN "skip"      \* the reference run itself is reported on its own line
  ELSE IF r.ins = Tr[r.ref].ins THEN "ok" ELSE "bad"
(* I-level binding for the model strings: the SUMMARY value the real parser read equals *)
(* the one the line-assembly model IcalLines yields for the same bytes in the same chunks *)
RECURSIVE Cut(_, _, _, _)
Cut(b, sizes, k, pos) ==
  IF pos >= Len(b) THEN <<>>
  ELSE LET want == IF k <= Len(sizes) THEN sizes[k] ELSE 0
           sz == IF want = 0 \/ want > Len(b) - pos THEN Len(b) - pos ELSE want
       IN <<SubSeq(b, pos + 1, pos + sz)>> \o Cut(b, sizes, k + 1, pos + sz)
SummaryTag == <<83, 85, 77, 77, 65, 82, 89, 58>>
IsSummary(l) == Len(l) >= 8 /\ SubSeq(l, 1, 8) = SummaryTag
ModelCmd(r) ==
  LET ls == Lines(Cut(r.bytes, r.sizes, 1, 0), 1024)
      ss == SelectSeq(ls, IsSummary)
  IN IF ss = <<>> THEN <<>> ELSE [i \in 1..(Len(ss[1]) - 8) |-> IF ss[1][i + 8] = NL THEN 10 ELSE ss[1][i + 8]]
Drift(r) == "bytes" \in DOMAIN r /\ ModelCmd(r) # r.cmdc
N == Len(Tr)
DriftSet == {k \in 1..N : Drift(Tr[k])}
BadSet == {k \in 1..N : Verdict(Tr[k]) = "bad"}
SkipSet == {k \in 1..N : Verdict(Tr[k]) = "skip"}
ASSUME JsonSerialize(IOEnv.OUT, [n |-> N, nbad |-> Cardinality(BadSet), nskip |-> Cardinality(SkipSet), bad |-> BadSet, ndrift |-> Cardinality(DriftSet), drift |-> DriftSet])
=============================================================================
