SPECIFICATION SpecE
CONSTANTS
 C = 4
 N = 9
 Counts <- CountsV
 Corrs <- CorrsV
INVARIANT StrictlyIncreasing
INVARIANT OnlyCorrected
INVARIANT PeekAfterPopped
INVARIANT NeverTooMany
INVARIANT NothingLost
CHECK_DEADLOCK FALSE
