---- MODULE JournalE1_TTrace_1791077109 ----
EXTENDS Sequences, JournalE1_TEConstants, TLCExt, JournalE1, Toolbox, Naturals, TLC

_expression ==
    LET JournalE1_TEExpression == INSTANCE JournalE1_TEExpression
    IN JournalE1_TEExpression!expression
----

_trace ==
    LET JournalE1_TETrace == INSTANCE JournalE1_TETrace
    IN JournalE1_TETrace!trace
----

_inv ==
    ~(
        TLCGet("level") = Len(_TETrace)
        /\
        file = (<<<<p1, 1>>, <<p2, 1>>>>)
        /\
        pc = ((p1 :> "writing" @@ p2 :> "writing" @@ p3 :> "ready"))
        /\
        locks = ({})
        /\
        sent = ((p1 :> 1 @@ p2 :> 1 @@ p3 :> 0))
        /\
        off = ((p1 :> 1 @@ p2 :> 2 @@ p3 :> 0))
    )
----

_init ==
    /\ locks = _TETrace[1].locks
    /\ off = _TETrace[1].off
    /\ sent = _TETrace[1].sent
    /\ file = _TETrace[1].file
    /\ pc = _TETrace[1].pc
----

_next ==
    /\ \E i,j \in DOMAIN _TETrace:
        /\ \/ /\ j = i + 1
              /\ i = TLCGet("level")
        /\ locks  = _TETrace[i].locks
        /\ locks' = _TETrace[j].locks
        /\ off  = _TETrace[i].off
        /\ off' = _TETrace[j].off
        /\ sent  = _TETrace[i].sent
        /\ sent' = _TETrace[j].sent
        /\ file  = _TETrace[i].file
        /\ file' = _TETrace[j].file
        /\ pc  = _TETrace[i].pc
        /\ pc' = _TETrace[j].pc

\* Uncomment the ASSUME below to write the states of the error trace
\* to the given file in Json format. Note that you can pass any tuple
\* to `JsonSerialize`. For example, a sub-sequence of _TETrace.
    \* ASSUME
    \*     LET J == INSTANCE Json
    \*         IN J!JsonSerialize("JournalE1_TTrace_1791077109.json", _TETrace)

=============================================================================

 Note that you can extract this module `JournalE1_TEExpression`
  to a dedicated file to reuse `expression` (the module in the 
  dedicated `JournalE1_TEExpression.tla` file takes precedence 
  over the module `JournalE1_TEExpression` below).

---- MODULE JournalE1_TEExpression ----
EXTENDS Sequences, JournalE1_TEConstants, TLCExt, JournalE1, Toolbox, Naturals, TLC

expression == 
    [
        \* To hide variables of the `JournalE1` spec from the error trace,
        \* remove the variables below.  The trace will be written in the order
        \* of the fields of this record.
        locks |-> locks
        ,off |-> off
        ,sent |-> sent
        ,file |-> file
        ,pc |-> pc
        
        \* Put additional constant-, state-, and action-level expressions here:
        \* ,_stateNumber |-> _TEPosition
        \* ,_locksUnchanged |-> locks = locks'
        
        \* Format the `locks` variable as Json value.
        \* ,_locksJson |->
        \*     LET J == INSTANCE Json
        \*     IN J!ToJson(locks)
        
        \* Lastly, you may build expressions over arbitrary sets of states by
        \* leveraging the _TETrace operator.  For example, this is how to
        \* count the number of times a spec variable changed up to the current
        \* state in the trace.
        \* ,_locksModCount |->
        \*     LET F[s \in DOMAIN _TETrace] ==
        \*         IF s = 1 THEN 0
        \*         ELSE IF _TETrace[s].locks # _TETrace[s-1].locks
        \*             THEN 1 + F[s-1] ELSE F[s-1]
        \*     IN F[_TEPosition - 1]
    ]

=============================================================================



Parsing and semantic processing can take forever if the trace below is long.
 In this case, it is advised to uncomment the module below to deserialize the
 trace from a generated binary file.

\*
\*---- MODULE JournalE1_TETrace ----
\*EXTENDS IOUtils, JournalE1_TEConstants, JournalE1, TLC
\*
\*trace == IODeserialize("JournalE1_TTrace_1791077109.bin", TRUE)
\*
\*=============================================================================
\*

---- MODULE JournalE1_TETrace ----
EXTENDS JournalE1_TEConstants, JournalE1, TLC

trace == 
    <<
    ([file |-> <<>>,pc |-> (p1 :> "ready" @@ p2 :> "ready" @@ p3 :> "ready"),locks |-> {},sent |-> (p1 :> 0 @@ p2 :> 0 @@ p3 :> 0),off |-> (p1 :> 0 @@ p2 :> 0 @@ p3 :> 0)]),
    ([file |-> <<>>,pc |-> (p1 :> "ready" @@ p2 :> "locked" @@ p3 :> "ready"),locks |-> {},sent |-> (p1 :> 0 @@ p2 :> 0 @@ p3 :> 0),off |-> (p1 :> 0 @@ p2 :> 0 @@ p3 :> 0)]),
    ([file |-> <<>>,pc |-> (p1 :> "locked" @@ p2 :> "locked" @@ p3 :> "ready"),locks |-> {},sent |-> (p1 :> 0 @@ p2 :> 0 @@ p3 :> 0),off |-> (p1 :> 0 @@ p2 :> 0 @@ p3 :> 0)]),
    ([file |-> <<>>,pc |-> (p1 :> "writing" @@ p2 :> "locked" @@ p3 :> "ready"),locks |-> {},sent |-> (p1 :> 0 @@ p2 :> 0 @@ p3 :> 0),off |-> (p1 :> 0 @@ p2 :> 0 @@ p3 :> 0)]),
    ([file |-> <<<<p1, 1>>>>,pc |-> (p1 :> "writing" @@ p2 :> "locked" @@ p3 :> "ready"),locks |-> {},sent |-> (p1 :> 1 @@ p2 :> 0 @@ p3 :> 0),off |-> (p1 :> 1 @@ p2 :> 0 @@ p3 :> 0)]),
    ([file |-> <<<<p1, 1>>>>,pc |-> (p1 :> "writing" @@ p2 :> "writing" @@ p3 :> "ready"),locks |-> {},sent |-> (p1 :> 1 @@ p2 :> 0 @@ p3 :> 0),off |-> (p1 :> 1 @@ p2 :> 1 @@ p3 :> 0)]),
    ([file |-> <<<<p1, 1>>, <<p2, 1>>>>,pc |-> (p1 :> "writing" @@ p2 :> "writing" @@ p3 :> "ready"),locks |-> {},sent |-> (p1 :> 1 @@ p2 :> 1 @@ p3 :> 0),off |-> (p1 :> 1 @@ p2 :> 2 @@ p3 :> 0)])
    >>
----


=============================================================================

---- MODULE JournalE1_TEConstants ----
EXTENDS JournalE1

CONSTANTS p1, p2, p3

=============================================================================

---- CONFIG JournalE1_TTrace_1791077109 ----
CONSTANTS
    Procs = { p1 , p2 , p3 }
    Chunks = 3
    UseLock = FALSE
    p3 = p3
    p2 = p2
    p1 = p1

INVARIANT
    _inv

CHECK_DEADLOCK
    \* CHECK_DEADLOCK off because of PROPERTY or INVARIANT above.
    FALSE

INIT
    _init

NEXT
    _next

CONSTANT
    _TETrace <- _trace

ALIAS
    _expression
=============================================================================
\* Generated on Sun Oct 04 01:25:10 UTC 2026