----------------------------- MODULE TraceRRule -----------------------------
(* E2 for C01 (and the RFC part of C16/C17): every recorded stream        *)
(* consumption - library pops and CLI unrolls - is judged against RRule.  *)
EXTENDS RRule, TLC, Json, IOUtils
Tr == ndJsonDeserialize(IOEnv.TRACE)
Budget == 400   \* x 64 period steps

Obs(r) == [i \in 1..Len(r.occ) |-> Pair(I(r.occ[i]))]
Hz(r) == <<DaysFromCivil(r.hz[1], r.hz[2], r.hz[3]), 86399>>
Expected(r, lim) == RSet(r.rule, I(r.ds), Hz(r), lim, Budget)
Verdict(r) ==
  LET ds == I(r.ds) IN
  IF ~(WF(ds) /\ WellFormed(r.rule, ds)) THEN "skip"
  ELSE IF ~Synchronised(r.rule, ds, Hz(r)) THEN "skip"
  ELSE IF "crash" \in DOMAIN r \/ "timeout" \in DOMAIN r \/ "noevent" \in DOMAIN r THEN "bad"
  ELSE LET obs == Obs(r)
           lim == IF r.stop = "n" THEN Len(obs) ELSE Len(obs) + 1
           x == Expected(r, lim)
       IN IF ~x.decided /\ Len(x.occ) < lim THEN "skip"
          ELSE IF x.occ = obs /\ r.peekmism = 0 THEN "ok" ELSE "bad"

N == Len(Tr)
VS == {<<k, Verdict(Tr[k])>> : k \in 1..N}
Res == LET vs == VS IN [bad |-> {p[1] : p \in {q \in vs : q[2] = "bad"}}, skip |-> {p[1] : p \in {q \in vs : q[2] = "skip"}}]
ASSUME LET res == Res IN JsonSerialize(IOEnv.OUT, [n |-> N, nbad |-> Cardinality(res.bad), nskip |-> Cardinality(res.skip), bad |-> res.bad, skip |-> res.skip])
=============================================================================
