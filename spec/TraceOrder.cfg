\* constant-level evaluation only
