\* constant-level evaluation only
