\* constant-level evaluation only
