------------------------------ MODULE IcalLines ------------------------------
(* I-level model of the line assembly of the iCalendar pull parser        *)
(* (src/evical.c: esccpy, _ical_pull): a byte stream arrives in chunks;   *)
(* each chunk is chopped at line feeds that are not followed by SP/HT     *)
(* (folded lines), pieces are unescaped into a bounded stash, a complete  *)
(* logical line is handed on, and whatever the chunk leaves unfinished    *)
(* (an escape, a possible fold, an over-long line) is carried in the      *)
(* parser state to the next chunk.                                         *)
(* Bytes are small integers; the alphabet of interest:                     *)
EXTENDS Integers, Sequences
CR == 13  LF == 10  SP == 32  HT == 9  BS == 92  LN == 110   \* 'n'
NL == 1000          \* the newline that "\n" decodes to (kept apart from a raw LF)
IsWS(c) == c = SP \/ c = HT

(* parser state: stash (unescaped bytes of the current logical line), mark (the last  *)
(* chunk ended in a LF: the line may or may not be folded), pend (0, BS, LF or EE: what *)
(* esccpy was in the middle of), drop (inside an over-long line), lines (handed on)   *)
P0 == [stash |-> <<>>, mark |-> FALSE, pend |-> 0, drop |-> FALSE, lines |-> <<>>]

(* ---- esccpy(piece) with the carried state; cap = free space in the stash ---- *)
Dec(c) == IF c = LN THEN NL ELSE c
EE == 2000          \* pend: an escape is open AND a line break has been seen (a fold splits the escape)
RECURSIVE Esc(_, _, _, _, _)
(* esccpy is a state machine over st in {0, BS, LF, EE}; returns [out, pend, ovf] *)
Esc(piece, i, st, out, cap) ==
  IF i > Len(piece) THEN [out |-> out, pend |-> st, ovf |-> FALSE]
  ELSE LET c == piece[i]
           st1 == IF st = LF THEN 0 ELSE IF st = EE THEN BS ELSE st      \* after the white space a fold may bring
       IN IF (st = LF \/ st = EE) /\ IsWS(c) THEN Esc(piece, i + 1, st1, out, cap)
          ELSE IF c = CR THEN Esc(piece, i + 1, st1, out, cap)
          ELSE IF c = LF THEN Esc(piece, i + 1, IF st1 = BS THEN EE ELSE LF, out, cap)
          ELSE IF st1 # BS /\ c = BS THEN Esc(piece, i + 1, BS, out, cap)
          ELSE LET o2 == Append(out, IF st1 = BS THEN Dec(c) ELSE c) IN
               IF Len(o2) >= cap THEN [out |-> <<>>, pend |-> 0, ovf |-> TRUE]
               ELSE Esc(piece, i + 1, 0, o2, cap)
EscCpy(piece, pend, cap) ==
  IF Len(piece) = 0 THEN [out |-> <<>>, pend |-> pend, ovf |-> FALSE]
  ELSE Esc(piece, 1, pend, <<>>, cap)

(* ---- chopping ---- *)
RECURSIVE FindLF(_, _)
FindLF(c, i) == IF i > Len(c) THEN 0 ELSE IF c[i] = LF THEN i ELSE FindLF(c, i + 1)
RECURSIVE Eol(_, _)
(* index just behind the LF that ends the first complete logical line at or after tmp; *)
(* 0 = no LF at all, Len(c)+1 = the LF is the last byte of the chunk                   *)
Eol(c, tmp) ==
  LET j == FindLF(c, tmp) IN
  IF j = 0 THEN 0
  ELSE IF j + 1 <= Len(c) /\ IsWS(c[j + 1]) THEN Eol(c, j + 1)
  ELSE j + 1
Emit(p) == IF p.stash = <<>> THEN p ELSE [p EXCEPT !.lines = Append(@, p.stash), !.stash = <<>>]

RECURSIVE Chop(_, _, _, _)
Chop(p, c, bix, CAP) ==
  LET eol == Eol(c, bix) IN
  IF eol = 0 \/ eol > Len(c)
  THEN (* no complete line left in this chunk: stash the rest *)
       LET piece == SubSeq(c, bix, Len(c))
           e == EscCpy(piece, p.pend, CAP - Len(p.stash)) IN
       IF p.drop \/ e.ovf
       THEN [p EXCEPT !.stash = <<>>, !.drop = TRUE, !.mark = FALSE,
                      !.pend = IF Len(piece) > 0 /\ piece[Len(piece)] = LF THEN LF ELSE 0]
       ELSE [p EXCEPT !.stash = @ \o e.out, !.pend = e.pend, !.mark = (eol # 0)]
  ELSE LET piece == SubSeq(c, bix, eol - 1) IN
       IF p.drop THEN Chop([p EXCEPT !.drop = FALSE, !.pend = 0], c, eol, CAP)
       ELSE LET e == EscCpy(piece, p.pend, CAP - Len(p.stash)) IN
            IF e.ovf THEN Chop([p EXCEPT !.stash = <<>>, !.pend = e.pend], c, eol, CAP)
            ELSE Chop(Emit([p EXCEPT !.stash = @ \o e.out, !.pend = e.pend]), c, eol, CAP)

(* one push of chunk c followed by pulls until "need more data" (c = <<>> is the final pull) *)
Feed(p, c, CAP) ==
  LET q == IF p.drop
           THEN (IF p.pend = LF /\ Len(c) > 0 /\ ~IsWS(c[1]) THEN [p EXCEPT !.drop = FALSE, !.pend = 0] ELSE p)
           ELSE IF p.stash # <<>> /\ p.mark
           THEN (IF Len(c) = 0 \/ ~IsWS(c[1]) THEN Emit([p EXCEPT !.mark = FALSE]) ELSE [p EXCEPT !.mark = FALSE])
           ELSE p
  IN IF Len(c) = 0 THEN q ELSE Chop(q, c, 1, CAP)
RECURSIVE FeedAll(_, _, _, _)
FeedAll(p, chunks, k, CAP) == IF k > Len(chunks) THEN Feed(p, <<>>, CAP) ELSE FeedAll(Feed(p, chunks[k], CAP), chunks, k + 1, CAP)
(* the logical lines a byte string yields when it arrives as the given chunks *)
Lines(chunks, CAP) == FeedAll(P0, chunks, 1, CAP).lines
=============================================================================
