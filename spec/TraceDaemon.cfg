\* constant-level evaluation only
