----------------------------- MODULE TraceShift -----------------------------
(* E2 for C17: recorded streams of rules with BYEASTER and/or SHIFT are    *)
(* judged against RRule.tla's reading of the README: the selected dates of *)
(* every period (Easter Sunday of the year + N; the RFC instances of the   *)
(* rule without SHIFT) are moved, coinciding dates are one date, and the   *)
(* moved dates are subject to DTSTART, COUNT and UNTIL.                     *)
(* The unshifted rule must be one whose result is defined (C01): well      *)
(* formed, and - unless it is an Easter rule - synchronised with DTSTART.   *)
EXTENDS RRule, TLC, Json, IOUtils
Tr == ndJsonDeserialize(IOEnv.TRACE)
Budget == 400
Obs(r) == [i \in 1..Len(r.occ) |-> Pair(I(r.occ[i]))]
Hz(r) == <<DaysFromCivil(r.hz[1], r.hz[2], r.hz[3]), 86399>>
Plain(rule) == [rule EXCEPT !.shift = <<0, 0, 0, 0>>]
Verdict(r) ==
  LET ds == I(r.ds) IN
  IF ~(WF(ds) /\ WellFormed(r.rule, ds)) THEN "skip"
  ELSE IF r.rule.easter = <<>> /\ ~Synchronised(Plain(r.rule), ds, Hz(r)) THEN "skip"
  ELSE IF "crash" \in DOMAIN r \/ "timeout" \in DOMAIN r \/ "noevent" \in DOMAIN r THEN "bad"
  ELSE LET obs == Obs(r)
           lim == IF r.stop = "n" THEN Len(obs) ELSE Len(obs) + 1
           x == RSet(r.rule, ds, Hz(r), lim, Budget)
       IN IF ~x.decided /\ Len(x.occ) < lim THEN "skip"
          ELSE IF x.occ = obs /\ r.peekmism = 0 THEN "ok" ELSE "bad"
N == Len(Tr)
VS == {<<k, Verdict(Tr[k])>> : k \in 1..N}
Res == LET vs == VS IN [bad |-> {p[1] : p \in {q \in vs : q[2] = "bad"}}, skip |-> {p[1] : p \in {q \in vs : q[2] = "skip"}}]
ASSUME LET res == Res IN JsonSerialize(IOEnv.OUT, [n |-> N, nbad |-> Cardinality(res.bad), nskip |-> Cardinality(res.skip), bad |-> res.bad, skip |-> res.skip])
=============================================================================
