SPECIFICATION Spec
INVARIANT PlanRoutesPerContract
CHECK_DEADLOCK FALSE
