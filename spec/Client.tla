------------------------------- MODULE Client -------------------------------
(* Growth item: the queue as its users see it through the client program   *)
(* echsq (src/echsq.c) talking to a running echsd: add FILE.., cancel      *)
(* TUID.., list / list --brief / next [TUID..] [-u USER], edit TUID, and   *)
(* the dry-run forms.  One action per invocation of the client; the state  *)
(* is what the daemon holds for all users.  A task is identified by its    *)
(* UID; a UID belongs to one user at a time (the user who added it first), *)
(* nobody else can replace, cancel or see it, root can see (not change)    *)
(* every user's queue with -u.                                             *)
(*                                                                         *)
(* A task as the client shows it: [uid, owner, cmd, cwd, umask, start]:    *)
(* the command (SUMMARY), the directory and umask echsq add was called     *)
(* from (the client-side defaults of massage()), the first occurrence.     *)
EXTENDS Integers, Sequences, FiniteSets

CONSTANTS Users,      \* the peers (strings)
          Root        \* the one peer that may look into other queues

VARIABLES q           \* set of task records

vars == <<q>>

Has(Q, u)  == \E t \in Q : t.uid = u
Get(Q, u)  == CHOOSE t \in Q : t.uid = u
Mine(Q, p) == {t \in Q : t.owner = p}

(* ---- one VEVENT of an add request / one TUID of a cancel request ---- *)
AddAllowed(Q, p, u) == \A t \in Q : t.uid = u => t.owner = p
Add1(Q, p, ev) == IF AddAllowed(Q, p, ev.uid)
                  THEN {t \in Q : t.uid # ev.uid} \cup {[uid |-> ev.uid, owner |-> p, cmd |-> ev.cmd, cwd |-> ev.cwd, umask |-> ev.umask, start |-> ev.start]}
                  ELSE Q
CancelAllowed(Q, p, u) == \E t \in Q : t.uid = u /\ t.owner = p
Cancel1(Q, p, u) == {t \in Q : ~(t.uid = u /\ t.owner = p)}

RECURSIVE AddAll(_, _, _, _)
AddAll(Q, p, evs, k) == IF k > Len(evs) THEN Q ELSE AddAll(Add1(Q, p, evs[k]), p, evs, k + 1)
RECURSIVE AddReplies(_, _, _, _)
AddReplies(Q, p, evs, k) == IF k > Len(evs) THEN <<>>
                            ELSE <<IF AddAllowed(Q, p, evs[k].uid) THEN "SUCCESS" ELSE "FAILURE">> \o AddReplies(Add1(Q, p, evs[k]), p, evs, k + 1)
RECURSIVE CancelAll(_, _, _, _)
CancelAll(Q, p, ids, k) == IF k > Len(ids) THEN Q ELSE CancelAll(Cancel1(Q, p, ids[k]), p, ids, k + 1)
RECURSIVE CancelReplies(_, _, _, _)
CancelReplies(Q, p, ids, k) == IF k > Len(ids) THEN <<>>
                               ELSE <<IF CancelAllowed(Q, p, ids[k]) THEN "SUCCESS" ELSE "FAILURE">> \o CancelReplies(Cancel1(Q, p, ids[k]), p, ids, k + 1)

(* ---- what a listing shows: asker p looks at the queue of user w, restricted to ids (all when ids is empty) ---- *)
MayLook(p, w) == p = w \/ p = Root
Shown(Q, p, w, ids) == IF MayLook(p, w) THEN {t \in Mine(Q, w) : ids = {} \/ t.uid \in ids} ELSE {}

(* ---- the actions: one invocation of the client each ---- *)
Add(p, evs)     == q' = AddAll(q, p, evs, 1)
Cancel(p, ids)  == q' = CancelAll(q, p, ids, 1)
(* edit = fetch the named tasks of one's own queue, change them in an editor, add them back under the same UIDs *)
Edit(p, u, c)   == q' = IF Has(q, u) /\ Get(q, u).owner = p THEN {t \in q : t.uid # u} \cup {[Get(q, u) EXCEPT !.cmd = c]} ELSE q
Look            == UNCHANGED q        \* list, next, every --dry-run form

Init == q = {}

(* ---- design-level properties (checked by ClientE1 on a small universe) ---- *)
OneOwnerPerUid == \A s, t \in q : s.uid = t.uid => s = t
(* no invocation by p changes what any other user holds *)
OthersUntouched(p) == \A w \in Users : w # p => Mine(q', w) = Mine(q, w)
=============================================================================
