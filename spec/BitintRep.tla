----------------------------- MODULE BitintRep -----------------------------
(* I-level model of the container representations in src/bitint.h and     *)
(* src/bitint.c, parameterised by the width so that TLC can explore it    *)
(* exhaustively for a small range.                                         *)
(*   family U: bituint31/63  - one value inline, else a bitset            *)
(*   family S: bitint31/63   - one value inline, else two bitsets         *)
(*   family N: bitint383/447 - up to K values in iteration order, else    *)
(*                             two bitsets                                *)
(* The iterator protocol is the code's: next(iter) returns a value and a  *)
(* new iter; iter = 0 afterwards means "no value, iteration over".        *)
EXTENDS Integers, Sequences, FiniteSets

Min(S) == CHOOSE x \in S : \A y \in S : x <= y

(* ---------------- family U ---------------- *)
UEmpty == [mode |-> "empty", val |-> 0, bits |-> {}]
UAss(r, x) ==
  CASE r.mode = "empty"  -> [mode |-> "single", val |-> x, bits |-> {}]
    [] r.mode = "single" -> [mode |-> "bits", val |-> 0, bits |-> {r.val, x}]
    [] r.mode = "bits"   -> [r EXCEPT !.bits = @ \cup {x}]
UHas(r, x) == IF r.mode = "single" THEN r.val = x ELSE x \in r.bits
UNext(r, it) ==
  CASE r.mode = "single" -> IF it = 0 THEN [res |-> r.val, it |-> 1] ELSE [res |-> 0, it |-> 0]
    [] r.mode = "bits" ->
         LET c == {b \in r.bits : b >= it} IN
         IF c # {} THEN [res |-> Min(c), it |-> Min(c) + 1] ELSE [res |-> 0, it |-> 0]
    [] OTHER -> [res |-> 0, it |-> 0]
UMembers(r) == IF r.mode = "single" THEN {r.val} ELSE r.bits

(* ---------------- family S ---------------- *)
(* W = largest magnitude (31 resp. 63); the code's switch-over iterator   *)
(* values are W+1 (32) and W+2 (33)                                        *)
SEmpty == [mode |-> "empty", val |-> 0, pos |-> {}, neg |-> {}]
SBits(x) == IF x > 0 THEN [pos |-> {x}, neg |-> {}] ELSE [pos |-> {}, neg |-> {-x}]
SAss(r, x) ==
  CASE r.mode = "empty"  -> [mode |-> "single", val |-> x, pos |-> {}, neg |-> {}]
    [] r.mode = "single" -> [mode |-> "bits", val |-> 0, pos |-> SBits(r.val).pos \cup SBits(x).pos,
                             neg |-> SBits(r.val).neg \cup SBits(x).neg]
    [] r.mode = "bits"   -> [r EXCEPT !.pos = @ \cup SBits(x).pos, !.neg = @ \cup SBits(x).neg]
SHas(r, x) == IF r.mode = "single" THEN r.val = x ELSE IF x > 0 THEN x \in r.pos ELSE (-x) \in r.neg
SNext(W, r, it) ==
  CASE r.mode = "single" -> IF it = 0 THEN [res |-> r.val, it |-> 1] ELSE [res |-> 0, it |-> 0]
    [] r.mode = "bits" ->
         IF it = 0 /\ 0 \in r.neg THEN [res |-> 0, it |-> 1]
         ELSE LET p == {b \in r.pos : b >= it} IN
              IF it < W + 1 /\ p # {}
              THEN [res |-> Min(p), it |-> IF \E b \in p : b > Min(p) THEN Min(p) + 1 ELSE W + 2]
              ELSE LET jt == IF it <= W + 1 THEN W + 2 ELSE it
                       n  == {k \in r.neg : k >= jt - (W + 1)}
                   IN IF jt < (2 * W) + 2 /\ n # {}
                      THEN [res |-> -Min(n), it |-> (W + 1) + Min(n) + 1]
                      ELSE [res |-> 0, it |-> 0]
    [] OTHER -> [res |-> 0, it |-> 0]
SMembers(r) == IF r.mode = "single" THEN {r.val} ELSE r.pos \cup {-k : k \in r.neg}

(* ---------------- family N ---------------- *)
(* K = native capacity (12 resp. 14), P = number of positive bits         *)
(* (384 resp. 448): values range over -(P-1) .. P-1                        *)
NEmpty == [mode |-> "native", arr |-> <<>>, pos |-> {}, neg |-> {}]
(* position for x in the iteration-ordered array: non-negatives ascending *)
(* first, then negatives descending (ass_int)                              *)
NScan(arr, x) ==
  LET stop == {j \in 1..Len(arr) : IF x >= 0 THEN ~(arr[j] >= 0 /\ arr[j] < x) ELSE ~(arr[j] > x)}
  IN IF stop = {} THEN Len(arr) + 1 ELSE Min(stop)
NInsertAt(arr, j, x) == SubSeq(arr, 1, j - 1) \o <<x>> \o SubSeq(arr, j, Len(arr))
NSetOf(s) == {s[k] : k \in 1..Len(s)}
NAssBits(r, x) == IF x > 0 THEN [r EXCEPT !.pos = @ \cup {x}] ELSE [r EXCEPT !.neg = @ \cup {-x}]
NAss(K, r, x) ==
  IF r.mode = "bits" THEN NAssBits(r, x)
  ELSE IF Len(r.arr) < K
       THEN LET j == NScan(r.arr, x) IN
            IF j <= Len(r.arr) /\ r.arr[j] = x THEN r
            ELSE [r EXCEPT !.arr = NInsertAt(r.arr, j, x)]
       ELSE (* degrade: everything into the bitsets, then x *)
            NAssBits([mode |-> "bits", arr |-> <<>>,
                      pos |-> {v \in NSetOf(r.arr) : v > 0}, neg |-> {-v : v \in {w \in NSetOf(r.arr) : w <= 0}}], x)
NNext(P, r, it) ==
  IF r.mode = "native"
  THEN IF it >= Len(r.arr) THEN [res |-> 0, it |-> 0] ELSE [res |-> r.arr[it + 1], it |-> it + 1]
  ELSE IF it = 0 /\ 0 \in r.neg THEN [res |-> 0, it |-> 1]
  ELSE LET jt == IF it = 0 THEN 1 ELSE it
           negs(from) == LET n == {k \in r.neg : k >= from} IN
                         IF n # {} THEN [res |-> -Min(n), it |-> Min(n) + P + 1] ELSE [res |-> 0, it |-> 0]
       IN IF jt < P
          THEN LET p == {b \in r.pos : b >= jt} IN
               IF p # {} THEN [res |-> Min(p), it |-> IF Min(p) + 1 >= P THEN Min(p) + 2 ELSE Min(p) + 1]
               ELSE negs(1)
          ELSE IF jt > P /\ jt < 2 * P THEN negs(jt - P)
          ELSE [res |-> 0, it |-> 0]
NMembers(r) == IF r.mode = "native" THEN NSetOf(r.arr) ELSE r.pos \cup {-k : k \in r.neg}

(* the sequence an iteration delivers, following the protocol, cut off    *)
(* after Cap steps (a longer one is a runaway)                            *)
RECURSIVE Drain(_, _, _, _)
Drain(NextOp(_), it, acc, cap) ==
  IF cap = 0 THEN Append(acc, "runaway")
  ELSE LET s == NextOp(it) IN
       IF s.it = 0 THEN acc ELSE Drain(NextOp, s.it, Append(acc, s.res), cap - 1)
=============================================================================
