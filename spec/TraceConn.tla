----------------------------- MODULE TraceConn -----------------------------
(* E2 for the growth item ConnProto: every recorded connection (the reads  *)
(* as they were handed to the daemon's sock_data_cb, whether an HTTP       *)
(* status line came back, whether the daemon still held the connection     *)
(* after the peer was done) against ConnProto!Outcome.                      *)
EXTENDS ConnProto, TLC, Json, IOUtils, FiniteSets
Tr == ndJsonDeserialize(IOEnv.TRACE)
Verdict(r) ==
  IF "died" \in DOMAIN r THEN "bad"
  ELSE LET rs == [i \in 1..Len(r.reads) |-> r.reads[i]]
           o == Outcome(rs)
       IN IF o.answered = r.answered /\ ~r.lingering THEN "ok" ELSE "bad"
(* ConnProto declares variables: a one-state behaviour keeps TLC content while the ASSUME below does the work *)
TI == kind = "closed" /\ answered = FALSE /\ reads = <<>>
TN == UNCHANGED vars
N == Len(Tr)
BadSet == {k \in 1..N : Verdict(Tr[k]) = "bad"}
ASSUME JsonSerialize(IOEnv.OUT, [n |-> N, nbad |-> Cardinality(BadSet), nskip |-> 0, bad |-> BadSet])
=============================================================================
