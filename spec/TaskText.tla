------------------------------ MODULE TaskText ------------------------------
(* Contract for C05.                                                        *)
(* (A) README field mapping: the attributes of the task read from an event  *)
(*     are what the properties written in the text say - first occurrence   *)
(*     of a single-valued property wins, ATTENDEEs accumulate, calendar     *)
(*     level X-ECHS-OWNER/-UMASK/-MAX-SIMUL/-SETUID/-SETGID serve as        *)
(*     defaults for what the event leaves unset - independently of which    *)
(*     other properties are present.                                        *)
(* (B) serialisation: the task written out after k occurrences have been    *)
(*     consumed, read back, has the same attributes and describes exactly   *)
(*     the occurrences not yet consumed, with the same durations.           *)
(* A property is a record [n |-> name, v |-> value as the reader must see   *)
(* it (string or number)].  "<unset>" marks an attribute that is not set.   *)
EXTENDS Integers, Sequences, FiniteSets
Unset == "<unset>"
First(fs, name) == IF \E i \in 1..Len(fs) : fs[i].n = name
                   THEN fs[CHOOSE i \in 1..Len(fs) : fs[i].n = name /\ \A j \in 1..(i - 1) : fs[j].n # name].v ELSE Unset
All(fs, name) == LET ix == SelectSeq([i \in 1..Len(fs) |-> i], LAMBDA i : fs[i].n = name) IN [j \in 1..Len(ix) |-> fs[ix[j]].v]
Dflt(ev, cal, name) == IF First(ev, name) # Unset THEN First(ev, name) ELSE First(cal, name)
Flag(fs, name) == LET v == First(fs, name) IN IF v = Unset THEN <<"#0", "#0">> ELSE <<v, "#1">>      \* <<value, was set>>; numbers travel as "#n"
ExpectedAttrs(ev, cal) ==
  [uid |-> First(ev, "UID"), cmd |-> First(ev, "SUMMARY"), desc |-> First(ev, "DESCRIPTION"),
   wd |-> First(ev, "LOCATION"), sh |-> First(ev, "X-ECHS-SHELL"),
   in |-> First(ev, "X-ECHS-IFILE"), out |-> First(ev, "X-ECHS-OFILE"), err |-> First(ev, "X-ECHS-EFILE"),
   org |-> First(ev, "ORGANIZER"), att |-> All(ev, "ATTENDEE"),
   mailout |-> Flag(ev, "X-ECHS-MAIL-OUT")[1], moutset |-> Flag(ev, "X-ECHS-MAIL-OUT")[2],
   mailerr |-> Flag(ev, "X-ECHS-MAIL-ERR")[1], merrset |-> Flag(ev, "X-ECHS-MAIL-ERR")[2],
   mailrun |-> Flag(ev, "X-ECHS-MAIL-RUN")[1], mrunset |-> Flag(ev, "X-ECHS-MAIL-RUN")[2],
   umsk |-> Dflt(ev, cal, "X-ECHS-UMASK"), max_simul |-> Dflt(ev, cal, "X-ECHS-MAX-SIMUL"),
   owner |-> Dflt(ev, cal, "X-ECHS-OWNER"), run_u |-> Dflt(ev, cal, "X-ECHS-SETUID"), run_g |-> Dflt(ev, cal, "X-ECHS-SETGID")]
AttrNames == {"uid", "cmd", "desc", "wd", "sh", "in", "out", "err", "org", "att", "mailout", "moutset", "mailerr", "merrset", "mailrun", "mrunset", "umsk", "max_simul", "owner", "run_u", "run_g"}
(* the attributes of a dumped task t that differ from the expectation x *)
Differ(t, x) == {a \in AttrNames : t[a] # x[a]}
(* two dumped tasks *)
SameAttrs(a, b) == \A n \in AttrNames : a[n] = b[n]
(* (B): a.occ holds the first k+m occurrences <<instant, duration>> of the original, b.occ the first m of the re-read task *)
Drop(s, k) == IF k >= Len(s) THEN <<>> ELSE SubSeq(s, k + 1, Len(s))
RemainingOk(a, b, hasb, k) ==
  LET rest == Drop(a.occ, k) IN
  IF rest = <<>> THEN (~hasb \/ b.occ = <<>>)          \* nothing left: nothing is written, or an empty stream
  ELSE hasb /\ b.occ = rest
=============================================================================
