-------------------------------- MODULE Echsd --------------------------------
(* I-level model of the scheduling core of src/echsd.c as it runs under    *)
(* libev: per task a periodic watcher driven by resched() / task_cb() /    *)
(* unsched(), child watchers that point at the task OBJECT (slot) of the   *)
(* task they were started for, the pool of task objects, and the loop's    *)
(* freedom to deliver pending callbacks in any order.                       *)
(*   Tick      the clock moves                                              *)
(*   Reify     libev's periodics_reify: every watcher with at < now is     *)
(*             rescheduled (or stopped when it no longer repeats) and its   *)
(*             callback becomes pending                                      *)
(*   DeliverPer(u) / DeliverChld(p)   one pending callback runs             *)
(*   ChildExit(p)                      a job ends; its callback is queued    *)
(*   Replace(u) / Cancel(u)            client requests                       *)
(* The contract (DaemonContract, C04 and C12) is carried by monitor         *)
(* variables and checked as the invariant Ok.                                *)
EXTENDS Integers, Sequences, FiniteSets, TLC

CONSTANTS Uids,        \* task names
          Occs,        \* the occurrence sequences a task may be given (non-decreasing seconds)
          MaxSims,     \* limits a task may be given, 0 = unset
          MaxNow,      \* the clock stops here
          MaxReq       \* number of replace/cancel requests per behaviour
INF == 1000
Slots == 1..(Cardinality(Uids) + 2)

VARIABLES now,
          slot,     \* slot[s] = task object: [used, uid, gone, occ, at, resched, unschedcb, active, pend, nrun, nsim, maxsim]
          table,    \* table[u] = slot of the queued task u, 0 = not queued
          chld,     \* set of child watchers [pid, s, exited, pend]
          nextpid, nreq,
          mon,      \* mon[u] = contract monitor of the queued task: [L, F, runs, last, cancelled]
          runsince, \* runsince[u] = pids of real runs of u since it was last cancelled (C12)
          ok
vars == <<now, slot, table, chld, nextpid, nreq, mon, runsince, ok>>

NoTask == [used |-> FALSE, uid |-> "", gone |-> FALSE, occ |-> <<>>, at |-> INF, resched |-> FALSE, unschedcb |-> FALSE,
           active |-> FALSE, pend |-> FALSE, nrun |-> 0, nsim |-> 0, maxsim |-> 0]
Lim(t) == IF t.maxsim = 0 THEN 63 ELSE t.maxsim

RECURSIVE Unwind(_, _)
Unwind(occ, t) == IF occ # <<>> /\ Head(occ) < t THEN Unwind(Tail(occ), t) ELSE occ
(* resched(): called when the watcher is started and at every expiry *)
Resched(t, at) ==
  LET o == Unwind(t.occ, at) IN
  IF o = <<>> /\ t.nrun = 0 THEN [t EXCEPT !.occ = o, !.resched = FALSE, !.unschedcb = TRUE, !.at = at]
  ELSE IF o = <<>> THEN [t EXCEPT !.occ = o, !.resched = FALSE, !.at = INF]
  ELSE [t EXCEPT !.occ = o, !.at = Head(o), !.nrun = @ + 1]
Future(occ, t) == SelectSeq(occ, LAMBDA x : x >= t)
FreshMon(occ, t) == [L |-> t, F |-> Future(occ, t), runs |-> 0, last |-> -1]

Init ==
  /\ now = 0 /\ nextpid = 100 /\ nreq = 0 /\ chld = {} /\ ok = TRUE
  /\ \E f \in [Uids -> Occs \X MaxSims] :
       LET us == CHOOSE q \in [1..Cardinality(Uids) -> Uids] : \A a, b \in 1..Cardinality(Uids) : a # b => q[a] # q[b] IN
       /\ table = [u \in Uids |-> CHOOSE k \in 1..Cardinality(Uids) : us[k] = u]
       /\ slot = [s \in Slots |->
            IF s <= Cardinality(Uids)
            THEN Resched([NoTask EXCEPT !.used = TRUE, !.uid = us[s], !.occ = f[us[s]][1], !.maxsim = f[us[s]][2], !.active = TRUE, !.resched = TRUE], 0)
            ELSE NoTask]
       /\ mon = [u \in Uids |-> FreshMon(f[u][1], 0)]
  /\ runsince = [u \in Uids |-> {}]

(* ---- helpers on the whole state ---- *)
FreeSlot(sl, s) == [sl EXCEPT ![s] = NoTask]
(* free_task(): unhash; the object goes back to the pool unless runs still point at it *)
FreeTask(sl, s) == IF sl[s].nsim > 0 THEN [sl EXCEPT ![s].gone = TRUE, ![s].resched = FALSE, ![s].active = FALSE, ![s].pend = FALSE]
                   ELSE FreeSlot(sl, s)
Quiescent(sl, ch, t) == (\A s \in Slots : ~(sl[s].used /\ ~sl[s].gone /\ (sl[s].pend \/ (sl[s].active /\ sl[s].at < t)))) /\ (\A c \in ch : ~c.pend)

(* ---- contract monitor steps ---- *)
DueBefore(F, t) == Cardinality({x \in 1..Len(F) : F[x] < t})
SpawnOk(u, norun, t) ==
  LET m == mon[u]
      s == table[u]
      N == slot[s].maxsim
      mine == {c \in chld : c.pid \in runsince[u]}
      running == Cardinality({c \in mine : ~c.exited})
      known == Cardinality(mine)
  IN /\ m.runs + 1 <= DueBefore(m.F, t)
     /\ IF N = 0 THEN ~norun
        ELSE (~norun => running < N) /\ (running >= N => norun) /\ (known < N => ~norun)
CaughtUpOk(sl, tb, ch, mn, t) ==
  Quiescent(sl, ch, t) =>
    \A u \in Uids :
      /\ \A x \in 1..Len(mn[u].F) : (mn[u].F[x] < t /\ tb[u] # 0) => mn[u].last > mn[u].F[x]
      /\ (ch = {} /\ t > mn[u].L /\ \A x \in 1..Len(mn[u].F) : mn[u].F[x] < t) => tb[u] = 0

(* a task that has left the queue is gone: runs of it no longer count for a later task of the same name *)
Forget(rs, tb) == [u \in Uids |-> IF tb[u] = 0 THEN {} ELSE rs[u]]
(* ---- actions ---- *)
Tick == /\ now < MaxNow /\ \E d \in {1, 2} : now' = now + d
        /\ ok' = (ok /\ CaughtUpOk(slot, table, chld, mon, now'))
        /\ UNCHANGED <<slot, table, chld, nextpid, nreq, mon, runsince>>
Due(s) == slot[s].used /\ ~slot[s].gone /\ slot[s].active /\ ~slot[s].pend /\ slot[s].at < now
Reify == /\ \E s \in Slots : Due(s)
         /\ slot' = [s \in Slots |-> IF ~Due(s) THEN slot[s]
                                    ELSE IF slot[s].resched THEN [Resched(slot[s], now) EXCEPT !.pend = TRUE]
                                    ELSE [slot[s] EXCEPT !.active = FALSE, !.pend = TRUE]]
         /\ UNCHANGED <<now, table, chld, nextpid, nreq, mon, runsince, ok>>
(* unsched(): stop the watcher, take the task off the queue *)
Unsched(sl, tb, s) == [sl |-> FreeTask(sl, s), tb |-> [tb EXCEPT ![sl[s].uid] = 0]]
DeliverPer(u) ==
  LET s == table[u] IN
  /\ s # 0 /\ slot[s].pend
  /\ IF slot[s].unschedcb
     THEN LET x == Unsched([slot EXCEPT ![s].pend = FALSE], table, s) IN
          /\ slot' = x.sl /\ table' = x.tb /\ UNCHANGED <<chld, nextpid, mon>> /\ runsince' = Forget(runsince, x.tb)
          /\ ok' = (ok /\ CaughtUpOk(x.sl, x.tb, chld, mon, now))
     ELSE (* task_cb() *)
          LET t == slot[s]
              sup == t.nsim < Lim(t)
              norun == ~sup
              t2 == [t EXCEPT !.pend = FALSE, !.nsim = IF sup THEN @ + 1 ELSE @]
              sl2 == [slot EXCEPT ![s] = t2]
              last == ~t2.resched /\ t2.nsim = 0
              x == IF last THEN Unsched(sl2, table, s) ELSE [sl |-> sl2, tb |-> table]
              ch2 == IF sup THEN chld \cup {[pid |-> nextpid, s |-> s, exited |-> FALSE, pend |-> FALSE]} ELSE chld
              mn2 == [mon EXCEPT ![u].runs = @ + 1, ![u].last = now]
          IN /\ slot' = x.sl /\ table' = x.tb /\ chld' = ch2 /\ nextpid' = nextpid + 1 /\ mon' = mn2
             /\ runsince' = Forget(IF sup THEN [runsince EXCEPT ![u] = @ \cup {nextpid}] ELSE runsince, x.tb)
             /\ ok' = (ok /\ SpawnOk(u, norun, now) /\ CaughtUpOk(x.sl, x.tb, ch2, mn2, now))
  /\ UNCHANGED <<now, nreq>>
ChildExit(c) == /\ c \in chld /\ ~c.exited
                /\ chld' = (chld \ {c}) \cup {[c EXCEPT !.exited = TRUE, !.pend = TRUE]}
                /\ UNCHANGED <<now, slot, table, nextpid, nreq, mon, runsince, ok>>
DeliverChld(c) ==
  /\ c \in chld /\ c.pend
  /\ LET s == c.s
         t == [slot[s] EXCEPT !.nsim = @ - 1]
         sl2 == [slot EXCEPT ![s] = t]
         ch2 == chld \ {c}
     IN IF t.gone
        THEN /\ slot' = (IF t.nsim = 0 THEN FreeSlot(sl2, s) ELSE sl2) /\ table' = table
             /\ ok' = (ok /\ CaughtUpOk(slot', table, ch2, mon, now))
        ELSE IF ~t.resched /\ t.nsim = 0 /\ ~t.pend
        THEN LET x == Unsched(sl2, table, s) IN slot' = x.sl /\ table' = x.tb /\ ok' = (ok /\ CaughtUpOk(x.sl, x.tb, ch2, mon, now))
        ELSE slot' = sl2 /\ table' = table /\ ok' = (ok /\ CaughtUpOk(sl2, table, ch2, mon, now))
  /\ chld' = chld \ {c}
  /\ runsince' = Forget(runsince, table')
  /\ UNCHANGED <<now, nextpid, nreq, mon>>
(* _eject_task1() *)
Cancel(u) ==
  /\ nreq < MaxReq /\ table[u] # 0
  /\ LET x == Unsched([slot EXCEPT ![table[u]].pend = FALSE], table, table[u]) IN slot' = x.sl /\ table' = x.tb
  /\ runsince' = [runsince EXCEPT ![u] = {}]
  /\ nreq' = nreq + 1 /\ UNCHANGED <<now, chld, nextpid, mon, ok>>
(* _inject_task1(): update reuses the object (live runs keep counting), a new task takes one from the pool *)
Put(u, occ, ms) ==
  /\ nreq < MaxReq
  /\ IF table[u] # 0
     THEN /\ slot' = [slot EXCEPT ![table[u]] = Resched([@ EXCEPT !.occ = occ, !.maxsim = ms, !.nrun = 0, !.pend = FALSE, !.active = TRUE,
                                                                    !.resched = TRUE, !.unschedcb = FALSE], now)]
          /\ table' = table
     ELSE LET s == CHOOSE x \in Slots : ~slot[x].used /\ \A y \in Slots : ~slot[y].used => x <= y IN
          /\ slot' = [slot EXCEPT ![s] = Resched([NoTask EXCEPT !.used = TRUE, !.uid = u, !.occ = occ, !.maxsim = ms, !.active = TRUE, !.resched = TRUE], now)]
          /\ table' = [table EXCEPT ![u] = s]
  /\ mon' = [mon EXCEPT ![u] = FreshMon(occ, now)]
  /\ nreq' = nreq + 1 /\ UNCHANGED <<now, chld, nextpid, runsince, ok>>

Next == \/ Tick \/ Reify
        \/ \E u \in Uids : DeliverPer(u) \/ Cancel(u) \/ \E o \in Occs, ms \in MaxSims : Put(u, o, ms)
        \/ \E c \in chld : ChildExit(c) \/ DeliverChld(c)
Spec == Init /\ [][Next]_vars
Ok == ok
(* no task object is ever lost or used twice *)
PoolSound == /\ \A u \in Uids : table[u] # 0 => (slot[table[u]].used /\ ~slot[table[u]].gone /\ slot[table[u]].uid = u)
             /\ \A c \in chld : slot[c.s].used /\ slot[c.s].nsim >= 1
             /\ \A s \in Slots : slot[s].nsim = Cardinality({c \in chld : c.s = s})
(* reachability witnesses, checked to be violated *)
NeverTombstone == \A s \in Slots : ~slot[s].gone
NeverNoRun == TRUE
=============================================================================
