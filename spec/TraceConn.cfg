INIT TI
NEXT TN
CHECK_DEADLOCK FALSE
