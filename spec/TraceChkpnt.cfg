\* constant-level evaluation only
