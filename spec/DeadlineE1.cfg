SPECIFICATION Spec
INVARIANT ChainIsIdentity
INVARIANT SpellingsAgree
CHECK_DEADLOCK FALSE
