----------------------------- MODULE TraceDaemon -----------------------------
(* E2/E3 for C04, C11, C12: each line is one complete run of the real      *)
(* daemon code in the harness; the property named in PROP is judged.       *)
EXTENDS DaemonContract, TLC, Json, IOUtils
Tr == ndJsonDeserialize(IOEnv.TRACE)
Prop == IOEnv.PROP
Holds(r) ==
  CASE Prop = "C04" -> C04Holds(r.ev)
    [] Prop = "C12" -> C12Holds(r.ev)
    [] Prop = "C11" -> C11Holds(r.ev)
    [] OTHER -> FALSE
Verdict(r) == IF ~NoDeath(r.ev) THEN "bad" ELSE IF Holds(r) THEN "ok" ELSE "bad"
(* I-level binding: after every step of a replayed model behaviour the real task table projects onto the model state *)
States(ev) == SelectSeq(ev, LAMBDA e : e.e = "State")
ProjOf(st) == [tasks |-> {<<t.uid, t.at, t.nrun, t.nsim, t.resched, t.pending = 1>> : t \in SeqSet(st.tasks)}, children |-> SeqSet(st.children)]
ModelProj(m) == [tasks |-> {<<x[1], x[2], x[3], x[4], x[5], x[6]>> : x \in SeqSet(m.tasks)}, children |-> SeqSet(m.children)]
Drift(r) == "model" \in DOMAIN r /\ NoDeath(r.ev) /\
  LET ss == States(r.ev) IN
  \/ Len(ss) # Len(r.model)
  \/ \E i \in 1..Len(r.model) : "tasks" \in DOMAIN r.model[i] /\ ProjOf(ss[i]) # ModelProj(r.model[i])
N == Len(Tr)
DriftSet == {k \in 1..N : Drift(Tr[k])}
BadSet == {k \in 1..N : Verdict(Tr[k]) = "bad"}
ASSUME JsonSerialize(IOEnv.OUT, [n |-> N, nbad |-> Cardinality(BadSet), nskip |-> 0, bad |-> BadSet, ndrift |-> Cardinality(DriftSet), drift |-> DriftSet])
=============================================================================
