------------------------------- MODULE TraceRT -------------------------------
(* E2 for C05: every recorded read / write-after-k / read-back of the real  *)
(* parser and serialiser is judged against TaskText.tla.                     *)
EXTENDS TaskText, TLC, Json, IOUtils
Tr == ndJsonDeserialize(IOEnv.TRACE)
Verdict(r) ==
  IF "crash" \in DOMAIN r \/ "timeout" \in DOMAIN r \/ "noevent" \in DOMAIN r THEN "bad"
  ELSE IF r.beyond_zone_data THEN "skip"      \* zoned event followed past 2037, where the zone files carry no transitions any more (C07's range)
  ELSE LET x == ExpectedAttrs(r.ev, r.cal) IN
       IF /\ Differ(r.a, x) = {}
          /\ r.ntask_a = 1
          /\ r.lost = 0
          /\ RemainingOk(r.a, r.b, r.has_b, r.k)
          /\ (r.has_b => (SameAttrs(r.a, r.b) /\ r.ntask_b = 1 + r.nproto))
       THEN "ok" ELSE "bad"
(* bad for another reason than the occurrences read back (attributes, lost or surplus tasks, a crash): what the known findings *)
(* about written schedules do not cover                                                                                         *)
Other(r) ==
  IF "crash" \in DOMAIN r \/ "timeout" \in DOMAIN r \/ "noevent" \in DOMAIN r THEN TRUE
  ELSE IF r.beyond_zone_data THEN FALSE
  ELSE LET x == ExpectedAttrs(r.ev, r.cal) IN
       ~(/\ Differ(r.a, x) = {} /\ r.ntask_a = 1 /\ r.lost = 0 /\ (r.has_b => (SameAttrs(r.a, r.b) /\ r.ntask_b = 1 + r.nproto)))
N == Len(Tr)
BadSet == {k \in 1..N : Verdict(Tr[k]) = "bad"}
SkipSet == {k \in 1..N : Verdict(Tr[k]) = "skip"}
ASSUME JsonSerialize(IOEnv.OUT, [n |-> N, nbad |-> Cardinality(BadSet), nskip |-> Cardinality(SkipSet), bad |-> BadSet, other |-> {k \in BadSet : Other(Tr[k])}])
=============================================================================
