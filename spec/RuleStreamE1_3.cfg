SPECIFICATION SpecE
CONSTANTS
 C = 3
 N = 9
 Counts <- CountsV
 Corrs <- Ident
INVARIANT PrefixOfSet
INVARIANT PeekIsNextPop
INVARIANT EndsRight
INVARIANT NeverTooMany
INVARIANT SerialiseOk
CHECK_DEADLOCK FALSE
