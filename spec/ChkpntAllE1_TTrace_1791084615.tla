---- MODULE ChkpntAllE1_TTrace_1791084615 ----
EXTENDS Sequences, TLCExt, Toolbox, ChkpntAllE1, Naturals, TLC

_expression ==
    LET ChkpntAllE1_TEExpression == INSTANCE ChkpntAllE1_TEExpression
    IN ChkpntAllE1_TEExpression!expression
----

_trace ==
    LET ChkpntAllE1_TETrace == INSTANCE ChkpntAllE1_TETrace
    IN ChkpntAllE1_TETrace!trace
----

_inv ==
    ~(
        TLCGet("level") = Len(_TETrace)
        /\
        saved = ([u1 |-> {{"c"}}, u2 |-> {}, u3 |-> {}])
        /\
        nchg = (2)
        /\
        dot = ([u1 |-> [tasks |-> {}, complete |-> FALSE, there |-> FALSE], u2 |-> [tasks |-> {}, complete |-> FALSE, there |-> FALSE], u3 |-> [tasks |-> {}, complete |-> FALSE, there |-> FALSE]])
        /\
        crashed = (FALSE)
        /\
        failed = (TRUE)
        /\
        ca = ([phase |-> "idle", order |-> <<>>, i |-> 0, fd |-> [u1 |-> "none", u2 |-> "none", u3 |-> "none"], lost |-> FALSE, snap |-> [u1 |-> {}, u2 |-> {}, u3 |-> {}], rc |-> 0, sub |-> "none"])
        /\
        queue = ([c |-> "none", a |-> "none", b |-> "none"])
        /\
        retry = (FALSE)
        /\
        live = ([u1 |-> [tasks |-> {"c"}, complete |-> TRUE, there |-> TRUE], u2 |-> [tasks |-> {}, complete |-> FALSE, there |-> FALSE], u3 |-> [tasks |-> {}, complete |-> FALSE, there |-> FALSE]])
    )
----

_init ==
    /\ dot = _TETrace[1].dot
    /\ nchg = _TETrace[1].nchg
    /\ ca = _TETrace[1].ca
    /\ queue = _TETrace[1].queue
    /\ crashed = _TETrace[1].crashed
    /\ failed = _TETrace[1].failed
    /\ retry = _TETrace[1].retry
    /\ live = _TETrace[1].live
    /\ saved = _TETrace[1].saved
----

_next ==
    /\ \E i,j \in DOMAIN _TETrace:
        /\ \/ /\ j = i + 1
              /\ i = TLCGet("level")
        /\ dot  = _TETrace[i].dot
        /\ dot' = _TETrace[j].dot
        /\ nchg  = _TETrace[i].nchg
        /\ nchg' = _TETrace[j].nchg
        /\ ca  = _TETrace[i].ca
        /\ ca' = _TETrace[j].ca
        /\ queue  = _TETrace[i].queue
        /\ queue' = _TETrace[j].queue
        /\ crashed  = _TETrace[i].crashed
        /\ crashed' = _TETrace[j].crashed
        /\ failed  = _TETrace[i].failed
        /\ failed' = _TETrace[j].failed
        /\ retry  = _TETrace[i].retry
        /\ retry' = _TETrace[j].retry
        /\ live  = _TETrace[i].live
        /\ live' = _TETrace[j].live
        /\ saved  = _TETrace[i].saved
        /\ saved' = _TETrace[j].saved

\* Uncomment the ASSUME below to write the states of the error trace
\* to the given file in Json format. Note that you can pass any tuple
\* to `JsonSerialize`. For example, a sub-sequence of _TETrace.
    \* ASSUME
    \*     LET J == INSTANCE Json
    \*         IN J!JsonSerialize("ChkpntAllE1_TTrace_1791084615.json", _TETrace)

=============================================================================

 Note that you can extract this module `ChkpntAllE1_TEExpression`
  to a dedicated file to reuse `expression` (the module in the 
  dedicated `ChkpntAllE1_TEExpression.tla` file takes precedence 
  over the module `ChkpntAllE1_TEExpression` below).

---- MODULE ChkpntAllE1_TEExpression ----
EXTENDS Sequences, TLCExt, Toolbox, ChkpntAllE1, Naturals, TLC

expression == 
    [
        \* To hide variables of the `ChkpntAllE1` spec from the error trace,
        \* remove the variables below.  The trace will be written in the order
        \* of the fields of this record.
        dot |-> dot
        ,nchg |-> nchg
        ,ca |-> ca
        ,queue |-> queue
        ,crashed |-> crashed
        ,failed |-> failed
        ,retry |-> retry
        ,live |-> live
        ,saved |-> saved
        
        \* Put additional constant-, state-, and action-level expressions here:
        \* ,_stateNumber |-> _TEPosition
        \* ,_dotUnchanged |-> dot = dot'
        
        \* Format the `dot` variable as Json value.
        \* ,_dotJson |->
        \*     LET J == INSTANCE Json
        \*     IN J!ToJson(dot)
        
        \* Lastly, you may build expressions over arbitrary sets of states by
        \* leveraging the _TETrace operator.  For example, this is how to
        \* count the number of times a spec variable changed up to the current
        \* state in the trace.
        \* ,_dotModCount |->
        \*     LET F[s \in DOMAIN _TETrace] ==
        \*         IF s = 1 THEN 0
        \*         ELSE IF _TETrace[s].dot # _TETrace[s-1].dot
        \*             THEN 1 + F[s-1] ELSE F[s-1]
        \*     IN F[_TEPosition - 1]
    ]

=============================================================================



Parsing and semantic processing can take forever if the trace below is long.
 In this case, it is advised to uncomment the module below to deserialize the
 trace from a generated binary file.

\*
\*---- MODULE ChkpntAllE1_TETrace ----
\*EXTENDS IOUtils, ChkpntAllE1, TLC
\*
\*trace == IODeserialize("ChkpntAllE1_TTrace_1791084615.bin", TRUE)
\*
\*=============================================================================
\*

---- MODULE ChkpntAllE1_TETrace ----
EXTENDS ChkpntAllE1, TLC

trace == 
    <<
    ([saved |-> [u1 |-> {}, u2 |-> {}, u3 |-> {}],nchg |-> 0,dot |-> [u1 |-> [tasks |-> {}, complete |-> FALSE, there |-> FALSE], u2 |-> [tasks |-> {}, complete |-> FALSE, there |-> FALSE], u3 |-> [tasks |-> {}, complete |-> FALSE, there |-> FALSE]],crashed |-> FALSE,failed |-> FALSE,ca |-> [phase |-> "idle", order |-> <<>>, i |-> 0, fd |-> [u1 |-> "none", u2 |-> "none", u3 |-> "none"], lost |-> FALSE, snap |-> [u1 |-> {}, u2 |-> {}, u3 |-> {}], rc |-> 0, sub |-> "none"],queue |-> [c |-> "none", a |-> "none", b |-> "none"],retry |-> FALSE,live |-> [u1 |-> [tasks |-> {}, complete |-> FALSE, there |-> FALSE], u2 |-> [tasks |-> {}, complete |-> FALSE, there |-> FALSE], u3 |-> [tasks |-> {}, complete |-> FALSE, there |-> FALSE]]]),
    ([saved |-> [u1 |-> {}, u2 |-> {}, u3 |-> {}],nchg |-> 1,dot |-> [u1 |-> [tasks |-> {}, complete |-> FALSE, there |-> FALSE], u2 |-> [tasks |-> {}, complete |-> FALSE, there |-> FALSE], u3 |-> [tasks |-> {}, complete |-> FALSE, there |-> FALSE]],crashed |-> FALSE,failed |-> FALSE,ca |-> [phase |-> "idle", order |-> <<>>, i |-> 0, fd |-> [u1 |-> "none", u2 |-> "none", u3 |-> "none"], lost |-> FALSE, snap |-> [u1 |-> {}, u2 |-> {}, u3 |-> {}], rc |-> 0, sub |-> "none"],queue |-> [c |-> "u1", a |-> "none", b |-> "none"],retry |-> TRUE,live |-> [u1 |-> [tasks |-> {}, complete |-> FALSE, there |-> FALSE], u2 |-> [tasks |-> {}, complete |-> FALSE, there |-> FALSE], u3 |-> [tasks |-> {}, complete |-> FALSE, there |-> FALSE]]]),
    ([saved |-> [u1 |-> {}, u2 |-> {}, u3 |-> {}],nchg |-> 1,dot |-> [u1 |-> [tasks |-> {}, complete |-> FALSE, there |-> FALSE], u2 |-> [tasks |-> {}, complete |-> FALSE, there |-> FALSE], u3 |-> [tasks |-> {}, complete |-> FALSE, there |-> FALSE]],crashed |-> FALSE,failed |-> FALSE,ca |-> [phase |-> "scan", order |-> <<"u1">>, i |-> 1, fd |-> [u1 |-> "none", u2 |-> "none", u3 |-> "none"], lost |-> FALSE, snap |-> [u1 |-> {}, u2 |-> {}, u3 |-> {}], rc |-> 0, sub |-> "none"],queue |-> [c |-> "u1", a |-> "none", b |-> "none"],retry |-> TRUE,live |-> [u1 |-> [tasks |-> {}, complete |-> FALSE, there |-> FALSE], u2 |-> [tasks |-> {}, complete |-> FALSE, there |-> FALSE], u3 |-> [tasks |-> {}, complete |-> FALSE, there |-> FALSE]]]),
    ([saved |-> [u1 |-> {}, u2 |-> {}, u3 |-> {}],nchg |-> 1,dot |-> [u1 |-> [tasks |-> {}, complete |-> FALSE, there |-> FALSE], u2 |-> [tasks |-> {}, complete |-> FALSE, there |-> FALSE], u3 |-> [tasks |-> {}, complete |-> FALSE, there |-> FALSE]],crashed |-> FALSE,failed |-> TRUE,ca |-> [phase |-> "fini", order |-> <<"u1">>, i |-> 1, fd |-> [u1 |-> "bad", u2 |-> "none", u3 |-> "none"], lost |-> FALSE, snap |-> [u1 |-> {}, u2 |-> {}, u3 |-> {}], rc |-> 0, sub |-> "none"],queue |-> [c |-> "u1", a |-> "none", b |-> "none"],retry |-> TRUE,live |-> [u1 |-> [tasks |-> {}, complete |-> FALSE, there |-> FALSE], u2 |-> [tasks |-> {}, complete |-> FALSE, there |-> FALSE], u3 |-> [tasks |-> {}, complete |-> FALSE, there |-> FALSE]]]),
    ([saved |-> [u1 |-> {}, u2 |-> {}, u3 |-> {}],nchg |-> 1,dot |-> [u1 |-> [tasks |-> {}, complete |-> FALSE, there |-> FALSE], u2 |-> [tasks |-> {}, complete |-> FALSE, there |-> FALSE], u3 |-> [tasks |-> {}, complete |-> FALSE, there |-> FALSE]],crashed |-> FALSE,failed |-> TRUE,ca |-> [phase |-> "wrap", order |-> <<"u1">>, i |-> 1, fd |-> [u1 |-> "bad", u2 |-> "none", u3 |-> "none"], lost |-> FALSE, snap |-> [u1 |-> {}, u2 |-> {}, u3 |-> {}], rc |-> 0, sub |-> "none"],queue |-> [c |-> "u1", a |-> "none", b |-> "none"],retry |-> TRUE,live |-> [u1 |-> [tasks |-> {}, complete |-> FALSE, there |-> FALSE], u2 |-> [tasks |-> {}, complete |-> FALSE, there |-> FALSE], u3 |-> [tasks |-> {}, complete |-> FALSE, there |-> FALSE]]]),
    ([saved |-> [u1 |-> {{"c"}}, u2 |-> {}, u3 |-> {}],nchg |-> 1,dot |-> [u1 |-> [tasks |-> {}, complete |-> FALSE, there |-> FALSE], u2 |-> [tasks |-> {}, complete |-> FALSE, there |-> FALSE], u3 |-> [tasks |-> {}, complete |-> FALSE, there |-> FALSE]],crashed |-> FALSE,failed |-> TRUE,ca |-> [phase |-> "sweep", order |-> <<"u1">>, i |-> 1, fd |-> [u1 |-> "bad", u2 |-> "none", u3 |-> "none"], lost |-> FALSE, snap |-> [u1 |-> {}, u2 |-> {}, u3 |-> {}], rc |-> 0, sub |-> "none"],queue |-> [c |-> "u1", a |-> "none", b |-> "none"],retry |-> TRUE,live |-> [u1 |-> [tasks |-> {"c"}, complete |-> TRUE, there |-> TRUE], u2 |-> [tasks |-> {}, complete |-> FALSE, there |-> FALSE], u3 |-> [tasks |-> {}, complete |-> FALSE, there |-> FALSE]]]),
    ([saved |-> [u1 |-> {{"c"}}, u2 |-> {}, u3 |-> {}],nchg |-> 1,dot |-> [u1 |-> [tasks |-> {}, complete |-> FALSE, there |-> FALSE], u2 |-> [tasks |-> {}, complete |-> FALSE, there |-> FALSE], u3 |-> [tasks |-> {}, complete |-> FALSE, there |-> FALSE]],crashed |-> FALSE,failed |-> TRUE,ca |-> [phase |-> "end", order |-> <<"u1">>, i |-> 1, fd |-> [u1 |-> "bad", u2 |-> "none", u3 |-> "none"], lost |-> FALSE, snap |-> [u1 |-> {}, u2 |-> {}, u3 |-> {}], rc |-> 0, sub |-> "none"],queue |-> [c |-> "u1", a |-> "none", b |-> "none"],retry |-> TRUE,live |-> [u1 |-> [tasks |-> {"c"}, complete |-> TRUE, there |-> TRUE], u2 |-> [tasks |-> {}, complete |-> FALSE, there |-> FALSE], u3 |-> [tasks |-> {}, complete |-> FALSE, there |-> FALSE]]]),
    ([saved |-> [u1 |-> {{"c"}}, u2 |-> {}, u3 |-> {}],nchg |-> 1,dot |-> [u1 |-> [tasks |-> {}, complete |-> FALSE, there |-> FALSE], u2 |-> [tasks |-> {}, complete |-> FALSE, there |-> FALSE], u3 |-> [tasks |-> {}, complete |-> FALSE, there |-> FALSE]],crashed |-> FALSE,failed |-> TRUE,ca |-> [phase |-> "idle", order |-> <<>>, i |-> 0, fd |-> [u1 |-> "none", u2 |-> "none", u3 |-> "none"], lost |-> FALSE, snap |-> [u1 |-> {}, u2 |-> {}, u3 |-> {}], rc |-> 0, sub |-> "none"],queue |-> [c |-> "u1", a |-> "none", b |-> "none"],retry |-> FALSE,live |-> [u1 |-> [tasks |-> {"c"}, complete |-> TRUE, there |-> TRUE], u2 |-> [tasks |-> {}, complete |-> FALSE, there |-> FALSE], u3 |-> [tasks |-> {}, complete |-> FALSE, there |-> FALSE]]]),
    ([saved |-> [u1 |-> {{"c"}}, u2 |-> {}, u3 |-> {}],nchg |-> 2,dot |-> [u1 |-> [tasks |-> {}, complete |-> FALSE, there |-> FALSE], u2 |-> [tasks |-> {}, complete |-> FALSE, there |-> FALSE], u3 |-> [tasks |-> {}, complete |-> FALSE, there |-> FALSE]],crashed |-> FALSE,failed |-> TRUE,ca |-> [phase |-> "idle", order |-> <<>>, i |-> 0, fd |-> [u1 |-> "none", u2 |-> "none", u3 |-> "none"], lost |-> FALSE, snap |-> [u1 |-> {}, u2 |-> {}, u3 |-> {}], rc |-> 0, sub |-> "none"],queue |-> [c |-> "none", a |-> "none", b |-> "none"],retry |-> TRUE,live |-> [u1 |-> [tasks |-> {"c"}, complete |-> TRUE, there |-> TRUE], u2 |-> [tasks |-> {}, complete |-> FALSE, there |-> FALSE], u3 |-> [tasks |-> {}, complete |-> FALSE, there |-> FALSE]]]),
    ([saved |-> [u1 |-> {{"c"}}, u2 |-> {}, u3 |-> {}],nchg |-> 2,dot |-> [u1 |-> [tasks |-> {}, complete |-> FALSE, there |-> FALSE], u2 |-> [tasks |-> {}, complete |-> FALSE, there |-> FALSE], u3 |-> [tasks |-> {}, complete |-> FALSE, there |-> FALSE]],crashed |-> FALSE,failed |-> TRUE,ca |-> [phase |-> "sweep", order |-> <<>>, i |-> 1, fd |-> [u1 |-> "none", u2 |-> "none", u3 |-> "none"], lost |-> FALSE, snap |-> [u1 |-> {}, u2 |-> {}, u3 |-> {}], rc |-> 0, sub |-> "none"],queue |-> [c |-> "none", a |-> "none", b |-> "none"],retry |-> TRUE,live |-> [u1 |-> [tasks |-> {"c"}, complete |-> TRUE, there |-> TRUE], u2 |-> [tasks |-> {}, complete |-> FALSE, there |-> FALSE], u3 |-> [tasks |-> {}, complete |-> FALSE, there |-> FALSE]]]),
    ([saved |-> [u1 |-> {{"c"}}, u2 |-> {}, u3 |-> {}],nchg |-> 2,dot |-> [u1 |-> [tasks |-> {}, complete |-> FALSE, there |-> FALSE], u2 |-> [tasks |-> {}, complete |-> FALSE, there |-> FALSE], u3 |-> [tasks |-> {}, complete |-> FALSE, there |-> FALSE]],crashed |-> FALSE,failed |-> TRUE,ca |-> [phase |-> "end", order |-> <<>>, i |-> 1, fd |-> [u1 |-> "none", u2 |-> "none", u3 |-> "none"], lost |-> FALSE, snap |-> [u1 |-> {}, u2 |-> {}, u3 |-> {}], rc |-> 0, sub |-> "none"],queue |-> [c |-> "none", a |-> "none", b |-> "none"],retry |-> TRUE,live |-> [u1 |-> [tasks |-> {"c"}, complete |-> TRUE, there |-> TRUE], u2 |-> [tasks |-> {}, complete |-> FALSE, there |-> FALSE], u3 |-> [tasks |-> {}, complete |-> FALSE, there |-> FALSE]]]),
    ([saved |-> [u1 |-> {{"c"}}, u2 |-> {}, u3 |-> {}],nchg |-> 2,dot |-> [u1 |-> [tasks |-> {}, complete |-> FALSE, there |-> FALSE], u2 |-> [tasks |-> {}, complete |-> FALSE, there |-> FALSE], u3 |-> [tasks |-> {}, complete |-> FALSE, there |-> FALSE]],crashed |-> FALSE,failed |-> TRUE,ca |-> [phase |-> "idle", order |-> <<>>, i |-> 0, fd |-> [u1 |-> "none", u2 |-> "none", u3 |-> "none"], lost |-> FALSE, snap |-> [u1 |-> {}, u2 |-> {}, u3 |-> {}], rc |-> 0, sub |-> "none"],queue |-> [c |-> "none", a |-> "none", b |-> "none"],retry |-> FALSE,live |-> [u1 |-> [tasks |-> {"c"}, complete |-> TRUE, there |-> TRUE], u2 |-> [tasks |-> {}, complete |-> FALSE, there |-> FALSE], u3 |-> [tasks |-> {}, complete |-> FALSE, there |-> FALSE]]])
    >>
----


=============================================================================

---- CONFIG ChkpntAllE1_TTrace_1791084615 ----
CONSTANTS
    Users <- UsersV
    Tasks <- TasksV
    MaxChanges = 4
    FallbackFixed = TRUE
    SweepSpool = FALSE

INVARIANT
    _inv

CHECK_DEADLOCK
    \* CHECK_DEADLOCK off because of PROPERTY or INVARIANT above.
    FALSE

INIT
    _init

NEXT
    _next

CONSTANT
    _TETrace <- _trace

ALIAS
    _expression
=============================================================================
\* Generated on Sun Oct 04 03:30:17 UTC 2026