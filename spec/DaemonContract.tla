--------------------------- MODULE DaemonContract ---------------------------
(* A-level contracts of the scheduling daemon (src/echsd.c), stated over  *)
(* what can be observed from outside: requests and their replies, the      *)
(* spawns of the executor (with the no-run marker), child exits, the clock *)
(* and the /sched, /queue listings.  A run is a sequence ev of events, as  *)
(* recorded by the daemon harness:                                         *)
(*   Req    [now, peer, items, replies, nfooter]   one client request      *)
(*          item = [kind "add"|"cancel", uid, occ (seconds), maxsim, owner?]*)
(*   Spawn  [now, uid, pid, norun]                 executor started        *)
(*   Exit   [pid]                                  the job ended           *)
(*   Deliver[k "chld", pid] / [k "per", uid]       the daemon learnt of it *)
(*   State  [now, tasks, pending, children]        snapshot after a step   *)
(*   Http   [peer, status, uids]                   listing                 *)
(* Times are whole seconds of a virtual clock; a timer for second o can    *)
(* fire at the first wake-up with now > o.                                  *)
EXTENDS Integers, Sequences, FiniteSets

SeqSet(s) == {s[i] : i \in 1..Len(s)}
Has(rec, f) == f \in DOMAIN rec

(* a start that failed (the executor could not be spawned) is an attempt, not a run: nothing of it is running afterwards *)
Failed(e) == Has(e, "failed") /\ e.failed
(* ---------- requests: which item was accepted ---------- *)
ItemOk(e, k) == k <= Len(e.replies) /\ e.replies[k][2] = 2
AddIdx(ev, u) == {<<i, k>> \in (1..Len(ev)) \X (1..8) :
                    ev[i].e = "Req" /\ k <= Len(ev[i].items) /\ ev[i].items[k].kind = "add" /\ ev[i].items[k].uid = u /\ ItemOk(ev[i], k)}
ChangeIdx(ev, u) == {i \in 1..Len(ev) : ev[i].e = "Req" /\ \E k \in 1..Len(ev[i].items) : ev[i].items[k].uid = u /\ ItemOk(ev[i], k)}
Uids(ev) == UNION {{ev[i].items[k].uid : k \in 1..Len(ev[i].items)} : i \in {j \in 1..Len(ev) : ev[j].e = "Req"}}

(* an epoch: task u as loaded by request i (item k) until it is replaced, cancelled or the run ends *)
EpochEnd(ev, u, i) == LET later == {j \in ChangeIdx(ev, u) : j > i} IN
                      IF later = {} THEN Len(ev) ELSE (CHOOSE j \in later : \A x \in later : j <= x) - 1
Future(ev, i, k) == SelectSeq(ev[i].items[k].occ, LAMBDA o : o >= ev[i].now)
SpawnsOf(ev, u, a, b) == {j \in a..b : ev[j].e = "Spawn" /\ ev[j].uid = u}
Quiescent(e) == e.e = "State" /\ e.pending = <<>> /\ \A t \in SeqSet(e.tasks) : ~(t.active = 1 /\ t.at < e.now)
DueBefore(F, t) == Cardinality({x \in 1..Len(F) : F[x] < t})

(* ---------- C04: every future occurrence exactly once, on time, in order ---------- *)
EpochOk(ev, u, i, k) ==
  LET b == EpochEnd(ev, u, i)
      F == Future(ev, i, k)
      S == SpawnsOf(ev, u, i, b)
  IN
  (* never more runs than occurrences that have come due; never early; none for what was past at load *)
  /\ \A j \in S : Cardinality({x \in S : x <= j}) <= DueBefore(F, ev[j].now)
  (* what is started is this task, as it was handed in, on behalf of the user who handed it in *)
  /\ \A j \in S : (Has(ev[j], "vuid") /\ ~Failed(ev[j])) =>
        /\ ev[j].vuid = u
        /\ (Has(ev[i].items[k], "peer") => ev[j].vsetuid = ev[i].items[k].peer)      \* vsetuid: the last such line, the one the executor goes by
        /\ (Has(ev[j], "vnsetuid") => ev[j].vnsetuid = 1)                            \* and the only one: no value of the task becomes a line of the request
        /\ ev[j].vsummary = "echo " \o u
  (* what is started is a run of the command: a report "not run" is for a task whose own earlier runs may still be going (C12), *)
  (* never for one all of whose earlier starts the daemon has seen end, whatever other tasks do or did                        *)
  /\ \A j \in S : ev[j].norun => \E s \in 1..(j - 1) : /\ ev[s].e = "Spawn" /\ ev[s].uid = u
                                                      /\ (Failed(ev[s]) \/ ~\E x \in (s + 1)..(j - 1) : ev[x].e = "Deliver" /\ ev[x].k = "chld" /\ ev[x].pid = ev[s].pid)
  (* a task with no future occurrence is never run *)
  /\ (F = <<>> => S = {})
  (* never zero: whenever the daemon has caught up, every occurrence that came due has been followed by a run *)
  /\ \A j \in i..b : Quiescent(ev[j]) =>
        \A x \in 1..Len(F) : F[x] < ev[j].now => \E s \in S : s < j /\ ev[s].now > F[x]
  (* removed after its last occurrence (once caught up and no run of any task is alive any more) *)
  /\ \A j \in i..b : (Quiescent(ev[j]) /\ ev[j].children = <<>> /\ ev[j].now > ev[i].now /\ \A x \in 1..Len(F) : F[x] < ev[j].now) =>
        ~\E t \in SeqSet(ev[j].tasks) : t.uid = u
C04Holds(ev) == \A u \in Uids(ev) : \A p \in AddIdx(ev, u) : EpochOk(ev, u, p[1], p[2])

(* ---------- C12: MAX-SIMUL bounds concurrent runs, of that task only ---------- *)
LimitAt(ev, u, j) ==
  LET adds == {p \in AddIdx(ev, u) : p[1] < j} IN
  IF adds = {} THEN 0
  ELSE LET last == CHOOSE p \in adds : \A q \in adds : q[1] <= p[1] IN ev[last[1]].items[last[2]].maxsim
(* runs of the task as it is queued now: once a task has left the queue (cancelled, or taken off after its last occurrence) *)
(* what is added later under the same UID is a new task; a replaced task stays the same task                                *)
Absent(ev, u, x) == ev[x].e = "State" /\ ~\E t \in SeqSet(ev[x].tasks) : t.uid = u
RealRuns(ev, u, j) == {s \in 1..(j - 1) : ev[s].e = "Spawn" /\ ev[s].uid = u /\ ~ev[s].norun /\ ~Failed(ev[s]) /\ ~\E x \in (s + 1)..(j - 1) : Absent(ev, u, x)}
StillRunning(ev, s, j) == ~\E x \in (s + 1)..(j - 1) : ev[x].e = "Exit" /\ ev[x].pid = ev[s].pid
NotYetReaped(ev, s, j) == ~\E x \in (s + 1)..(j - 1) : ev[x].e = "Deliver" /\ ev[x].k = "chld" /\ ev[x].pid = ev[s].pid
(* the daemon has had every chance to learn of the end of run s: the job has ended and there was a moment with nothing left to dispatch *)
HadChance(ev, s, j) == \E x \in (s + 1)..(j - 1) : ev[x].e = "Exit" /\ ev[x].pid = ev[s].pid /\ \E y \in (x + 1)..(j - 1) : ev[y].e = "State" /\ ev[y].pending = <<>>
SpawnLimitOk(ev, j) ==
  LET u == ev[j].uid
      N == LimitAt(ev, u, j)
      running == Cardinality({s \in RealRuns(ev, u, j) : StillRunning(ev, s, j)})
      known   == Cardinality({s \in RealRuns(ev, u, j) : NotYetReaped(ev, s, j) /\ ~HadChance(ev, s, j)})
  IN IF N = 0 THEN known < 62 => ~ev[j].norun          \* unset = unlimited
     ELSE /\ ~ev[j].norun => running < N                \* never more than N at the same time
          /\ running >= N => ev[j].norun                \* due while N are running: reported as not run
          /\ known < N => ~ev[j].norun                  \* runs normally again once executions have finished;
                                                        \* in particular another task's load never causes a not-run
C12Holds(ev) == \A j \in 1..Len(ev) : ev[j].e = "Spawn" => SpawnLimitOk(ev, j)

(* ---------- C11: the queue is a per-user map by UID ---------- *)
Resolvable(p) == p \in {0, 1000, 1001, 1002} \cup (2000..2063)
OwnerUid(o) == CASE o = "root" -> 0 [] o = "alice" -> 1000 [] o = "bob" -> 1001 [] o = "carol" -> 1002 [] OTHER -> -1
(* an X-ECHS-OWNER that names no existing user says nothing: the task is the sender's (it can never become someone else's) *)
RawOwner(it) == IF Has(it, "owner_uid") THEN it.owner_uid ELSE IF Has(it, "owner_name") THEN OwnerUid(it.owner_name) ELSE -2
OwnerOf(it) == IF Resolvable(RawOwner(it)) THEN RawOwner(it) ELSE -2
(* M: set of <<uid, owner>> *)
OwnerIn(M, u) == IF \E m \in M : m[1] = u THEN (CHOOSE m \in M : m[1] = u)[2] ELSE -1
ItemAllowed(M, p, it) ==
  IF it.kind = "add"
  THEN Resolvable(p) /\ (OwnerOf(it) = -2 \/ OwnerOf(it) = p) /\ (OwnerIn(M, it.uid) = -1 \/ OwnerIn(M, it.uid) = p)
  ELSE OwnerIn(M, it.uid) = p
Apply(M, p, it) ==
  IF ~ItemAllowed(M, p, it) THEN M
  ELSE IF it.kind = "add" THEN {m \in M : m[1] # it.uid} \cup {<<it.uid, p>>}
  ELSE {m \in M : m[1] # it.uid}
RECURSIVE ApplyAll(_, _, _, _)
ApplyAll(M, p, items, k) == IF k > Len(items) THEN M ELSE ApplyAll(Apply(M, p, items[k]), p, items, k + 1)
RECURSIVE RepliesOk(_, _, _, _)
(* one reply per item, in order, naming that item's UID, success iff the queue changed as asked *)
RepliesOk(M, e, k, acc) ==
  IF k > Len(e.items) THEN acc
  ELSE LET it == e.items[k] ok == ItemAllowed(M, e.peer, it) IN
       RepliesOk(Apply(M, e.peer, it), e, k + 1,
                 acc /\ k <= Len(e.replies) /\ e.replies[k][1] = it.uid /\ (e.replies[k][2] = 2) = ok)
TableOf(st) == {<<t.uid, t.owner>> : t \in SeqSet(st.tasks)}
(* what a /queue listing says about a task is the task as last accepted (here: its DTSTART), not an earlier version of it *)
LastAdd(ev, i, u) == LET A == {p \in AddIdx(ev, u) : p[1] < i} IN CHOOSE p \in A : \A x \in A : x[1] < p[1] \/ (x[1] = p[1] /\ x[2] <= p[2])
ShownAsAccepted(ev, i) ==
  Has(ev[i], "starts") =>
    \A x \in SeqSet(ev[i].starts) :
      LET A == {p \in AddIdx(ev, x[1]) : p[1] < i} IN
      A # {} => LET p == LastAdd(ev, i, x[1]) IN Has(ev[p[1]].items[p[2]], "start") => x[2] = ev[p[1]].items[p[2]].start
RECURSIVE MapRun(_, _, _, _)
(* walks the run; everHad = users that ever had a successful change (they own a queue file) *)
MapRun(ev, i, M, everHad) ==
  IF i > Len(ev) THEN TRUE
  ELSE LET e == ev[i] IN
    IF e.e = "Req"
    THEN LET M2 == ApplyAll(M, e.peer, e.items, 1) IN
         /\ Len(e.replies) = Len(e.items) /\ (Len(e.items) > 0 => (e.nfooter >= 1 /\ e.nfooter <= Len(e.items)))   \* a request that arrives in pieces is answered in pieces, each a calendar of its own
         /\ RepliesOk(M, e, 1, TRUE)
         /\ (i < Len(ev) /\ ev[i + 1].e = "State" => TableOf(ev[i + 1]) = M2)
         /\ MapRun(ev, i + 1, M2, IF M2 # M THEN everHad \cup {e.peer} ELSE everHad)
    ELSE IF e.e = "Http"
    THEN /\ (e.what = "sched" => e.status = 200 /\ SeqSet(e.uids) = {m[1] : m \in {x \in M : x[2] = e.peer}})
         /\ (e.what = "queue" => IF e.peer \in everHad THEN e.status = 200 /\ e.complete /\ SeqSet(e.uids) = {m[1] : m \in {x \in M : x[2] = e.peer}} /\ ShownAsAccepted(ev, i)
                                 ELSE e.status = 404)
         (* asking for another user's view: refused, or answered with the caller's own view - never the other user's *)
         /\ (e.what = "other" => (e.status = 403 \/ SeqSet(e.uids) \subseteq {m[1] : m \in {x \in M : x[2] = e.peer}}))
         /\ MapRun(ev, i + 1, M, everHad)
    ELSE MapRun(ev, i + 1, M, everHad)
(* every peer has a slot of the connection table to itself (credentials, the partly read request, the descriptor live there):   *)
(* a slot handed out is not in use, one given back was in use, and a peer is turned away only when all 64 are taken              *)
RECURSIVE SlotRun(_, _, _)
SlotRun(ev, i, Held) ==
  IF i > Len(ev) THEN TRUE
  ELSE IF ev[i].e # "Slot" THEN SlotRun(ev, i + 1, Held)
  ELSE IF ev[i].op = "open"
       THEN IF ev[i].slot = -1 THEN Cardinality(Held) = 64 /\ SlotRun(ev, i + 1, Held)
            ELSE ev[i].slot \in 0..63 /\ ev[i].slot \notin Held /\ ~ev[i].clash /\ SlotRun(ev, i + 1, Held \cup {ev[i].slot})
       ELSE ev[i].slot \in Held /\ SlotRun(ev, i + 1, Held \ {ev[i].slot})
C11Holds(ev) == MapRun(ev, 1, {}, {}) /\ SlotRun(ev, 1, {})
NoDeath(ev) == ~\E i \in 1..Len(ev) : ev[i].e \in {"Died", "Garbled"}
=============================================================================
