SPECIFICATION Spec
INVARIANT DecisionMatchesContract
INVARIANT MapIsFunctional
CHECK_DEADLOCK FALSE
