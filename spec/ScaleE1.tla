------------------------------ MODULE ScaleE1 ------------------------------
(* E1 for C15: the relational contract of Scale.tla is satisfiable and    *)
(* discriminating: on a synthetic lunar calendar (months alternate 30/29, *)
(* year = 12 months) PointOk/StepOk accept the true successor and reject  *)
(* every other candidate next date.                                        *)
EXTENDS Scale, TLC, Integers
Ndim(m) == IF m % 2 = 1 THEN 30 ELSE 29
VARIABLES h, cand
Init == h \in {<<y, m, d>> : y \in {1440, 1441}, m \in 1..12, d \in 1..30} /\ cand \in {<<y, m, d>> : y \in {1440, 1441, 1442}, m \in {1, 2, 11, 12, 13}, d \in {0, 1, 2, 29, 30, 31}}
Next == UNCHANGED <<h, cand>>
Spec == Init /\ [][Next]_<<h, cand>>
Valid == h[3] <= Ndim(h[2])
P == [h |-> h, ndim |-> Ndim(h[2])]
R == [h |-> cand, ndim |-> IF cand[2] \in 1..12 THEN Ndim(cand[2]) ELSE 30]
OnlyTrueSuccessorAccepted == Valid => (StepOk(P, R) <=> cand = Succ(h, Ndim(h[2])))
SuccStaysValid == Valid => LET s == Succ(h, Ndim(h[2])) IN s[2] \in 1..12 /\ s[3] \in 1..Ndim(s[2])
=============================================================================
