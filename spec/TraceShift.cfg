\* constant-level evaluation only
