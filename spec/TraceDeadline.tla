---------------------------- MODULE TraceDeadline ----------------------------
(* E2 for C14. *)
EXTENDS Deadline, TLC, Json, IOUtils, FiniteSets
Tr == ndJsonDeserialize(IOEnv.TRACE)
Verdict(r) ==
  CASE r.e = "Limit" ->
         LET span == IF r.kind = "DURATION" THEN SpanOfDuration(r.durc) ELSE SpanOfDtend(r.ds, r.de) IN
         IF span = DurUndef \/ span[1] < 0 \/ (span[1] = 0 /\ span[2] = 0) THEN "skip"
         ELSE IF "nospawn" \in DOMAIN r THEN "bad"
         ELSE IF HopsOk(span, r.durlinec, r.alarm) THEN "ok" ELSE "bad"
    [] r.e = "Due" ->
         (* DUE = start + L: armed with L (the clock may have moved by a second); DUE in the past: refused *)
         IF r.L <= 0 THEN (IF r.starts = 0 /\ r.cancelled THEN "ok" ELSE "bad")
         ELSE IF r.starts = 1 /\ r.alarm \in (r.L - 2)..r.L THEN "ok" ELSE "bad"
    [] r.e = "Kill" ->
         IF (IF "held" \in DOMAIN r /\ r.held > 0 THEN HeldKillOk(r.L, r.held, r.wallms, r.jsig)
             ELSE IF "stubborn" \in DOMAIN r /\ r.stubborn THEN StubbornKillOk(r.L, r.W, r.wallms, r.jsig) ELSE KillOk(r.L, r.W, r.wallms, r.jsig, r.jexit)) THEN "ok" ELSE "bad"
    [] r.e = "KillLocked" ->
         IF LockedKillOk(r.L, r.W, r.rc, r.jentries, r.jsig, r.jexit) THEN "ok" ELSE "bad"
    [] r.e = "Req" ->
         (* one request with several VTODOs run by one echsx process: the executor survives and every task *)
         (* meets its own contract, whatever happened to the tasks before it                                *)
         IF r.rc = 0 /\ \A k \in 1..Len(r.tasks) : ObservedOk(r.tasks[k], r.res[k]) THEN "ok" ELSE "bad"
    [] r.e = "ReqDue" ->
         IF r.rc = 0 /\ \A k \in 1..Len(r.tasks) : ObservedDueOk(r.tasks[k], r.res[k]) THEN "ok" ELSE "bad"
    [] OTHER -> "bad"
N == Len(Tr)
BadSet == {k \in 1..N : Verdict(Tr[k]) = "bad"}
SkipSet == {k \in 1..N : Verdict(Tr[k]) = "skip"}
ASSUME JsonSerialize(IOEnv.OUT, [n |-> N, nbad |-> Cardinality(BadSet), nskip |-> Cardinality(SkipSet), bad |-> BadSet])
=============================================================================
