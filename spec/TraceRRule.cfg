\* constant-level evaluation only
