SPECIFICATION Spec
INVARIANT CivilRoundTrip
INVARIANT AddDiffInverse
INVARIANT DiffAntisym
INVARIANT DiffIsElapsed
INVARIANT OrderAgrees
INVARIANT AllDayFirst
INVARIANT FixupKeepsTime
INVARIANT EpochRoundTrip
INVARIANT WeekdayStep
CHECK_DEADLOCK FALSE
