SPECIFICATION Spec
CONSTANTS H = 2
          MaxId = 7
          Variant = "repaired"
INVARIANT SlotsSound
PROPERTIES NoTakeover RefusedOnlyWhenFull
CHECK_DEADLOCK FALSE
